import OFCore.Lemmas.Equivariance
import OFCore.Props.C01
/-!
# C11 — each entity's result is independent of the other entities simulated with it

Vocabulary (`Equivariance.lean`): a declaration `d` is one population (persons, groups, the group
of each person, variables, input vectors).  A *closed selection* `(sel, gsel)` of `d` keeps some
persons and some groups such that a person is kept iff its group is kept — one of several
unrelated situations that were written into the same population, in whatever interleaved order of
persons and of groups (`Increasing sel`: the part keeps the order the merged population has), or
the whole population listed in another order (`IsPerm`), or a reordered part.
`restrict d sel gsel` is that part **simulated alone**: its own persons and groups only, every
person attached to the position its group has among the kept groups, the same rule system, each
input vector read at the kept indices.

The theorems say: whatever is computed for the part alone — formula by formula, node by node, by
the meaning `den` and by the machine `request` (= `Simulation.calculate`) — is the merged
computation read at the kept indices (`reindex`): same values entity by entity, same error, same
non-termination; nothing of the other entities enters.

Hypotheses (all decidable, checked on the example below):
`WF d` — one group index per person, below `nG`; every formula respects the entity discipline
(`WT`: a sum over members turns a person vector into a group vector, a projection a group vector
into a person vector, everything else stays on its entity — real formulas that break it fail with
a numpy shape error); every input vector has its entity's size.
`Closed d sel gsel` — indices valid and duplicate-free, a person is kept iff its group is kept.

Domain note.  The formula language modelled here (`DExpr`) has the sum over members, the
projection onto persons and the role operations that are functions of the SET of role holders of
a group (role-filtered sum, value of the unique-role member = `value_from_person` / the role
projector, number of role holders, any, and the reductions max / min / all with or without role
filter, made total on integers: 0, 0 and 1 for a household without holder; the projection with
a role filter; role digits: a flattened role, 9 = everybody, 8 = a first role with its sub-roles).  It deliberately has no n-th-member / first-person / rank
read: their result is *defined* by storage order ("this position is arbitrary"), so the
permutation clause of the property is false of them by definition.  For the language as it is the
permutation theorems hold without restriction, like the merge theorems.  Inputs are whole vectors per (variable, period): the part
alone has an input exactly where the merged population has one.
-/
set_option linter.unusedSectionVars false
set_option linter.unusedSimpArgs false
set_option linter.unusedVariables false
namespace OFCore
open OFCore.Engine OFCore.RuleSys OFCore.Equivariance

/-! Concrete merged population used by the non-vacuity examples: five persons, three households,
stored interleaved.  Situation A = households 0 and 2 with persons 1, 3, 4; situation B =
household 1 with persons 0 and 2.  Roles: 2 = head (unique), 1 = parent, 0 = plain member; the
heads are persons 0 (of household 1), 3 (of household 2), 4 (of household 0): listed in another
order than their households.  `v0` person input, `v1` = household sum of `v0`,
`v2` = `v0` + projection of `v1` (a person's result mentions every member of its household),
`v3` = the head's `v0` (`value_from_person`, role operation 22). -/
def c11Jan : Period := ⟨.month, ⟨2018, 1, 1⟩, 1⟩
def c11D : Decl :=
  ⟨5, 3, [1, 0, 1, 2, 0], 1,
   [⟨0, .int, .month, 7, false, none, false, []⟩,
    ⟨1, .int, .month, 0, false, none, false, [(1, .op1 1 (.var 0 .same false))]⟩,
    ⟨0, .int, .month, 0, false, none, false, [(1, .op2 0 (.var 0 .same false) (.op1 2 (.var 1 .same false)))]⟩,
    ⟨1, .int, .month, 0, false, none, false, [(1, .op1 22 (.var 0 .same false))]⟩],
   [(0, c11Jan, [10, 20, 30, 40, 50])],
   [2, 0, 1, 2, 2]⟩

/-- the hypotheses of every theorem below are satisfiable: the example is well-formed, both
    situations are closed order-preserving selections, and a reordering is a permutation -/
example : WF c11D ∧ Closed c11D [1, 3, 4] [0, 2] ∧ Increasing [1, 3, 4] ∧ Increasing [0, 2] ∧
    Closed c11D [0, 2] [1] ∧ IsPerm c11D [4, 2, 0, 3, 1] [2, 0, 1] ∧
    complement 5 [1, 3, 4] = [0, 2] ∧ complement 3 [0, 2] = [1] := by decide

/-- Every formula of the language, on every entity it can live on, evaluated for the part alone
    gives the merged evaluation read at the part's indices — values, errors and exhaustion alike.
    (Induction on the expression: constants, reads, pointwise operations, the sum over the members
    of each group, the projection onto persons, injected faults.) -/
theorem C11_expr_equivariant (d : Decl) (armed sel gsel : List Nat) (hwf : WF d) (hcl : Closed d sel gsel)
    (e : DExpr) (ent : Nat) (hwt : WT ent e = true) (p : Period) (n : Nat) :
    denE (elabSys (restrict d sel gsel) armed) n (elabExpr (restrict d sel gsel) ent p e)
      = (denE (elabSys d armed) n (elabExpr d ent p e)).map (mapRes (reindex (idxFor sel gsel ent))) := by
  have hsim := sim_restrict (armed := armed) hwf hcl
  exact (denE_sim_step hsim.armed n (den_sim hsim n) _ _ _ (elabExpr_rel hwf.1 hcl p e ent hwt)).1

/-- the group operations in isolation: the household sums of the part are the merged household
    sums of the kept households, the projection onto the part's persons is the merged projection
    at the kept persons, and every role operation (codes 10–79: role-filtered sum, value of the
    unique-role member, number of role holders, any, max, min, all — with or without role filter)
    of the part is the merged one at the kept households, and the projection with a role filter
    (codes 80–89) the merged one at the kept persons -/
theorem C11_group_ops_equivariant (d : Decl) (sel gsel : List Nat) (hwf : WF d) (hcl : Closed d sel gsel) :
    (∀ x : Val, x.length = d.nP →
        RuleSys.f1 (restrict d sel gsel) 1 (reindex sel x) = reindex gsel (RuleSys.f1 d 1 x)) ∧
    (∀ y : Val, y.length = d.nG →
        RuleSys.f1 (restrict d sel gsel) 2 (reindex gsel y) = reindex sel (RuleSys.f1 d 2 y)) ∧
    (∀ o : Nat, isRoleOp o = true → ∀ x : Val, x.length = d.nP →
        RuleSys.f1 (restrict d sel gsel) o (reindex sel x) = reindex gsel (RuleSys.f1 d o x)) ∧
    (∀ o : Nat, isProjOp o = true → ∀ y : Val, y.length = d.nG →
        RuleSys.f1 (restrict d sel gsel) o (reindex gsel y) = reindex sel (RuleSys.f1 d o y)) := by
  refine ⟨?_, ?_, ?_, ?_⟩
  · intro x hx
    have := (f1_sim_sum hwf.1 hcl 1 (by decide) x (by simpa [ID, Decl.size] using hx)).2
    simpa [TD, idxFor] using this
  · intro y hy
    have := (f1_sim_proj hwf.1 hcl 1 (by decide) y (by simpa [ID, Decl.size] using hy)).2
    simpa [TD, idxFor] using this
  · intro o ho x hx
    have := (f1_sim_role hwf.1 hcl o ho 1 (by decide) x (by simpa [ID, Decl.size] using hx)).2
    simpa [TD, idxFor] using this
  · intro o ho y hy
    have := (f1_sim_rproj hwf.1 hcl o ho 1 (by decide) y (by simpa [ID, Decl.size] using hy)).2
    simpa [TD, idxFor] using this

example : RuleSys.f1 (restrict c11D [1, 3, 4] [0, 2]) 1 (reindex [1, 3, 4] [10, 20, 30, 40, 50]) = [70, 40] ∧
    reindex [0, 2] (RuleSys.f1 c11D 1 [10, 20, 30, 40, 50]) = [70, 40] := by decide

/-- the head's value per household: merged `[50, 10, 40]` (heads are persons 4, 0, 3); situation A
    alone `[50, 40]`; under the reordering `[4, 2, 0, 3, 1]` / `[2, 0, 1]`: `[40, 50, 10]`; number
    of parents (role 1) per household: `[0, 1, 0]` -/
example : RuleSys.f1 c11D 22 [10, 20, 30, 40, 50] = [50, 10, 40] ∧
    RuleSys.f1 (restrict c11D [1, 3, 4] [0, 2]) 22 (reindex [1, 3, 4] [10, 20, 30, 40, 50]) = [50, 40] ∧
    RuleSys.f1 (permute c11D [4, 2, 0, 3, 1] [2, 0, 1]) 22 (reindex [4, 2, 0, 3, 1] [10, 20, 30, 40, 50]) = [40, 50, 10] ∧
    RuleSys.f1 c11D 31 [0, 0, 0, 0, 0] = [0, 1, 0] ∧ isRoleOp 22 = true := by decide

/-- The reductions are functions of the multiset of the holders' values, not of the order in which
    persons are stored: `max` is attained and an upper bound, `min` attained and a lower bound,
    `all` says that no holder's value is 0; a household without holder gives 0, 0 and 1. -/
theorem C11_reductions_def (d : Decl) (r : Nat) (x : Val) (g : Nat) :
    (holderVals d r x g ≠ [] →
      (listMax (holderVals d r x g) ∈ holderVals d r x g ∧ ∀ y ∈ holderVals d r x g, y ≤ listMax (holderVals d r x g)) ∧
      (listMin (holderVals d r x g) ∈ holderVals d r x g ∧ ∀ y ∈ holderVals d r x g, listMin (holderVals d r x g) ≤ y)) ∧
    (listAll (holderVals d r x g) = 1 ↔ ∀ y ∈ holderVals d r x g, y ≠ 0) ∧
    (holderVals d r x g = [] →
      listMax (holderVals d r x g) = 0 ∧ listMin (holderVals d r x g) = 0 ∧ listAll (holderVals d r x g) = 1) := by
  refine ⟨fun h => ⟨listMax_spec _ h, listMin_spec _ h⟩, ?_, ?_⟩
  · unfold listAll
    by_cases h : (holderVals d r x g).all (fun a => decide (a ≠ 0)) = true
    · rw [if_pos h]; simp only [true_iff]
      intro y hy
      have := List.all_eq_true.1 h y hy
      simpa using this
    · rw [if_neg h]
      constructor
      · intro h0; cases h0
      · intro hall
        exact absurd (List.all_eq_true.2 (fun y hy => by simpa using hall y hy)) h
  · intro h; rw [h]; exact ⟨rfl, rfl, rfl⟩

/-- A population whose LAST household has no member, after a household whose last-stored member is
    decisive: three persons, households 0 = {person 0}, 1 = {persons 1, 2}, 2 = {} (person 2 holds
    role 1).  max / min / all without role filter (codes 59 / 69 / 79) and with role 1 (51 / 61 / 71);
    the part made of households 1 and 2 alone; the reordering that lists the empty household first. -/
def c11E : Decl := ⟨3, 3, [0, 1, 1], 1, [], [], [0, 0, 1]⟩

example : WF c11E ∧ Closed c11E [1, 2] [1, 2] ∧ IsPerm c11E [2, 0, 1] [2, 1, 0] ∧
    RuleSys.f1 c11E 59 [5, 7, 30] = [5, 30, 0] ∧ RuleSys.f1 c11E 69 [5, 7, -3] = [5, -3, 0] ∧
    RuleSys.f1 c11E 79 [5, 7, 0] = [1, 0, 1] ∧
    RuleSys.f1 c11E 51 [5, 7, 30] = [0, 30, 0] ∧ RuleSys.f1 c11E 61 [5, 7, 30] = [0, 30, 0] ∧
    RuleSys.f1 c11E 71 [5, 0, 30] = [1, 1, 1] ∧
    RuleSys.f1 (restrict c11E [1, 2] [1, 2]) 59 (reindex [1, 2] [5, 7, 30]) = [30, 0] ∧
    RuleSys.f1 (permute c11E [2, 0, 1] [2, 1, 0]) 59 (reindex [2, 0, 1] [5, 7, 30]) = [0, 30, 5] ∧
    isRoleOp 59 = true ∧ isRoleOp 71 = true := by decide

/-- projection with a role filter (code 81: onto the holders of role 1, 0 for the others), in the
    whole population, in the part made of households 1 and 2, and reordered -/
example : RuleSys.f1 c11E 81 [100, 200, 300] = [0, 0, 200] ∧ RuleSys.f1 c11E 89 [100, 200, 300] = [100, 200, 200] ∧
    RuleSys.f1 (restrict c11E [1, 2] [1, 2]) 81 (reindex [1, 2] [100, 200, 300]) = [0, 200] ∧
    RuleSys.f1 (permute c11E [2, 0, 1] [2, 1, 0]) 81 (reindex [2, 1, 0] [100, 200, 300]) = [200, 0, 0] ∧
    isProjOp 81 = true := by decide

/-- What the unique-role operation means: in a group with exactly one holder `i` of role `r` it is
    that person's value, whatever the storage order; in a group without holder it is 0 (the
    default of `value_from_person`). -/
theorem C11_from_role_value (d : Decl) (r : Nat) (x : Val) (g : Nat) :
    (∀ i, i < d.mem.length → (d.mem.getD i 0 = g ∧ roleMatch r (d.roles.getD i 0) = true) →
      (∀ k, k < d.mem.length → d.mem.getD k 0 = g ∧ roleMatch r (d.roles.getD k 0) = true → k = i) →
      roleSum d r x g = x.getD i 0) ∧
    ((∀ k, k < d.mem.length → ¬(d.mem.getD k 0 = g ∧ roleMatch r (d.roles.getD k 0) = true)) → roleSum d r x g = 0) :=
  ⟨fun i hi hh hu => roleSum_unique d r x g i hi hh hu, roleSum_none d r x g⟩

/-- which persons a role digit selects (`has_role`): a flattened role, nobody else; digit 9:
    everybody; digit 8: the holders of the two sub-roles of the first role -/
example : roleMatch 2 2 = true ∧ roleMatch 2 0 = false ∧ roleMatch 9 5 = true ∧
    roleMatch 8 0 = true ∧ roleMatch 8 1 = true ∧ roleMatch 8 2 = false := by decide

example : roleSum c11D 2 [10, 20, 30, 40, 50] 0 = 50 ∧ roleSum c11D 1 [10, 20, 30, 40, 50] 0 = 0 := by decide

/-- THE TWO MODELS OF THE GROUP OPERATIONS AGREE.  The expression language states its group
    operations over index sets (`RuleSys.f1`: sum over members, projection, and the role
    operations 10–89); `Group.lean` transcribes the code of `GroupPopulation` (`numpy.bincount`,
    the position loop of `reduce`, masks) and is tied to the real code by C10's correspondence
    and to the per-group definitions by C10's theorems.  On the population of any well-formed
    declaration (`declPop`: one `(group, role)` per person, `nG` groups) they compute the same
    arrays, for every role digit (`roleOfDigit`: 9 = no role, 8 = the first role with its
    sub-roles, else a flattened role): sum, `sum(role)`, `nb_persons(role)`, `any(role)`,
    `project`, `project(role)`, and — for a population with at least one person — `max`, `min`,
    `all` (the `±inf` of a group without holder read as 0, as the formulas of the language do). -/
theorem C11_group_ops_are_the_group_model (d : Decl) (hm : d.mem.length = d.nP) (hg : ∀ g ∈ d.mem, g < d.nG)
    (hρ : ∀ ρ ∈ d.roles, ρ < 8) (r : Nat) (hr : r ≤ 9) (x : Val) (hx : x.length = d.nP)
    (y : Val) (hy : y.length = d.nG) :
    Grp.groupSum (declPop d) x none = .ok (RuleSys.f1 d 1 x) ∧
    Grp.project (declPop d) y 0 none = .ok (RuleSys.f1 d 2 y) ∧
    Grp.groupSum (declPop d) x (roleOfDigit r) = .ok (RuleSys.f1 d (10 + r) x) ∧
    Grp.nbPersons (declPop d) (roleOfDigit r) = .ok (RuleSys.f1 d (30 + r) x) ∧
    Grp.groupAnyI (declPop d) x (roleOfDigit r) = .ok ((RuleSys.f1 d (40 + r) x).map fun v => decide (v ≠ 0)) ∧
    Grp.project (declPop d) y 0 (roleOfDigit r) = .ok (RuleSys.f1 d (80 + r) y) ∧
    (d.nP ≠ 0 →
      (∃ mx, Grp.groupMax (declPop d) x (roleOfDigit r) = .ok mx ∧ mx.map eint0 = RuleSys.f1 d (50 + r) x) ∧
      (∃ mn, Grp.groupMin (declPop d) x (roleOfDigit r) = .ok mn ∧ mn.map eint0 = RuleSys.f1 d (60 + r) x) ∧
      Grp.groupAll (declPop d) (x.map fun v => decide (v ≠ 0)) (roleOfDigit r)
        = .ok ((RuleSys.f1 d (70 + r) x).map fun v => decide (v ≠ 0))) :=
  f1_is_group_model d hm hg hρ r hr x hx y hy

/-- `value_from_person(x, role)` (operation 20 + r) for a role held at most once per group -/
theorem C11_from_person_is_the_group_model (d : Decl) (hm : d.mem.length = d.nP) (hg : ∀ g ∈ d.mem, g < d.nG)
    (hρ : ∀ ρ ∈ d.roles, ρ < 8) (r : Nat) (hr : r < 8) (x : Val) (hx : x.length = d.nP)
    (hu : ∀ g, g < d.nG → (holderVals d r x g).length ≤ 1) :
    Grp.valueFromPerson (declPop d) x ⟨r, [], some 1⟩ 0 = .ok (RuleSys.f1 d (20 + r) x) :=
  f1_from_person_is_group_model d hm hg hρ r hr x hx hu

/-- on the example: the hypotheses hold, and both models give the head's value per household -/
example : c11D.mem.length = c11D.nP ∧ (∀ g ∈ c11D.mem, g < c11D.nG) ∧ (∀ ρ ∈ c11D.roles, ρ < 8) ∧
    (∀ g, g < c11D.nG → (holderVals c11D 2 [10, 20, 30, 40, 50] g).length ≤ 1) ∧
    Grp.valueFromPerson (declPop c11D) [10, 20, 30, 40, 50] ⟨2, [], some 1⟩ 0 = .ok [50, 10, 40] ∧
    RuleSys.f1 c11D 22 [10, 20, 30, 40, 50] = [50, 10, 40] ∧
    Grp.groupMax (declPop c11E) [5, 7, 30] (roleOfDigit 1) = .ok [.negInf, .fin 30, .negInf] ∧
    RuleSys.f1 c11E 51 [5, 7, 30] = [0, 30, 0] := by decide

/-- MERGE FOR THE ORDER-DEPENDENT OPERATIONS.  `value_nth_person` (and `value_from_first_person`,
    `household.first_person`) are defined by the storage order of the persons, so they are outside
    the expression language and outside the permutation clause; but a situation keeps its internal
    person order inside a merged population, whatever is interleaved with it.  For every closed
    part whose persons are listed in merged order (`ClosedPop`: any groups order), the part as a
    population of its own (`restrictPop`) has in every group the same members with the same values
    in the same order, hence the same n-th member for every n: the part's answer is the merged
    answer read at the part's groups.  (Model: `Group.lean`, the transcription of
    `GroupPopulation`, whose `members_position` is the counter loop; a position computed through
    an unstable sort of the whole population breaks exactly this.) -/
theorem C11_nth_merge {α : Type} (p : Grp.Pop) (sel gsel : List Nat) (hcl : ClosedPop p sel gsel)
    (hg : ∀ m ∈ p.ms, m.group < p.n) (a : List α) (d : α) (ha : a.length = p.ms.length) (hne : sel ≠ []) (k : Nat) :
    (∀ g', g' < gsel.length →
      Grp.valuesOf (restrictPop p sel gsel) none g' (selArr sel a d) = Grp.valuesOf p none (gsel.getD g' 0) a) ∧
    (∃ r, Grp.valueNth p k a d = .ok r ∧ r.length = p.n ∧
      Grp.valueNth (restrictPop p sel gsel) k (selArr sel a d) d = .ok (selArr gsel r d)) ∧
    (∃ r, Grp.valueFromFirst p a d = .ok r ∧
      Grp.valueFromFirst (restrictPop p sel gsel) (selArr sel a d) d = .ok (selArr gsel r d)) := by
  refine ⟨fun g' hg' => valuesOf_restrictPop p sel gsel hcl a d ha g' hg',
    valueNth_restrictPop p sel gsel hcl hg a d ha hne k, ?_⟩
  obtain ⟨r, h1, _, h2⟩ := valueNth_restrictPop p sel gsel hcl hg a d ha hne 0
  exact ⟨r, h1, h2⟩

/-- eight persons, households 0, 2 (situation A) and 1 (situation B) interleaved, a household
    without member last: the second member of every household, merged and for each part alone -/
def c11P : Grp.Pop := ⟨4, [⟨0, 3⟩, ⟨1, 3⟩, ⟨2, 2⟩, ⟨0, 2⟩, ⟨1, 2⟩, ⟨2, 3⟩, ⟨0, 2⟩, ⟨1, 0⟩]⟩

example : ClosedPop c11P [0, 2, 3, 5, 6] [0, 2, 3] ∧ ClosedPop c11P [1, 4, 7] [1] ∧
    Grp.valueNth c11P 1 [1, 2, 3, 4, 5, 6, 7, 8] (-7 : Int) = .ok [4, 5, 6, -7] ∧
    Grp.valueNth (restrictPop c11P [0, 2, 3, 5, 6] [0, 2, 3]) 1 (selArr [0, 2, 3, 5, 6] [1, 2, 3, 4, 5, 6, 7, 8] (-7 : Int)) (-7)
      = .ok [4, 6, -7] ∧
    Grp.valueNth (restrictPop c11P [1, 4, 7] [1]) 1 (selArr [1, 4, 7] [1, 2, 3, 4, 5, 6, 7, 8] (-7 : Int)) (-7) = .ok [5] := by
  decide

/-- MERGE.  For every closed selection — in particular every order-preserving one, i.e. any
    situation of a population made of any number of unrelated situations interleaved in any
    order — the part simulated alone means, for every variable, period and fuel, exactly what the
    merged simulation means for it, read at the part's persons / groups: the same value for every
    entity, the same error, the same non-termination. -/
theorem C11_den_merge (d : Decl) (armed sel gsel : List Nat) (hwf : WF d) (hcl : Closed d sel gsel)
    (n v : Nat) (p : Period) :
    den (elabSys (restrict d sel gsel) armed) n v p
      = (den (elabSys d armed) n v p).map (mapRes (selVar d sel gsel v)) :=
  den_restrict hwf hcl n v p

/-- Two situations together: when one closed part is taken out of a population, what is left (in
    population order) is a closed, order-preserving part too, and each of the two parts simulated
    alone gives what the merged simulation gives for its own entities. -/
theorem C11_den_merge_two (d : Decl) (armed sel gsel : List Nat) (hwf : WF d) (hcl : Closed d sel gsel)
    (n v : Nat) (p : Period) :
    Closed d (complement d.nP sel) (complement d.nG gsel) ∧
    Increasing (complement d.nP sel) ∧ Increasing (complement d.nG gsel) ∧
    den (elabSys (restrict d sel gsel) armed) n v p
      = (den (elabSys d armed) n v p).map (mapRes (selVar d sel gsel v)) ∧
    den (elabSys (restrict d (complement d.nP sel) (complement d.nG gsel)) armed) n v p
      = (den (elabSys d armed) n v p).map (mapRes (selVar d (complement d.nP sel) (complement d.nG gsel) v)) :=
  ⟨complement_closed hwf hcl, complement_increasing _ _, complement_increasing _ _,
   den_restrict hwf hcl n v p, den_restrict hwf (complement_closed hwf hcl) n v p⟩

/-- Entity by entity: the value the merged simulation holds for the entity stored at index `i`
    is the value the part simulated alone holds for it, at the position the entity has in the part
    (`x` is the merged result vector, `reindex l x` the part's, by the theorems above). -/
theorem C11_entity_value (l : List Nat) (x : Val) (i : Nat) (hi : i ∈ l) :
    (reindex l x).getD (posIn l i) 0 = x.getD i 0 :=
  reindex_getD_posIn l x i hi

example : (reindex [1, 3, 4] [50, 90, 70, 80, 120]).getD (posIn [1, 3, 4] 3) 0 = 80 := by decide

/-- the merged example: `v2` for everybody, for situation A alone and for situation B alone -/
example : den (elabSys c11D []) 4 2 c11Jan = some (.ok [50, 90, 70, 80, 120]) ∧
    den (elabSys (restrict c11D [1, 3, 4] [0, 2]) []) 4 2 c11Jan = some (.ok [90, 80, 120]) ∧
    den (elabSys (restrict c11D [0, 2] [1]) []) 4 2 c11Jan = some (.ok [50, 70]) ∧
    den (elabSys (restrict c11D [1, 3, 4] [0, 2]) []) 4 1 c11Jan = some (.ok [70, 40]) ∧
    den (elabSys c11D []) 4 3 c11Jan = some (.ok [50, 10, 40]) ∧
    den (elabSys (restrict c11D [0, 2] [1]) []) 4 3 c11Jan = some (.ok [10]) := by
  simp [den, denE, elabSys, formulaInForce, pickFormula, pickStep, elabExpr, elabRead, applyPT, servedPeriod,
    inputLookup, startOrdOf, storageKey, Decl.size, RuleSys.f1, f2, castTo, ord, dby, dbm, isLeap, Int.max_def, c11D, c11Jan,
    restrict, selVar,
    reindex, idxFor, posIn, roleSum, isRoleOp, isProjOp, roleMatch]
  decide

/-- The part simulated alone is itself a well-formed declaration (so the theorems apply again to
    its own parts). -/
theorem C11_restrict_wf (d : Decl) (sel gsel : List Nat) (hwf : WF d) (hcl : Closed d sel gsel) :
    WF (restrict d sel gsel) ∧ (restrict d sel gsel).nP = sel.length ∧ (restrict d sel gsel).nG = gsel.length ∧
    (restrict d sel gsel).vars = d.vars :=
  ⟨wf_restrict hwf hcl, rfl, rfl, rfl⟩

/-- PERMUTATION.  Listing the persons and the groups of a population in another order permutes
    every result accordingly (`reindex`) and changes no value: each result vector of the reordered
    simulation is a permutation of the original result vector; errors are the same. -/
theorem C11_den_permute (d : Decl) (armed sel gsel : List Nat) (hwf : WF d) (hp : IsPerm d sel gsel)
    (n v : Nat) (p : Period) :
    den (elabSys (permute d sel gsel) armed) n v p
      = (den (elabSys d armed) n v p).map (mapRes (selVar d sel gsel v)) ∧
    ∀ x, den (elabSys d armed) n v p = some (.ok x) → (selVar d sel gsel v x).Perm x := by
  have hcl := closed_of_isPerm hwf hp
  refine ⟨den_restrict hwf hcl n v p, ?_⟩
  intro x hx
  have hI := (den_sim (sim_restrict (armed := armed) hwf hcl) n v p).2 x hx
  unfold selVar
  unfold srtD at hI
  cases hv : d.vars[v]? with
  | none => exact List.Perm.refl _
  | some vv =>
    rw [hv] at hI
    simp only [Option.map_some, ID, Decl.size] at hI
    apply reindex_perm
    rw [hI]
    unfold idxFor
    split
    · exact hp.1
    · exact hp.2

example : den (elabSys (permute c11D [4, 2, 0, 3, 1] [2, 0, 1]) []) 4 2 c11Jan = some (.ok [120, 70, 50, 80, 90]) ∧
    reindex [4, 2, 0, 3, 1] [50, 90, 70, 80, 120] = [120, 70, 50, 80, 90] := by
  simp [den, denE, elabSys, formulaInForce, pickFormula, pickStep, elabExpr, elabRead, applyPT, servedPeriod,
    inputLookup, startOrdOf, storageKey, Decl.size, RuleSys.f1, f2, castTo, ord, dby, dbm, isLeap, Int.max_def, c11D, c11Jan,
    restrict, selVar,
    reindex, idxFor, posIn, roleSum, isRoleOp, isProjOp, roleMatch]

/-- the rule system of the part is ranked by the same ranks as the merged one -/
theorem C11_ranked_restrict (d : Decl) (armed sel gsel : List Nat) (hwf : WF d) (hcl : Closed d sel gsel)
    (rk : Nat → Nat) (hr : VarRanked (elabSys d armed) rk) : VarRanked (elabSys (restrict d sel gsel) armed) rk :=
  (sim_restrict (armed := armed) hwf hcl).varRanked rk hr

/-- MERGE, for what `Simulation.calculate` returns.  In a variable-ranked rule system (any
    `max_spiral_loops ≥ 1`), from ANY consistent state of the merged simulation and ANY consistent
    state of the part's own simulation (whatever was requested before on either), a request on the
    part alone returns the merged simulation's answer read at the part's entities; both
    simulations stay consistent with empty stacks. -/
theorem C11_machine_merge (d : Decl) (armed sel gsel : List Nat) (hwf : WF d) (hcl : Closed d sel gsel)
    (hk : SlotCoherent (elabSys d armed)) (rk : Nat → Nat) (hr : VarRanked (elabSys d armed) rk) (hmsl : 1 ≤ d.msl)
    (n : Nat) (s s' : St Period)
    (hc : Cons (elabSys d armed) s.cache) (hs : s.stack = []) (hi : s.inval = [])
    (hc' : Cons (elabSys (restrict d sel gsel) armed) s'.cache) (hs' : s'.stack = []) (hi' : s'.inval = [])
    (v : Nat) (p : Period) (r : Res) (hd : den (elabSys d armed) n v p = some r) :
    ∃ s1 s1', request (elabSys d armed) n s (v, p) = some (r, false, s1) ∧
      request (elabSys (restrict d sel gsel) armed) n s' (v, p) = some (mapRes (selVar d sel gsel v) r, false, s1') ∧
      Cons (elabSys d armed) s1.cache ∧ s1.stack = [] ∧ s1.inval = [] ∧
      Cons (elabSys (restrict d sel gsel) armed) s1'.cache ∧ s1'.stack = [] ∧ s1'.inval = [] := by
  obtain ⟨s1, h1, k1, k2, k3⟩ := C01_calculate_eq_den (elabSys d armed) hk rk hr hmsl n s hc hs hi v p r hd
  have hd' : den (elabSys (restrict d sel gsel) armed) n v p = some (mapRes (selVar d sel gsel v) r) := by
    rw [den_restrict hwf hcl, hd]; rfl
  obtain ⟨s1', h1', k1', k2', k3'⟩ := C01_calculate_eq_den (elabSys (restrict d sel gsel) armed)
    (slotCoherent_restrict hwf hcl hk) rk
    (C11_ranked_restrict d armed sel gsel hwf hcl rk hr) hmsl n s' hc' hs' hi' v p _ hd'
  exact ⟨s1, s1', h1, h1', k1, k2, k3, k1', k2', k3'⟩

/-- PERMUTATION, for what `Simulation.calculate` returns: the reordered simulation answers the
    original answer reordered, value for value. -/
theorem C11_machine_permute (d : Decl) (armed sel gsel : List Nat) (hwf : WF d) (hp : IsPerm d sel gsel)
    (hk : SlotCoherent (elabSys d armed)) (rk : Nat → Nat) (hr : VarRanked (elabSys d armed) rk) (hmsl : 1 ≤ d.msl)
    (n : Nat) (s s' : St Period)
    (hc : Cons (elabSys d armed) s.cache) (hs : s.stack = []) (hi : s.inval = [])
    (hc' : Cons (elabSys (permute d sel gsel) armed) s'.cache) (hs' : s'.stack = []) (hi' : s'.inval = [])
    (v : Nat) (p : Period) (r : Res) (hd : den (elabSys d armed) n v p = some r) :
    ∃ s1 s1', request (elabSys d armed) n s (v, p) = some (r, false, s1) ∧
      request (elabSys (permute d sel gsel) armed) n s' (v, p) = some (mapRes (selVar d sel gsel v) r, false, s1') ∧
      (∀ x, r = .ok x → (selVar d sel gsel v x).Perm x) ∧
      Cons (elabSys d armed) s1.cache ∧ s1.stack = [] ∧ s1.inval = [] ∧
      Cons (elabSys (permute d sel gsel) armed) s1'.cache ∧ s1'.stack = [] ∧ s1'.inval = [] := by
  have hcl := closed_of_isPerm hwf hp
  obtain ⟨s1, s1', h1, h1', k⟩ := C11_machine_merge d armed sel gsel hwf hcl hk rk hr hmsl n s s' hc hs hi hc' hs' hi' v p r hd
  refine ⟨s1, s1', h1, h1', ?_, k⟩
  intro x hx
  exact (C11_den_permute d armed sel gsel hwf hp n v p).2 x (hx ▸ hd)

/-- the example system is variable-ranked (rank = variable number), so the machine theorems apply
    to it; the initial state is consistent -/
example : VarRanked (elabSys c11D []) (fun v => v) ∧ 1 ≤ c11D.msl ∧
    Cons (elabSys c11D []) (St.init : St Period).cache := by
  refine ⟨?_, by decide, (C01_init_consistent _).1⟩
  intro v p e hf k hk
  simp only [elabSys, c11D] at hf
  match v with
  | 0 => simp [formulaInForce, pickFormula] at hf
  | 1 =>
    simp [formulaInForce, pickFormula, pickStep, elabExpr, elabRead, applyPT, isRoleOp, isProjOp] at hf
    obtain ⟨_, rfl⟩ := hf
    split at hk
    · simp only [refs, List.mem_singleton] at hk; subst hk; exact Nat.zero_lt_one
    · simp [refs] at hk
  | 2 =>
    simp [formulaInForce, pickFormula, pickStep, elabExpr, elabRead, applyPT, isRoleOp, isProjOp] at hf
    obtain ⟨_, rfl⟩ := hf
    split at hk
    · simp only [refs, List.mem_append, List.mem_singleton] at hk
      rcases hk with hk | hk
      · subst hk; exact Nat.zero_lt_two
      · subst hk; exact Nat.one_lt_two
    · simp [refs] at hk
  | 3 =>
    simp [formulaInForce, pickFormula, pickStep, elabExpr, elabRead, applyPT, isRoleOp, isProjOp] at hf
    obtain ⟨_, rfl⟩ := hf
    split at hk
    · simp only [refs, List.mem_singleton] at hk; subst hk; exact Nat.zero_lt_succ _
    · simp [refs] at hk
  | v + 4 => simp at hf

/-- the example system has no eternal variable: it is slot-coherent -/
example : SlotCoherent (elabSys c11D []) := by
  apply C01_elab_slotCoherent
  intro v vv hv hu
  match v with
  | 0 => simp [c11D] at hv; subst hv; cases hu
  | 1 => simp [c11D] at hv; subst hv; cases hu
  | 2 => simp [c11D] at hv; subst hv; cases hu
  | 3 => simp [c11D] at hv; subst hv; cases hu
  | v + 4 => simp [c11D] at hv

/-- `calculate_add`: a sum of per-sub-period results of the part is the merged sum read at the
    part's indices -/
theorem C11_add_equivariant (d : Decl) (sel gsel : List Nat) (hcl : Closed d sel gsel) (ent : Nat)
    (x y : Val) (hx : x.length = d.size ent) (hy : y.length = d.size ent) :
    vecAdd (reindex (idxFor sel gsel ent) x) (reindex (idxFor sel gsel ent) y)
      = reindex (idxFor sel gsel ent) (vecAdd x y) :=
  vecAdd_reindex _ x y (d.size ent) (idxFor_lt hcl ent) hx hy

example : vecAdd (reindex [1, 3, 4] [1, 2, 3, 4, 5]) (reindex [1, 3, 4] [10, 20, 30, 40, 50]) = [22, 44, 55] := by decide

end OFCore
