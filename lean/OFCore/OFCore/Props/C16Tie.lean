import OFCore.SetInput
import OFCore.GeneratedGuards
/-!
# C16 — the input model refuses a period exactly when the code's source says so (translator tie)

`SetInput.holderSet` / `SetInput.setInput` transcribe `Holder._set` and the head of
`Holder.set_input`; `OFCore.Generated.Guards` is regenerated from their source on every run.
-/
set_option linter.unusedSimpArgs false
namespace OFCore
open OFCore.Generated

/-- `Holder._set`: for a value of the right length the model stores exactly when none of the code's
    guards raises -/
theorem C16_tie_holder_set (var : VarSpec) (s : Store) (p : Period) (v : Vec) (hl : v.length = var.count) :
    (holderSet var s p v).toBool = !Guards.holderSet_raises var.defUnit p.unit p.size := by
  obtain ⟨pu, st, sz⟩ := p
  unfold holderSet toArray
  simp only [hl, ne_eq, not_true_eq_false, ↓reduceIte, bind, Except.bind]
  by_cases h : sz > 1
  · cases hd : var.defUnit <;> cases pu <;> simp [Tie.consistencyGuards, Tie.holderSetGuards, Tie.addGuards, Tie.divideGuards, Tie.dated, Tie.enclosingName, Tie.denominatorName, Guards.holderSet_raises, Except.toBool, h]
  · cases hd : var.defUnit <;> cases pu <;> simp [Tie.consistencyGuards, Tie.holderSetGuards, Tie.addGuards, Tie.divideGuards, Tie.dated, Tie.enclosingName, Tie.denominatorName, Guards.holderSet_raises, Except.toBool, h]

/-- `Holder.set_input`: an ETERNITY period given for a dated variable is refused, exactly as the
    first guard of the code says; nothing else is refused at that point -/
theorem C16_tie_set_input_guard (var : VarSpec) (s : Store) (p : Period) (v : Vec)
    (h : Guards.holderSetInput_refuses var.defUnit p.unit var.neutralized = true) :
    setInput var s p v = .error "mismatch" := by
  unfold setInput
  cases hd : var.defUnit <;> cases hp : p.unit <;> simp_all [Guards.holderSetInput_refuses]

/-- … and a neutralised variable's input is dropped without touching the store when the guard does not fire -/
theorem C16_tie_set_input_neutralized (var : VarSpec) (s : Store) (p : Period) (v : Vec)
    (h : Guards.holderSetInput_refuses var.defUnit p.unit var.neutralized = false) (hn : var.neutralized = true) :
    setInput var s p v = .ok s := by
  unfold setInput
  cases hd : var.defUnit <;> cases hp : p.unit <;> simp_all [Guards.holderSetInput_refuses]

example : Guards.holderSetInput_refuses .month .eternity false = true := by decide
example : Guards.holderSet_raises .month .month 2 = true := by decide
end OFCore
