import OFCore.Lemmas.HeapFamily
/-!
# C13 — a cloned simulation and its original never affect each other

Model: `OFCore/Heap.lean` (objects with identity; `cloneSim` = `Simulation.clone` of the repaired code
as an allocation pattern; the public calls read and write through ids).  `h` is the heap before
`clone()`, `s` the original, `h'` the heap after, `c` the clone; `c.reg = h.length` says that the
clone lives in a region that did not exist before (all its objects are new).

`WellFormed h s`: the original only reaches its own objects (`Closed`), its `persons` is the population
listed for the person entity, has no `members` and is bound to `s`.  `MemoryBacked h s`: no holder of the original has
an on-disk storage and no temporary directory exists yet.  The example (`exH`, `exS`, `exOps` in
`Lemmas/HeapRun.lean`) is the history of the regression corpus.
-/
namespace OFCore
open Heap HM

/-- Every part of the clone refers to the clone: its populations are bound to it, every *group*
population's `members` is the clone's person population, every holder is bound to the clone's
population and to the clone, and all of these — with the tracer, the set of invalidated cache entries
and the in-memory stores — are new objects (region `c.reg = h.length` did not exist in `h`). -/
theorem C13_clone_owns_itself (h : Heap) (s : Id) (tr dbg : Bool) (h' : Heap) (c : Id)
    (hcl : Closed s.reg h) (hc : cloneSim s tr dbg h = (.ok c, h')) :
    ∃ so, h'.get? c = some (.sim so) ∧ so.trace = tr ∧ so.debug = dbg ∧ c.reg = h.length
      ∧ so.tracer.reg = c.reg ∧ so.inval.reg = c.reg ∧ alGet so.pops 0 = some so.persons
      ∧ ∀ e ∈ so.pops, ∃ po, h'.get? e.2 = some (.pop po) ∧ e.2.reg = c.reg ∧ po.sim = c
          ∧ (e.1 ≠ 0 → ∀ m, po.members = some m → m = so.persons)
          ∧ ∀ e' ∈ po.holders, ∃ ho, h'.get? e'.2 = some (.holder ho) ∧ e'.2.reg = c.reg
              ∧ ho.pop = e.2 ∧ ho.sim = c ∧ ho.mem.reg = c.reg := by
  have sc := cloneSim_spec hcl hc
  obtain ⟨so, persons', groups', trc, inv, a1, a2, a3, a4, a5, a6, a7, a8, _⟩ := sc.ex
  refine ⟨_, a2, rfl, rfl, sc.reg, a3, a4, by simp [alGet], ?_⟩
  have holders : ∀ {p0 : Id} {e e' : Nat × Id}, PopPair c.reg c p0 h h' e e' →
      ∃ po, h'.get? e'.2 = some (.pop po) ∧ e'.2.reg = c.reg ∧ po.sim = c
        ∧ (∀ m, po.members = some m → m = p0)
        ∧ ∀ x ∈ po.holders, ∃ ho, h'.get? x.2 = some (.holder ho) ∧ x.2.reg = c.reg
            ∧ ho.pop = e'.2 ∧ ho.sim = c ∧ ho.mem.reg = c.reg := by
    intro p0 e e' hp
    obtain ⟨_, po, hs, members, b1, b2, b3, b4, b5, b6⟩ := hp
    refine ⟨_, b5, b2, rfl, ?_, ?_⟩
    · intro m hm
      rcases b4 with ⟨_, h2⟩ | ⟨m0, _, h2⟩
      · simp only [h2] at hm; cases hm
      · simp only [h2] at hm; cases hm; rfl
    · exact b6.forall_right fun a b hab => by
        obtain ⟨_, ho, st, mem', c1, c2, c3, c4, c5, c6, _, _⟩ := hab
        exact ⟨_, c3, c6, rfl, rfl, c5⟩
  intro e he
  rcases List.mem_cons.mp he with rfl | hg
  · obtain ⟨po, b1, b2, b3, _, b5⟩ := holders a7
    exact ⟨po, b1, b2, b3, fun hne => absurd rfl hne, b5⟩
  · obtain ⟨a, ha, hab⟩ := a8.exists_left e hg
    obtain ⟨po, b1, b2, b3, b4, b5⟩ := holders hab
    exact ⟨po, b1, b2, b3, fun _ => b4, b5⟩

/-- Whatever the route — `get_population(plural)`, `populations[key]`, the `simulation.<key>` shortcut,
`simulation.persons` — asked of the clone, the population that comes back is a new object bound to the clone
(the routes are look-ups in the simulation object itself; nothing else remembers an answer). -/
theorem C13_clone_routes_return_own_populations (h : Heap) (s : Id) (tr dbg : Bool) (h' : Heap) (c : Id)
    (hcl : Closed s.reg h) (hc : cloneSim s tr dbg h = (.ok c, h')) (rt : Route) (ent : Nat) (pid : Id)
    (hr : (routePop c rt ent h').1 = .ok pid) :
    ∃ po, h'.get? pid = some (.pop po) ∧ po.sim = c ∧ pid.reg = c.reg ∧ c.reg = h.length
      ∧ (routeOwn c rt ent h').1 = .ok true := by
  obtain ⟨so, hso, _, _, hreg, _, _, hlist, hall⟩ := C13_clone_owns_itself h s tr dbg h' c hcl hc
  rw [routePop_eq hso] at hr
  obtain ⟨k, hk⟩ := routeAnswer_mem hr hlist
  obtain ⟨po, hpo, hpr, hps, _⟩ := hall (k, pid) hk
  refine ⟨po, hpo, hps, hpr, hreg, ?_⟩
  unfold routeOwn
  rw [bind_apply, routePop_eq hso]
  simp only at hr
  rw [hr]
  simp only
  rw [bind_of_ok (rdPop_eq hpo)]
  simp [pure_apply, hps]

example : ∃ c h', cloneSim exS false false exH = (.ok c, h') ∧ Closed exS.reg exH ∧ h' = exH' ∧ c = exC :=
  ⟨exC, exH', by decide +kernel, by decide +kernel, rfl, rfl⟩

/-- Immediately after cloning: the original is untouched (every region that existed is as it was), and
the clone holds the same values (`get_array` of every variable and period), the same known periods and
the same entity structure (counts, ids, memberships, the role and the position of every member, which
variables have a holder) and the same configuration (`opt_out_cache`,
`max_spiral_loops`, `memory_config`); every role-dependent read — `nb_persons(role)` of a group population, `persons.has_role(role)`,
which goes back through the person population's own simulation — gives on the clone what it gives on the
original. -/
theorem C13_clone_equal_initially (sys : Sys) (h : Heap) (s : Id) (tr dbg : Bool) (h' : Heap) (c : Id)
    (hwf : WellFormed h s) (hc : cloneSim s tr dbg h = (.ok c, h')) :
    (∀ r, r < h.length → h'[r]? = h[r]?)
    ∧ (∀ v p, (readValue sys c v p h').1 = (readValue sys s v p h).1)
    ∧ (∀ v, (readKnown sys c v h').1 = (readKnown sys s v h).1)
    ∧ (∀ ent, (readStructure c ent h').1 = (readStructure s ent h).1)
    ∧ (∀ ent role, (roleCount c ent role h').1 = (roleCount s ent role h).1)
    ∧ (∀ ent role, (personsHaveRole c ent role h').1 = (personsHaveRole s ent role h).1)
    ∧ (readConfig c h').1 = (readConfig s h).1 := by
  have sc := cloneSim_spec hwf.closed hc
  have hreg : h[s.reg]? = h'[s.reg]? := (sc.others s.reg (Nat.ne_of_lt sc.lt)).symm
  obtain ⟨so, so', hs, hs', look⟩ := sc.popLookup hwf.listed
  have hin : InReg s.reg (.sim so) := hwf.closed.get rfl hs
  -- the holders of corresponding populations correspond
  have holder : ∀ {p0 : Id} {k : Nat} {pid pid' : Id} (v : Var), alGet so.pops k = some pid →
      PopPair c.reg c p0 h h' (k, pid) (k, pid') →
      ∃ po po', h.get? pid = some (.pop po) ∧ h'.get? pid' = some (.pop po')
        ∧ po'.count = po.count ∧ po'.ids = po.ids ∧ po'.membersEntityId = po.membersEntityId
        ∧ po'.membersRole = po.membersRole ∧ po'.membersPosition = po.membersPosition ∧ po'.sim = c
        ∧ po'.holders.map (fun e => e.1) = po.holders.map (fun e => e.1)
        ∧ ((alGet po.holders v = none ∧ alGet po'.holders v = none)
          ∨ ∃ hid hid' ho ho', alGet po.holders v = some hid ∧ alGet po'.holders v = some hid'
              ∧ h.get? hid = some (.holder ho) ∧ h'.get? hid' = some (.holder ho')
              ∧ (∀ p, (holderFind ho' p h').1 = (holderFind ho p h).1)
              ∧ (knownPeriods ho' h').1 = (knownPeriods ho h).1) := by
    intro p0 k pid pid' v hk hp
    obtain ⟨_, po, hs5, members, b1, b2, b3, b4, b5, b6⟩ := hp
    have hpid : pid.reg = s.reg := hin.2.1 _ (alGet_mem hk)
    have hpo : InReg s.reg (.pop po) := hwf.closed.get hpid b1
    refine ⟨po, _, b1, b5, rfl, rfl, rfl, rfl, rfl, rfl, b6.keys (fun e e' hp => hp.1), ?_⟩
    rcases alGet_rel₂ b6 (fun e e' hp => hp.1) v with hn | ⟨hid, hid', g1, g2, g3⟩
    · exact Or.inl hn
    · obtain ⟨ho, ho', d1, d2, d3, d4⟩ := holderFind_pair g3 hwf.closed (hpo.2.1 _ (alGet_mem g1)) hreg
      exact Or.inr ⟨hid, hid', ho, ho', g1, g2, d1, d2, d3, d4⟩
  refine ⟨fun r hr => sc.others r (Nat.ne_of_lt hr), fun v p => ?_, fun v => ?_, fun ent => ?_, fun ent role => ?_,
    fun ent role => ?_, ?_⟩
  · unfold readValue varDecl
    cases sys[v]? with
    | none => rfl
    | some decl =>
      simp only [ofOption_some, pure_bind']
      rw [bind_of_ok (rdSim_eq hs'), bind_of_ok (rdSim_eq hs)]
      rcases look decl.entity with ⟨n1, n2⟩ | ⟨pid, pid', p0, l1, l2, pp⟩
      · rw [n1, n2]; rfl
      · rw [l1, l2]
        simp only [ofOption_some, pure_bind']
        obtain ⟨po, po', q1, q2, _, _, _, _, _, _, _, q7⟩ := holder v l1 pp
        rw [bind_of_ok (rdPop_eq q2), bind_of_ok (rdPop_eq q1)]
        rcases q7 with ⟨m1, m2⟩ | ⟨hid, hid', ho, ho', m1, m2, m3, m4, m5, _⟩
        · rw [m1, m2]; rfl
        · rw [m1, m2]
          simp only
          rw [bind_of_ok (rdHolder_eq m4), bind_of_ok (rdHolder_eq m3)]
          exact m5 p
  · unfold readKnown varDecl
    cases sys[v]? with
    | none => rfl
    | some decl =>
      simp only [ofOption_some, pure_bind']
      rw [bind_of_ok (rdSim_eq hs'), bind_of_ok (rdSim_eq hs)]
      rcases look decl.entity with ⟨n1, n2⟩ | ⟨pid, pid', p0, l1, l2, pp⟩
      · rw [n1, n2]; rfl
      · rw [l1, l2]
        simp only [ofOption_some, pure_bind']
        obtain ⟨po, po', q1, q2, _, _, _, _, _, _, _, q7⟩ := holder v l1 pp
        rw [bind_of_ok (rdPop_eq q2), bind_of_ok (rdPop_eq q1)]
        rcases q7 with ⟨m1, m2⟩ | ⟨hid, hid', ho, ho', m1, m2, m3, m4, _, m6⟩
        · rw [m1, m2]; rfl
        · rw [m1, m2]
          simp only
          rw [bind_of_ok (rdHolder_eq m4), bind_of_ok (rdHolder_eq m3)]
          exact m6
  · unfold readStructure
    rw [bind_of_ok (rdSim_eq hs'), bind_of_ok (rdSim_eq hs)]
    rcases look ent with ⟨n1, n2⟩ | ⟨pid, pid', p0, l1, l2, pp⟩
    · rw [n1, n2]; rfl
    · rw [l1, l2]
      simp only [ofOption_some, pure_bind']
      obtain ⟨po, po', q1, q2, q3, q4, q5, qr, qp, _, q6, _⟩ := holder 0 l1 pp
      rw [bind_of_ok (rdPop_eq q2), bind_of_ok (rdPop_eq q1)]
      simp only [pure_apply, PopObj.roles, PopObj.positions, q3, q4, q5, q6, qr, qp]
  · unfold roleCount
    rw [bind_of_ok (rdSim_eq hs'), bind_of_ok (rdSim_eq hs)]
    rcases look ent with ⟨n1, n2⟩ | ⟨pid, pid', p0, l1, l2, pp⟩
    · rw [n1, n2]; rfl
    · rw [l1, l2]
      simp only [ofOption_some, pure_bind']
      obtain ⟨po, po', q1, q2, q3, _, q5, qr, _, _, _, _⟩ := holder 0 l1 pp
      rw [bind_of_ok (rdPop_eq q2), bind_of_ok (rdPop_eq q1)]
      simp only [pure_apply, PopObj.roles, q3, q5, qr]
  · -- the persons of the clone go back to the clone, the persons of the original to the original
    unfold personsHaveRole
    rw [bind_of_ok (rdSim_eq hs'), bind_of_ok (rdSim_eq hs)]
    rcases look 0 with ⟨n1, _⟩ | ⟨pid, pid', p0, l1, l2, pp⟩
    · rw [hwf.listed so hs] at n1; cases n1
    · have e1 : pid = so.persons := by rw [hwf.listed so hs] at l1; cases l1; rfl
      have e2 : pid' = so'.persons := by
        obtain ⟨so2, persons', groups', trc, inv, a1, a2, _⟩ := sc.ex
        rw [hs'] at a2
        cases a2
        simp only [alGet, if_true] at l2
        cases l2
        rfl
      subst e1 e2
      obtain ⟨po, po', q1, q2, _, _, _, _, _, qs, _, _⟩ := holder 0 l1 pp
      rw [bind_of_ok (rdPop_eq q2), bind_of_ok (rdPop_eq q1), qs]
      have hback : po.sim = s := hwf.bound so po hs q1
      rw [hback, bind_of_ok (rdSim_eq hs'), bind_of_ok (rdSim_eq hs)]
      rcases look ent with ⟨n1, n2⟩ | ⟨gid, gid', g0, m1, m2, gp⟩
      · rw [n1, n2]; rfl
      · rw [m1, m2]
        simp only [ofOption_some, pure_bind']
        obtain ⟨go, go', r1, r2, _, _, r5, rr, _, _, _, _⟩ := holder 0 m1 gp
        rw [bind_of_ok (rdPop_eq r2), bind_of_ok (rdPop_eq r1)]
        simp only [pure_apply, PopObj.roles, r5, rr]

  · obtain ⟨so2, persons', groups', trc, inv, a1, a2, _⟩ := sc.ex
    unfold readConfig
    rw [bind_of_ok (rdSim_eq a2), bind_of_ok (rdSim_eq a1)]
    rfl

example : WellFormed exH exS := WellFormed.ofB (by decide +kernel)
example : (readValue exSys exC 1 exM1 exH').1 = .ok (some [5, 7, 9]) := by decide +kernel
-- person 1 holds the second top-level role, person 2 the third one: the clone sees them where they are
example : (roleCount exC 1 [2] exH').1 = .ok [1, 0] ∧ (roleCount exC 1 [3] exH').1 = .ok [0, 1]
    ∧ (personsHaveRole exC 1 [2] exH').1 = .ok [false, true, false] := by decide +kernel

/-- an Enum input present when the clone is taken (member indices 2 and 5), compared with the member 2 by a formula
calculated in the CLONE: the clone reads its copy of the store, and what it reads still compares as an `EnumArray` -/
example :
    let sys : Sys := [{ entity := 0, defPeriod := .month, dflt := 0, formula := none, isEnum := true },
                      vd 0 .month 0 (some (0, [⟨1, 0, .enumIs 2, .same⟩]))]
    let h0 := runSide sys 40 exS [.setInput 0 exM1 [2, 5]] (build { persons := 2, groups := [], memConfig := none } []).2
    let h1 := (cloneSim exS false false h0).2
    (step sys 40 exC (.calculate 1 exM1) h1).1 = .ok (.vec [1, 0])
    ∧ (readValue sys exC 0 exM1 h1).1 = .ok (some [2, 5]) := by decide +kernel

/-- an input given for a quarter to a monthly variable with `set_input_dispatch_by_period`: the original knows
February when it is cloned; the CLONE deletes its February and is given the quarter — its three months take the
value — while the original, given the same quarter, only fills January and March -/
example :
    let sys : Sys := [{ entity := 0, defPeriod := .month, dflt := 0, formula := none, dispatch := true }]
    let q1 : Period := ⟨.month, ⟨2018, 1, 1⟩, 3⟩
    let h0 := runSide sys 40 exS [.setInput 0 exM2 [5]] (build { persons := 1, groups := [], memConfig := none } []).2
    let h1 := (cloneSim exS false false h0).2
    let h2 := runOps sys 40 exS exC [(.clone, .deleteArrays 0 (some exM2)), (.clone, .setInput 0 q1 [9]),
                                    (.orig, .setInput 0 q1 [7])] h1
    (readValue sys exC 0 exM2 h2).1 = .ok (some [9]) ∧ (readValue sys exS 0 exM2 h2).1 = .ok (some [5])
    ∧ (readValue sys exS 0 exM1 h2).1 = .ok (some [7]) ∧ (readKnown sys exC 0 h2).1.toOption.map List.length = some 3 := by
  decide +kernel

/-- **Restricted to memory-backed simulations**: proved about `cloneSim`, the repaired `Holder.clone` /
`Simulation.clone` without the on-disk branch, which is the whole code path when no holder has a disk storage
(for the disk-backed case see `C13_disk_clone_separate`; `cloneSim` applied to a disk-backed heap would share
the storage objects: `C13_disk_shared_counterexample`, the former finding F-C13-disk).
Whatever is reachable from the clone, through any number of references, is an object of the clone's
region, whatever is reachable from the original is an object of the original's region: no object —
store, holder, population, tracer, set of invalidated entries — is reachable from both. -/
theorem C13_footprints_disjoint_partial (h : Heap) (s : Id) (tr dbg : Bool) (h' : Heap) (c : Id)
    (hwf : WellFormed h s) (hmem : MemoryBacked h s) (hc : cloneSim s tr dbg h = (.ok c, h')) (n m : Nat) :
    ∀ p ∈ reach h' n [c], ∀ q ∈ reach h' m [s], p ≠ q := by
  obtain ⟨hne, cs, cc⟩ := clone_regions hwf hmem hc
  intro p hp q hq hpq
  have h1 := reach_region cc n [c] (fun x hx => by simp only [List.mem_singleton] at hx; rw [hx]) p hp
  have h2 := reach_region cs m [s] (fun x hx => by simp only [List.mem_singleton] at hx; rw [hx]) q hq
  rw [hpq, h2] at h1
  exact hne h1

example : MemoryBacked exH exS := MemoryBacked.ofB (by decide +kernel)
example : (reach exH' 3 [exC]).eraseDups.length = 9 ∧ (reach exH' 3 [exS]).eraseDups.length = 9 := by decide +kernel

/-- **Restricted to memory-backed simulations** (same restriction and same reason as above; the full
statement is `C13_noninterference` of DESIGN Appendix D without `hmem`).
For EVERY interleaved sequence of calls (`set_input`, `delete_arrays`, `calculate`, `calculate_add`,
`trace = …`, `get_holder`) on the original and on the clone: what is observable from either simulation
at the end — every known (variable, period) with its vector, the entity structure, the trace flag and
recorded roots, what each part refers to — and what each of its calls returned, are exactly what they
are when the same simulation's own calls are run alone. -/
theorem C13_noninterference_partial (sys : Sys) (fuel : Nat) (h : Heap) (s : Id) (tr dbg : Bool) (h' : Heap) (c : Id)
    (hwf : WellFormed h s) (hmem : MemoryBacked h s) (hc : cloneSim s tr dbg h = (.ok c, h'))
    (ops : List (Side × Op)) :
    ((observe s (runOps sys fuel s c ops h')).1 = (observe s (runSide sys fuel s (ops.filterMap (onSide .orig)) h')).1
      ∧ resultsOps sys fuel s c .orig ops h' = resultsSide sys fuel s (ops.filterMap (onSide .orig)) h')
    ∧ ((observe c (runOps sys fuel s c ops h')).1 = (observe c (runSide sys fuel c (ops.filterMap (onSide .clone)) h')).1
      ∧ resultsOps sys fuel s c .clone ops h' = resultsSide sys fuel c (ops.filterMap (onSide .clone)) h') := by
  obtain ⟨hne, cs, cc⟩ := clone_regions hwf hmem hc
  have ho := run_side_agree sys fuel s c hne .orig ops h' h' cs cc rfl
  have hk := run_side_agree sys fuel s c hne .clone ops h' h' cs cc rfl
  exact ⟨⟨(observe_region (x := s) rfl ho.2.1 ho.1).symm, ho.2.2⟩,
    ⟨(observe_region (x := c) rfl hk.2.1 hk.1).symm, hk.2.2⟩⟩

/-- **Any operations, not only the listed calls** (same restriction to memory-backed simulations).  The
non-interference above uses one fact about a call: it is *local* to the region of the simulation it is made on
(`Loc`: from a heap whose region is closed it keeps the region closed, leaves every other region as it was,
opens no region, and its answer and its effect depend on that region alone — the frame rule).  So it holds for
EVERY interleaving of ARBITRARY local computations on the two sides, of any result type: compositions of calls
(`Loc.bind`), conditionals, loops over lists (`Loc.mapMH`), `try/finally`, calls that raise half-way, and any
future public method whose transcription only navigates references of its own simulation.  What each side
observes at the end, and what each of its computations answered, are what they are when the side runs alone.
`C13_noninterference_partial` is the instance `m = step sys fuel x op` (`step_loc`). -/
theorem C13_any_local_operations_noninterfere {α : Type} (h : Heap) (s : Id) (tr dbg : Bool) (h' : Heap) (c : Id)
    (hwf : WellFormed h s) (hmem : MemoryBacked h s) (hc : cloneSim s tr dbg h = (.ok c, h'))
    (ops : List (Side × HM α)) (hloc : ∀ e ∈ ops, Loc (sideId s c e.1).reg e.2 (fun _ => True)) :
    ((observe s (runAny ops h')).1 = (observe s (runAnySide (ops.filterMap (onSideAny .orig)) h')).1
      ∧ resultsAny .orig ops h' = resultsAnySide (ops.filterMap (onSideAny .orig)) h')
    ∧ ((observe c (runAny ops h')).1 = (observe c (runAnySide (ops.filterMap (onSideAny .clone)) h')).1
      ∧ resultsAny .clone ops h' = resultsAnySide (ops.filterMap (onSideAny .clone)) h')
    ∧ Closed s.reg (runAny ops h') ∧ Closed c.reg (runAny ops h') := by
  obtain ⟨hne, cs, cc⟩ := clone_regions hwf hmem hc
  have ho := run_any_agree s c hne .orig ops hloc h' h' cs cc rfl
  have hk := run_any_agree s c hne .clone ops hloc h' h' cs cc rfl
  exact ⟨⟨(observe_region (x := s) rfl ho.2.1 ho.1).symm, ho.2.2.2⟩,
    ⟨(observe_region (x := c) rfl hk.2.2.1 hk.1).symm, hk.2.2.2⟩, ho.2.1, ho.2.2.1⟩

/-- computations that are no single call of `Op`: "set an input, then invalidate its cache entry, then read it
back through the `persons` route" on the clone, "delete and recalculate" on the original — local, because they
are composed of local calls -/
example : ∀ e ∈ ([(Side.clone, (do
      let _ ← step exSys 40 exC (.setInput 0 exM2 [9, 9, 9])
      let _ ← step exSys 40 exC (.invalidate 0 exM2)
      step exSys 40 exC (.readVia .persons 0 0 exM2))),
    (Side.orig, (do
      let _ ← step exSys 40 exS (.deleteArrays 1 none)
      step exSys 40 exS (.calculate 1 exM1)))] : List (Side × HM Out)),
    Loc (sideId exS exC e.1).reg e.2 (fun _ => True) := by
  intro e he
  simp only [List.mem_cons, List.not_mem_nil, or_false] at he
  rcases he with rfl | rfl
  · exact Loc.bind (step_loc exSys 40 (x := exC) rfl _) fun _ _ =>
      Loc.bind (step_loc exSys 40 (x := exC) rfl _) fun _ _ => step_loc exSys 40 (x := exC) rfl _
  · exact Loc.bind (step_loc exSys 40 (x := exS) rfl _) fun _ _ => step_loc exSys 40 (x := exS) rfl _

/- The full statements (DESIGN Appendix D), kept visible. They are NOT theorems: both are false of the code
   and of the model for a simulation with a memory configuration (`C13_disk_shared_counterexample` below);
   what is missing is exactly the hypothesis `hmem : MemoryBacked h s`.

theorem C13_footprints_disjoint (h : Heap) (s : Id) (tr dbg : Bool) (h' : Heap) (c : Id)
    (hwf : WellFormed h s) (hc : cloneSim s tr dbg h = (.ok c, h')) (n m : Nat) :
    ∀ p ∈ reach h' n [c], ∀ q ∈ reach h' m [s], p ≠ q

theorem C13_noninterference (sys : Sys) (fuel : Nat) (h : Heap) (s : Id) (tr dbg : Bool) (h' : Heap) (c : Id)
    (hwf : WellFormed h s) (hc : cloneSim s tr dbg h = (.ok c, h')) (ops : List (Side × Op)) :
    (observe s (runOps sys fuel s c ops h')).1 = (observe s (runSide sys fuel s (ops.filterMap (onSide .orig)) h')).1
    ∧ (observe c (runOps sys fuel s c ops h')).1 = (observe c (runSide sys fuel c (ops.filterMap (onSide .clone)) h')).1
-/

-- role-dependent formulas calculated after the clone, on both sides (person 1 holds `r1`, person 2 `r2`): the clone
-- still sees the inputs 1, 2, 3, the original its new inputs 4, 4, 4
example : (resultsOps exSys 40 exS exC .clone exOps exH')[1]? = some (.ok (.vec [2, 10]))
    ∧ (resultsOps exSys 40 exS exC .orig exOps exH')[1]? = some (.ok (.vec [4, 10]))
    ∧ (resultsOps exSys 40 exS exC .orig exOps exH')[2]? = some (.ok (.vec [0, 1, 0])) := by decide +kernel

example : (observe exC (runOps exSys 40 exS exC exOps exH')).1
    ≠ (observe exS (runOps exSys 40 exS exC exOps exH')).1 := by decide +kernel

/-- **Disk-backed simulations, repaired code (`cloneSimR`, repair C13-disk).**  `Simulation.clone` gives the clone
no temporary directory (it makes its own on first use) and `Holder.clone` gives every cloned holder a new
`OnDiskStorage` in that directory with copies of the period files.  On the example (`exDiskH`: one person, one
input stored on disk): the clone lives in a closed region of its own — storage object, directory and files
included —, the original's region is closed too, nothing is reachable from both, the clone reads the value from
ITS copy of the file, and an input set on the clone for another month is not seen by the original.  Both regions
being closed and distinct, `C13_family_noninterference` / `C13_family_any_local_operations` apply to every
history that follows.  (That `cloneSimR` yields two closed regions for EVERY disk-backed simulation is carried by
the correspondence — the alias graph of the real objects at every `clone()` — not yet by a general theorem: the
general theorems above are about `cloneSim`, which `cloneSimR` equals on memory-backed simulations, an equality
the driver checks on every clone of every case.) -/
theorem C13_disk_clone_separate :
    WellFormed exDiskH exS
    ∧ (cloneSimR exS false false exDiskH).1 = .ok exC
    ∧ Closed exS.reg (cloneSimR exS false false exDiskH).2 ∧ Closed exC.reg (cloneSimR exS false false exDiskH).2
    ∧ (readValue exDiskSys exC 0 exM1 (cloneSimR exS false false exDiskH).2).1 = .ok (some [1])
    ∧ (readValue exDiskSys exS 0 exM2
        (runOps exDiskSys 40 exS exC [(.clone, .setInput 0 exM2 [2])] (cloneSimR exS false false exDiskH).2)).1 = .ok none
    ∧ (readValue exDiskSys exC 0 exM2
        (runOps exDiskSys 40 exS exC [(.clone, .setInput 0 exM2 [2])] (cloneSimR exS false false exDiskH).2)).1 = .ok (some [2])
    ∧ (∀ p ∈ reach (cloneSimR exS false false exDiskH).2 3 [exC],
        ∀ q ∈ reach (cloneSimR exS false false exDiskH).2 3 [exS], p ≠ q)
    -- on a memory-backed simulation the two definitions are the same function
    ∧ cloneSimR exS false false exH = cloneSim exS false false exH :=
  ⟨WellFormed.ofB (by decide +kernel), by decide +kernel, by decide +kernel, by decide +kernel, by decide +kernel,
    by decide +kernel, by decide +kernel, by decide +kernel, by decide +kernel⟩

/-- Why the repair was needed (finding F-C13-disk, fixed): `cloneSim` is `Holder.clone` WITHOUT the disk branch;
applied to a heap with a memory configuration (`exDiskH`: one person, one input stored
on disk) the cloned holder shares the original's `OnDiskStorage`; an input set on the *clone* for another
month is read from the *original*, which therefore differs from the original operated alone (no call at
all), and the storage object and the directory are reachable from both simulations. -/
theorem C13_disk_shared_counterexample :
    WellFormed exDiskH exS ∧ cloneSim exS false false exDiskH = (.ok exC, exDiskH')
    ∧ (readValue exDiskSys exS 0 exM2 (runOps exDiskSys 40 exS exC [(.clone, .setInput 0 exM2 [2])] exDiskH')).1
        = .ok (some [2])
    ∧ (readValue exDiskSys exS 0 exM2 (runSide exDiskSys 40 exS [] exDiskH')).1 = .ok none
    ∧ (observe exS (runOps exDiskSys 40 exS exC [(.clone, .setInput 0 exM2 [2])] exDiskH')).1
        ≠ (observe exS (runSide exDiskSys 40 exS
            ([(Side.clone, Op.setInput 0 exM2 [2])].filterMap (onSide .orig)) exDiskH')).1
    ∧ ∃ q, q ∈ reach exDiskH' 3 [exC] ∧ q ∈ reach exDiskH' 3 [exS] :=
  ⟨WellFormed.ofB (by decide +kernel), by decide +kernel, by decide +kernel, by decide +kernel, by decide +kernel,
    ⟨⟨0, 6⟩, by decide +kernel, by decide +kernel⟩⟩

/-- Any number of simulations that only reach their own objects (a simulation, its clones, clones of clones…, in
pairwise distinct closed regions): for EVERY sequence of calls on any of them, what is observable from each
one and what its calls returned are what they are when that simulation's own calls are run alone.  No
restriction here beyond closedness: a clone of a disk-backed simulation is *not* closed (it refers to the
original's storage objects), which is where the `_partial` theorems above stop. -/
theorem C13_family_noninterference (sys : Sys) (fuel : Nat) (h : Heap) (sims : List Id)
    (hd : sims.Pairwise (fun a b => a.reg ≠ b.reg)) (hc : ∀ y ∈ sims, Closed y.reg h)
    (calls : List (Nat × Op)) (j : Nat) (x : Id) (hj : sims[j]? = some x) :
    (observe x (runCalls sys fuel sims calls h)).1 = (observe x (runSide sys fuel x (calls.filterMap (callsOf j)) h)).1
    ∧ resultsCalls sys fuel sims j calls h = resultsSide sys fuel x (calls.filterMap (callsOf j)) h := by
  have f := family_agree sys fuel sims hd j x hj calls h h hc rfl
  exact ⟨(observe_region (x := x) rfl f.2.1 f.1).symm, f.2.2⟩

/-- … and for ARBITRARY computations, each local (`Loc`) to the region of the member it is addressed to: whatever
is done to the other members of the family — in any number, in any order, of any kind — a member observes, and
its own computations answer, what they do when it runs alone; every member's region stays closed. -/
theorem C13_family_any_local_operations (α : Type) (h : Heap) (sims : List Id)
    (hd : sims.Pairwise (fun a b => a.reg ≠ b.reg)) (hc : ∀ y ∈ sims, Closed y.reg h)
    (calls : List (Nat × HM α))
    (hloc : ∀ e ∈ calls, ∃ y, sims[e.1]? = some y ∧ Loc y.reg e.2 (fun _ => True))
    (j : Nat) (x : Id) (hj : sims[j]? = some x) :
    (observe x (runFamilyAny calls h)).1 = (observe x (runAnySide (calls.filterMap (ofRankAny j)) h)).1
    ∧ resultsFamilyAny j calls h = resultsAnySide (calls.filterMap (ofRankAny j)) h
    ∧ ∀ y ∈ sims, Closed y.reg (runFamilyAny calls h) := by
  have f := family_any_agree sims hd j x hj calls hloc h h hc rfl
  exact ⟨(observe_region (x := x) rfl (f.2.1 x (List.mem_of_getElem? hj)) f.1).symm, f.2.2, f.2.1⟩

/-- three simulations (an original, its clone, the clone's clone); a composed computation on the third one -/
example :
    let st := runEvs exSys 40 [.clone 0 false false, .clone 1 true false] (exH, [exS])
    st.2 = [⟨0, 0⟩, ⟨1, 0⟩, ⟨2, 0⟩] ∧
    ∀ e ∈ ([(2, (do let _ ← step exSys 40 ⟨2, 0⟩ (.invalidate 1 exM1); step exSys 40 ⟨2, 0⟩ (.calculate 1 exM1))),
            (0, step exSys 40 ⟨0, 0⟩ (.deleteArrays 1 none))] : List (Nat × HM Out)),
      ∃ y, st.2[e.1]? = some y ∧ Loc y.reg e.2 (fun _ => True) := by
  refine ⟨by decide +kernel, ?_⟩
  intro e he
  have hst : (runEvs exSys 40 [.clone 0 false false, .clone 1 true false] (exH, [exS])).2 = [⟨0, 0⟩, ⟨1, 0⟩, ⟨2, 0⟩] := by
    decide +kernel
  simp only [List.mem_cons, List.not_mem_nil, or_false] at he
  rcases he with rfl | rfl
  · exact ⟨⟨2, 0⟩, by rw [hst]; rfl,
      Loc.bind (step_loc exSys 40 (x := ⟨2, 0⟩) rfl _) fun _ _ => step_loc exSys 40 (x := ⟨2, 0⟩) rfl _⟩
  · exact ⟨⟨0, 0⟩, by rw [hst]; rfl, step_loc exSys 40 (x := ⟨0, 0⟩) rfl (.deleteArrays 1 none)⟩

/-- Chains.  `Separate h sims`: the live simulations are in pairwise distinct regions, each closed and *tidy*
(no memory configuration, no temporary directory, `persons` listed, the person population without `members`
and bound to its simulation, no holder with an on-disk storage).  Whatever the history from there — calls on
any live simulation (including calls that raise, spirals, purges, holders made on first use), clones of the
original, of a clone, of a clone's clone, at any moment — the live simulations remain such a family, the
earlier ones keep their rank, and each of them is `WellFormed` and `MemoryBacked`: every theorem above applies
to the next `clone()` of any of them, and `C13_family_noninterference` to whatever calls follow. -/
theorem C13_histories_keep_simulations_separate (sys : Sys) (fuel : Nat) (h : Heap) (sims : List Id)
    (hs : Separate h sims) (evs : List Ev) :
    Separate (runEvs sys fuel evs (h, sims)).1 (runEvs sys fuel evs (h, sims)).2
    ∧ (∃ more, (runEvs sys fuel evs (h, sims)).2 = sims ++ more)
    ∧ ∀ x ∈ (runEvs sys fuel evs (h, sims)).2,
        WellFormed (runEvs sys fuel evs (h, sims)).1 x ∧ MemoryBacked (runEvs sys fuel evs (h, sims)).1 x := by
  obtain ⟨sp, pre⟩ := history_separate sys fuel evs h sims hs
  exact ⟨sp, pre, fun x hx => Tidy.wellFormed (sp.ok x hx).2.1 (sp.ok x hx).2.2⟩

/-- the example's original is such a family on its own -/
example : Separate exH [exS] := Separate.single (by decide +kernel) (by decide +kernel) (by decide +kernel)

-- a clone, a clone of the clone, calls on all three (one raises), a clone of the clone's clone after them:
-- four simulations, the last one holding what its parent computed (a role-filtered sum) and nothing of the others
example :
    let st := runEvs exSys 40 [.clone 0 false false, .clone 1 true false, .call 2 (.setInput 0 exM1 [7, 7, 7]),
      .call 0 (.calculate 9 exM1), .call 2 (.calculate 4 exM1), .call 1 (.deleteArrays 0 none), .clone 2 false true]
      (exH, [exS])
    st.2.length = 4 ∧ (st.2.map (fun x => x.reg)) = [0, 1, 2, 3]
    ∧ (readValue exSys ⟨3, 0⟩ 4 exM1 st.1).1 = .ok (some [7, 10])
    ∧ (readValue exSys ⟨1, 0⟩ 0 exM1 st.1).1 = .ok none
    ∧ (readValue exSys ⟨0, 0⟩ 0 exM1 st.1).1 = .ok (some [1, 2, 3]) := by decide +kernel

end OFCore
