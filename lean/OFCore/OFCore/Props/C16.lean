import OFCore.Lemmas.SetInput
/-!
# C16 — inputs given on a longer period are conserved when spread over shorter ones

Model: `OFCore/SetInput.lean` (the repaired `set_input_dispatch_by_period`,
`set_input_divide_by_period`, `Holder.set_input`, `_set`, `calculate_add` on an input variable).
Vocabulary (`OFCore/Lemmas/SetInput.lean`): `ent v i` entity `i` of a vector, `entAt s q i` value of
entity `i` for the piece `q` (the default `0` when unknown — what `calculate` returns),
`knownSum s subs i = Σ_{q ∈ subs} entAt s q i`, `unknownCount s subs`, `WF n s` (every stored vector
has `n` entities), `SameStore`, `Tiles qs lo hi` (consecutive pieces covering the ordinals
`lo … hi`), `WalkDomain` / `Aligned` (the claim domain of the calendar part), `runDivide` /
`runDispatch` (several inputs in sequence).

The store / sum theorems are stated over an arbitrary list of pieces `subs` (no calendar fact is
needed, not even the absence of duplicates); `C16_walk_eq_subperiods` and
`C16_walk_eq_get_subperiods` are the calendar part and `C16_set_then_add` composes everything at the
level of `Holder.set_input` / `Simulation.calculate_add`.
Exact values (`VKind.num`, DESIGN section 4) unless said otherwise; `int`-typed variables truncate
each share (finding F-C16c), see `C16_divide_conserves_int_partial`.

Round 2 (last section): the week family (`C16_walk_week_family`, a day variable given weeks included);
the loops as the code writes them, with `holder._set` (`C16_loops_with_set`); conservation along EVERY
history of inputs (`C16_every_history_conserves`, `…_then_add`), situation documents in any key order
(`C16_document_conserves`; the builder's sort is in the model: `builderFeed`), the long input given twice,
inputs on nested periods after the long one, the exact refusals of `Holder.set_input`, and `calculate`
piece by piece (`C16_add_is_sum_of_calculate`).
-/
namespace OFCore

/-! ### concrete inputs used by the non-vacuity examples -/

/-- month `k` of 2018 -/
def exMonth (k : Int) : Period := ⟨.month, ⟨2018, k, 1⟩, 1⟩
def exMonths : List Period := [1, 2, 3, 4, 5, 6, 7, 8, 9, 10, 11, 12].map exMonth
def exYear : Period := ⟨.year, ⟨2018, 1, 1⟩, 1⟩
/-- rolling year `year:2018-03` -/
def exRolling : Period := ⟨.year, ⟨2018, 3, 1⟩, 1⟩
def exLeapFeb : Period := ⟨.month, ⟨2020, 2, 1⟩, 1⟩
/-- February pre-set to 5 (entity 0) and 8 (entity 1) -/
def exStore : Store := [(exMonth 2, [5, 8])]
def exVar (r : SRule) : VarSpec := { defUnit := .month, rule := r, kind := .num, count := 2 }

/-! ## the calendar part -/

/-- For a period of the day / month / year family whose start is not clipped by month arithmetic,
the walk `sub := (defUnit, start, 1); while sub.start < after: …; sub := sub.offset(1)` succeeds and
enumerates consecutive pieces of one definition period each, covering exactly the days of the
period (`Tiles`), `pieceCount` of them, in the closed form `pieces`. -/
theorem C16_walk_eq_subperiods (p : Period) (defU : DUnit) (h : WalkDomain p defU) :
    ∃ qs, walk defU p = .ok qs ∧ qs.length = pieceCount p defU ∧ qs ≠ [] ∧
      (∀ q, q ∈ qs → q.unit = defU ∧ q.size = 1) ∧ Tiles qs p.lo p.hi ∧ qs = pieces p defU :=
  walk_tiles p defU h

example : WalkDomain exRolling .month ∧ WalkDomain exLeapFeb .day ∧ WalkDomain ⟨.year, ⟨2019, 1, 1⟩, 3⟩ .year ∧
    pieceCount exRolling .month = 12 ∧ pieceCount exLeapFeb .day = 29 := by decide

/-- On aligned periods (months starting on the 1st, years on 1 January) the pieces visited by
`set_input` are exactly the list `Period.get_subperiods` gives to `calculate_add`. -/
theorem C16_walk_eq_get_subperiods (p : Period) (defU : DUnit) (h : WalkDomain p defU)
    (hal : Aligned p defU) : walk defU p = p.subperiods defU :=
  walk_eq_subperiods p defU h hal

example : WalkDomain exRolling .month ∧ Aligned exRolling .month ∧ walk .month exRolling =
    .ok ([3, 4, 5, 6, 7, 8, 9, 10, 11, 12].map exMonth ++
      [1, 2].map (fun k => (⟨.month, ⟨2019, k, 1⟩, 1⟩ : Period))) := by decide

/-! ## the dispatch rule -/

/-- every piece without earlier value receives the value itself -/
theorem C16_dispatch_fills (s : Store) (subs : List Period) (a : Vec) (q : Period) (hq : q ∈ subs)
    (hn : sget s q = none) : sget (dispatchOn s subs a) q = some a := by
  rw [sget_dispatchOn, hn]; simp [hq]

example : exMonth 3 ∈ exMonths ∧ sget exStore (exMonth 3) = none ∧
    sget (dispatchOn exStore exMonths [10, 10]) (exMonth 3) = some [10, 10] := by decide

/-- values set before are never overwritten, and nothing outside the pieces is written -/
theorem C16_dispatch_never_overwrites (s : Store) (subs : List Period) (a : Vec) (q : Period) :
    (∀ v, sget s q = some v → sget (dispatchOn s subs a) q = some v) ∧
    (q ∉ subs → sget (dispatchOn s subs a) q = sget s q) := by
  constructor
  · intro v hv; rw [sget_dispatchOn, hv]
  · intro hq; rw [sget_dispatchOn]; cases sget s q <;> simp [hq]

example : sget exStore (exMonth 2) = some [5, 8] ∧
    sget (dispatchOn exStore exMonths [10, 10]) (exMonth 2) = some [5, 8] := by decide

/-- `Holder.set_input` on a variable declared with the dispatch rule: it is accepted on the whole
claim domain and does the above on the pieces of the walk -/
theorem C16_set_input_dispatch (var : VarSpec) (s : Store) (p : Period) (v : Vec)
    (hr : var.rule = .dispatch) (hn : var.neutralized = false) :
    (∀ t, setInput var s p v = .ok t →
      ∃ subs, walk var.defUnit p = .ok subs ∧
        (∀ q, q ∈ subs → sget s q = none → sget t q = some (castVec var.kind v)) ∧
        (∀ q w, sget s q = some w → sget t q = some w) ∧
        (∀ q, q ∉ subs → sget t q = sget s q)) ∧
    (WalkDomain p var.defUnit → v.length = var.count → ∃ t, setInput var s p v = .ok t) := by
  constructor
  · intro t h
    obtain ⟨_, _, subs, hw, rfl⟩ := setInput_dispatch_inv hr hn h
    exact ⟨subs, hw, fun q hq hn => C16_dispatch_fills s subs _ q hq hn,
      fun q w hw' => (C16_dispatch_never_overwrites s subs _ q).1 w hw',
      fun q hq => (C16_dispatch_never_overwrites s subs _ q).2 hq⟩
  · intro hd hl
    obtain ⟨subs, hw, _, _, hu, _, _⟩ := walk_tiles p var.defUnit hd
    have he : var.defUnit ≠ .eternity := by
      obtain ⟨_, _, _, h | h | h⟩ := hd <;> rw [h.1] <;> decide
    have hp : p.unit ≠ .eternity := by
      obtain ⟨_, _, _, ⟨_, h | h | h⟩ | ⟨_, h | h, _⟩ | ⟨_, h, _⟩⟩ := hd <;> rw [h] <;> decide
    rw [setInput_of_walk hl he hp hn hw, hr]
    exact ⟨_, rfl⟩

example : ∃ t, setInput (exVar .dispatch) exStore exYear [10, 10] = .ok t ∧
    sget t (exMonth 3) = some [10, 10] ∧ sget t (exMonth 2) = some [5, 8] := ⟨_, rfl, by decide +kernel⟩

/-! ## the divide rule -/

/-- **conservation**: when the input is accepted, the values stored for the pieces sum, entity by
entity, to the amount that was set (whether or not some piece was already known) -/
theorem C16_divide_conserves (s t : Store) (subs : List Period) (a : Vec) (hwf : WF a.length s)
    (h : divideOn .num s subs a = .ok t) (i : Nat) : knownSum t subs i = ent a i := by
  obtain ⟨c, _, hf, hsum, _⟩ := divideOn_ok_spec hwf h
  rw [knownSum_filled hf, hsum i]

example : ∃ t, divideOn .num exStore exMonths [27, 30] = .ok t ∧ WF 2 exStore ∧
    0 < unknownCount exStore exMonths ∧ knownSum t exMonths 0 = 27 ∧ knownSum t exMonths 1 = 30 := by
  refine ⟨_, rfl, ?_, by decide +kernel, by decide +kernel, by decide +kernel⟩
  intro q v hv
  simp only [exStore, sget] at hv
  split at hv
  · injection hv with hv; rw [← hv]; rfl
  · cases hv

/-- pieces already set are left untouched; every other piece receives the same share
`(amount − Σ known) / #unknown`; nothing outside the pieces is written -/
theorem C16_divide_untouched_equal_share (s t : Store) (subs : List Period) (a : Vec)
    (hwf : WF a.length s) (h : divideOn .num s subs a = .ok t) :
    (∀ q v, sget s q = some v → sget t q = some v) ∧
    (∀ q, q ∈ subs → sget s q = none → ∃ c, sget t q = some c ∧ c.length = a.length ∧
      ∀ i, ent c i = (ent a i - knownSum s subs i) / (unknownCount s subs : Rat)) ∧
    (∀ q, q ∉ subs → sget t q = sget s q) := by
  obtain ⟨c, hcl, hf, _, hshare⟩ := divideOn_ok_spec hwf h
  refine ⟨?_, ?_, ?_⟩
  · intro q v hv; rw [hf q, hv]
  · intro q hq hn
    refine ⟨c, by rw [hf q, hn]; simp [hq], hcl, ?_⟩
    exact hshare ((unknownCount_pos_iff s subs).mpr ⟨q, hq, hn⟩)
  · intro q hq; rw [hf q]; cases sget s q <;> simp [hq]

example : ∃ t, divideOn .num exStore exMonths [27, 30] = .ok t ∧ sget t (exMonth 2) = some [5, 8] ∧
    sget t (exMonth 12) = some [2, 2] ∧ unknownCount exStore exMonths = 11 := ⟨_, rfl, by decide +kernel⟩

/-- an amount is refused exactly when every piece is already set and, for some entity, the amount
differs from their total (any value type); in particular an amount equal to the total is accepted,
and nothing is ever refused while a piece is unknown -/
theorem C16_divide_inconsistent_err (k : VKind) (s : Store) (subs : List Period) (a : Vec)
    (hwf : WF a.length s) :
    ((∃ e, divideOn k s subs a = .error e) ↔
      unknownCount s subs = 0 ∧ ∃ i, i < a.length ∧ ent a i ≠ knownSum s subs i) ∧
    (unknownCount s subs = 0 → (∀ i, i < a.length → ent a i = knownSum s subs i) →
      divideOn k s subs a = .ok s) ∧
    (0 < unknownCount s subs → ∃ t, divideOn k s subs a = .ok t) := by
  refine ⟨divideOn_error_iff k hwf, ?_, ?_⟩
  · intro hu hall
    cases hd : divideOn k s subs a with
    | error e =>
      obtain ⟨_, i, hi, hne⟩ := (divideOn_error_iff k hwf).mp ⟨e, hd⟩
      exact absurd (hall i hi) hne
    | ok t => rw [divideOn_all_known hwf hu hd]
  · intro hu
    cases hd : divideOn k s subs a with
    | error e =>
      obtain ⟨h0, _⟩ := (divideOn_error_iff k hwf).mp ⟨e, hd⟩
      omega
    | ok t => exact ⟨t, rfl⟩

example : ∃ t, divideOn .num [] exMonths [12, 24] = .ok t ∧ unknownCount t exMonths = 0 ∧
    (∃ e, divideOn .num t exMonths [13, 24] = .error e) ∧ divideOn .num t exMonths [12, 24] = .ok t :=
  ⟨_, rfl, by decide +kernel, ⟨"inconsistent", by decide +kernel⟩, by decide +kernel⟩

/-- `Holder.set_input` on a variable declared with the divide rule, exact values: accepted on the
claim domain unless everything is known and the total differs; conservation, untouched pieces,
equal share on the pieces of the walk -/
theorem C16_set_input_divide (var : VarSpec) (s t : Store) (p : Period) (v : Vec)
    (hr : var.rule = .divide) (hk : var.kind = .num) (hn : var.neutralized = false)
    (hwf : WF var.count s) (h : setInput var s p v = .ok t) :
    ∃ subs, walk var.defUnit p = .ok subs ∧ v.length = var.count ∧ WF var.count t ∧
      (∀ i, knownSum t subs i = ent v i) ∧
      (∀ q w, sget s q = some w → sget t q = some w) ∧
      (∀ q, q ∈ subs → sget s q = none → ∃ c, sget t q = some c ∧
        ∀ i, ent c i = (ent v i - knownSum s subs i) / (unknownCount s subs : Rat)) ∧
      (∀ q, q ∉ subs → sget t q = sget s q) := by
  obtain ⟨hl, _, subs, hw, hd⟩ := setInput_divide_inv hr hn h
  rw [hk] at hd
  simp only [castVec] at hd
  have hwf' : WF v.length s := hl ▸ hwf
  obtain ⟨h1, h2, h3⟩ := C16_divide_untouched_equal_share s t subs v hwf' hd
  refine ⟨subs, hw, hl, divideOn_wf hwf hl hd, C16_divide_conserves s t subs v hwf' hd, h1, ?_, h3⟩
  intro q hq hn
  obtain ⟨c, hc, _, hs⟩ := h2 q hq hn
  exact ⟨c, hc, hs⟩

example : ∃ t, setInput (exVar .divide) exStore exYear [27, 30] = .ok t ∧
    sget t (exMonth 7) = some [2, 2] := ⟨_, ok_of_isOk (by decide +kernel), by decide +kernel⟩

/-- **set, then sum**: over the same pieces `calculate_add` returns the amount that was set, vector
for vector, and leaves the store as it is -/
theorem C16_add_returns_amount (s t : Store) (subs : List Period) (a : Vec) (hwf : WF a.length s)
    (h : divideOn .num s subs a = .ok t) : sumOver a.length t subs = (a, t) := by
  obtain ⟨c, hcl, hf, _, _⟩ := divideOn_ok_spec hwf h
  have hwt : WF a.length t := filled_wf hf hwf hcl
  obtain ⟨h1, h2, h3⟩ := sumOver_spec a.length t hwt subs
  have hstore : (sumOver a.length t subs).2 = t := by
    rw [h1]; exact dispatchOn_all_known t subs _ (fun q hq => filled_known hf q hq)
  have hval : (sumOver a.length t subs).1 = a :=
    vec_ext h2 (fun i _ => by rw [h3 i]; exact C16_divide_conserves s t subs a hwf h i)
  exact Prod.ext hval hstore

example : ∃ t, divideOn .num exStore exMonths [27, 30] = .ok t ∧
    sumOver 2 t exMonths = ([27, 30], t) := ⟨_, rfl, by decide +kernel⟩

/-- the same at the level of the public API, on aligned periods: after an accepted
`set_input(P, v)` on a divide variable, `calculate_add(P)` returns `v` and changes nothing -/
theorem C16_set_then_add (var : VarSpec) (s t : Store) (p : Period) (v : Vec)
    (hr : var.rule = .divide) (hk : var.kind = .num) (hn : var.neutralized = false)
    (hwf : WF var.count s) (hd : WalkDomain p var.defUnit) (hal : Aligned p var.defUnit)
    (h : setInput var s p v = .ok t) : calcAdd var t p = .ok (some v, t) := by
  obtain ⟨hl, he, subs, hw, hdiv⟩ := setInput_divide_inv hr hn h
  rw [hk] at hdiv
  simp only [castVec] at hdiv
  obtain ⟨qs, hw', _, hne, _, _, _⟩ := walk_tiles p var.defUnit hd
  have hsub : p.subperiods var.defUnit = .ok subs := by rw [← walk_eq_subperiods p var.defUnit hd hal, hw]
  have hsubs_ne : subs.isEmpty = false := by
    rw [hw] at hw'; injection hw' with e; subst e
    cases subs with
    | nil => exact absurd rfl hne
    | cons _ _ => rfl
  have hweight : ¬ (unitWeight var.defUnit > unitWeight p.unit) := by
    obtain ⟨_, _, _, ⟨h1, h2 | h2 | h2⟩ | ⟨h1, h2 | h2, _⟩ | ⟨h1, h2, _⟩⟩ := hd <;> rw [h1, h2] <;> decide
  have hpu : ¬ (p.unit = .eternity) := by
    obtain ⟨_, _, _, ⟨_, h2 | h2 | h2⟩ | ⟨_, h2 | h2, _⟩ | ⟨_, h2, _⟩⟩ := hd <;> rw [h2] <;> decide
  have hsum := C16_add_returns_amount s t subs v (hl ▸ hwf) hdiv
  rw [hl] at hsum
  simp only [calcAdd, if_neg hweight, if_neg he, if_neg hpu, hsub, bind, Except.bind, hsubs_ne, hsum, hn,
    Bool.false_eq_true, if_false]

example : ∃ t, setInput (exVar .divide) exStore exRolling [27, 30] = .ok t ∧
    WalkDomain exRolling .month ∧ Aligned exRolling .month ∧
    calcAdd (exVar .divide) t exRolling = .ok (some [27, 30], t) :=
  ⟨_, ok_of_isOk (by decide +kernel), by decide +kernel, by decide +kernel, by decide +kernel⟩

/-- Restricted to `int`-typed variables whose share is a whole number. Full statement (`int`
variables conserve every amount) is FALSE of the code and of the model: each share is truncated on
storage (finding F-C16c, `divide on int-typed variable loses the remainder`, see the example below:
100 over the 12 months of 2018 is stored as 12 × 8 = 96). What is missing is a repair of the code
(distributing the remainder), not a proof. -/
theorem C16_divide_conserves_int_partial (s t : Store) (subs : List Period) (a : Vec)
    (hwf : WF a.length s)
    (hexact : castVec .int (vdivn (tally s subs a).1 (tally s subs a).2) = vdivn (tally s subs a).1 (tally s subs a).2)
    (h : divideOn .int s subs a = .ok t) (i : Nat) : knownSum t subs i = ent a i := by
  have e : divideOn .int s subs a = divideOn .num s subs a := by
    unfold divideOn
    simp only [hexact]
    rfl
  rw [e] at h
  exact C16_divide_conserves s t subs a hwf h i

example : ∃ t, divideOn .int [] exMonths [96] = .ok t ∧ knownSum t exMonths 0 = 96 ∧
    castVec .int (vdivn (tally [] exMonths [96]).1 (tally [] exMonths [96]).2) = vdivn (tally [] exMonths [96]).1 (tally [] exMonths [96]).2 :=
  ⟨_, rfl, by decide +kernel, by decide +kernel⟩

/-- F-C16c in the model: 100 over 12 months sums to 96 on an `int` variable -/
example : ∃ t, divideOn .int [] exMonths [100] = .ok t ∧ sumOver 1 t exMonths = ([96], t) :=
  ⟨_, rfl, by decide +kernel⟩

/-! ## several inputs -/

/-- the store stays well formed along any history of `set_input` calls (all rules, all value types) -/
theorem C16_store_wellformed (var : VarSpec) (s t : Store) (p : Period) (v : Vec) (hwf : WF var.count s)
    (h : setInput var s p v = .ok t) : WF var.count t :=
  setInput_wf hwf h

example : ∃ t, setInput (exVar .divide) exStore exYear [27, 30] = .ok t ∧ WF 2 t := by
  have h : ∃ t, setInput (exVar .divide) exStore exYear [27, 30] = .ok t := ⟨_, ok_of_isOk (by decide +kernel)⟩
  obtain ⟨t, ht⟩ := h
  refine ⟨t, ht, C16_store_wellformed (exVar .divide) exStore t exYear _ ?_ ht⟩
  intro q v hv
  simp only [exStore, sget] at hv
  split at hv
  · injection hv with hv; rw [← hv]; rfl
  · cases hv

/-- once an amount has been accepted for a long period, no later divide input (on any pieces, in
any order, accepted or not) changes the values of its pieces: the sum over the period stays the
amount -/
theorem C16_amount_persists (k : VKind) (s t : Store) (calls : List (List Period × Vec))
    (h : runDivide k s calls = .ok t) (q : Period) (v : Vec) (hq : sget s q = some v) :
    sget t q = some v := by
  induction calls generalizing s with
  | nil => simp only [runDivide] at h; injection h with h; subst h; exact hq
  | cons x xs ih =>
    obtain ⟨l, a⟩ := x
    simp only [runDivide] at h
    cases hd : divideOn k s l a with
    | error e => rw [hd] at h; cases h
    | ok s' =>
      rw [hd] at h
      refine ih s' h ?_
      unfold divideOn at hd
      simp only at hd
      split at hd
      · injection hd with hd; subst hd; rw [sget_dispatchOn, hq]
      · split at hd
        · injection hd with hd; subst hd; exact hq
        · cases hd

example : ∃ t, runDivide .num exStore [(exMonths, [27, 30]), ([exMonth 1, exMonth 2, exMonth 3], [9, 12])] = .ok t ∧
    sget t (exMonth 2) = some [5, 8] := ⟨_, ok_of_isOk (by decide +kernel), by decide +kernel⟩

/-- hence after an accepted long input the sum over its pieces stays the amount whatever divide
inputs follow (sub-periods, overlapping or enclosing periods), entity by entity -/
theorem C16_sum_persists (s t t' : Store) (subs : List Period) (a : Vec) (hwf : WF a.length s)
    (h : divideOn .num s subs a = .ok t) (calls : List (List Period × Vec))
    (hc : runDivide .num t calls = .ok t') (i : Nat) : knownSum t' subs i = ent a i := by
  rw [← C16_divide_conserves s t subs a hwf h i]
  obtain ⟨c, _, hf, _, _⟩ := divideOn_ok_spec hwf h
  apply knownSum_congr
  intro q hq
  cases hq' : sget t q with
  | none => exact absurd hq' (filled_known hf q hq)
  | some v => exact C16_amount_persists .num t t' calls hc q v hq'

example : ∃ t, runDivide .num exStore [(exMonths, [27, 30]),
      ([7, 8, 9, 10, 11, 12].map exMonth ++ [1, 2, 3, 4, 5, 6].map (fun k => (⟨.month, ⟨2019, k, 1⟩, 1⟩ : Period)), [48, 60])] = .ok t ∧
    knownSum t exMonths 0 = 27 ∧ knownSum t exMonths 1 = 30 :=
  ⟨_, ok_of_isOk (by decide +kernel), by decide +kernel, by decide +kernel⟩

/-- **order, divide rule.** A long input followed by inputs on pieces inside it: if that order is
accepted, the later inputs changed nothing, and giving the inner inputs *first* (shortest first)
and the long one last is accepted as well and yields the same store. -/
theorem C16_order_long_last (n : Nat) (s s1 s2 : Store) (subs : List Period) (a : Vec)
    (calls : List (List Period × Vec)) (hwf : WF n s) (ha : a.length = n)
    (hc : ∀ lx, lx ∈ calls → (∀ q, q ∈ lx.1 → q ∈ subs) ∧ lx.2.length = n)
    (h1 : divideOn .num s subs a = .ok s1) (h2 : runDivide .num s1 calls = .ok s2) :
    s2 = s1 ∧ ∃ s3 s4, runDivide .num s calls = .ok s3 ∧ divideOn .num s3 subs a = .ok s4 ∧
      SameStore s4 s1 := by
  subst ha
  obtain ⟨c, hcl, hf, hsum, _⟩ := divideOn_ok_spec hwf h1
  have hw1 : WF a.length s1 := filled_wf hf hwf hcl
  obtain ⟨e, s3, hr, hm, hw3⟩ := runDivide_after_long hcl hf hw1 calls hc s2 h2 s hwf (mid_refl s subs c)
  obtain ⟨s4, hd, hsame⟩ := mid_final hw3 hcl hf hm hsum
  exact ⟨e, s3, s4, hr, hd, hsame⟩

example : ∃ s1 s4, runDivide .num exStore [(exMonths, [27, 30]), ([exMonth 1, exMonth 2, exMonth 3], [9, 12]), ([exMonth 7], [2, 2])] = .ok s1 ∧
    runDivide .num exStore [([exMonth 1, exMonth 2, exMonth 3], [9, 12]), ([exMonth 7], [2, 2]), (exMonths, [27, 30])] = .ok s4 ∧
    (exMonths.map (sget s4)) = (exMonths.map (sget s1)) :=
  ⟨_, _, ok_of_isOk (by decide +kernel), ok_of_isOk (by decide +kernel), by decide +kernel⟩

/-- the same for any position of the long input: every accepted history
`pre ++ [long] ++ post` whose later inputs lie inside the long period gives the same store as
`pre ++ post ++ [long]` (which is accepted too) -/
theorem C16_order_any_position (n : Nat) (s t : Store) (subs : List Period) (a : Vec)
    (pre post : List (List Period × Vec)) (hwf : WF n s) (ha : a.length = n)
    (hpre : ∀ lx, lx ∈ pre → lx.2.length = n)
    (hpost : ∀ lx, lx ∈ post → (∀ q, q ∈ lx.1 → q ∈ subs) ∧ lx.2.length = n)
    (h : runDivide .num s (pre ++ (subs, a) :: post) = .ok t) :
    ∃ t', runDivide .num s (pre ++ post ++ [(subs, a)]) = .ok t' ∧ SameStore t' t := by
  rw [runDivide_append] at h
  cases hp : runDivide .num s pre with
  | error e => rw [hp] at h; cases h
  | ok s0 =>
    rw [hp] at h
    simp only [runDivide] at h
    cases hd : divideOn .num s0 subs a with
    | error e => rw [hd] at h; cases h
    | ok s1 =>
      rw [hd] at h
      have hw0 : WF n s0 := runDivide_wf hwf hpre hp
      obtain ⟨e, s3, s4, hr, hd4, hsame⟩ := C16_order_long_last n s0 s1 t subs a post hw0 ha hpost hd h
      refine ⟨s4, ?_, by rw [e]; exact hsame⟩
      rw [List.append_assoc, runDivide_append, hp]
      simp only
      rw [runDivide_append, hr]
      simp only [runDivide, hd4]

example : ∃ t t', runDivide .num [] [([exMonth 2], [5, 8]), (exMonths, [27, 30]), ([exMonth 7], [2, 2])] = .ok t ∧
    runDivide .num [] [([exMonth 2], [5, 8]), ([exMonth 7], [2, 2]), (exMonths, [27, 30])] = .ok t' ∧
    exMonths.map (sget t') = exMonths.map (sget t) :=
  ⟨_, _, ok_of_isOk (by decide +kernel), ok_of_isOk (by decide +kernel), by decide +kernel⟩

/-- **order, divide rule, general.** For a family of inputs whose piece lists are nested or disjoint
(`Laminar`: every input with fewer pieces lies inside or apart from every input with more — quarters
in years, months in quarters, …), ANY accepted order gives the same store as the shortest-first
order (stable insertion sort by number of pieces), and that order is accepted too. -/
theorem C16_order_shortest_first (n : Nat) (calls : List (List Period × Vec))
    (hlen : ∀ d, d ∈ calls → d.2.length = n) (hlam : Laminar calls)
    (s t : Store) (hwf : WF n s) (h : runDivide .num s calls = .ok t) :
    ∃ t', runDivide .num s (shortestFirst calls) = .ok t' ∧ SameStore t' t :=
  runDivide_shortestFirst calls hlen hlam s t hwf h

example :
    let calls : List (List Period × Vec) :=
      [(exMonths, [27, 30]), ([exMonth 7], [2, 2]), ([exMonth 1, exMonth 2, exMonth 3], [9, 12])]
    Laminar calls ∧ isOk (runDivide .num exStore calls) = true ∧
    shortestFirst calls = [([exMonth 7], [2, 2]), ([exMonth 1, exMonth 2, exMonth 3], [9, 12]), (exMonths, [27, 30])] := by
  decide +kernel

/-- hence two accepted orders of the same nested-or-disjoint inputs that have the same shortest-first
arrangement (always the case when inputs with equally many pieces keep their relative order) give
the same store -/
theorem C16_order_independent (n : Nat) (calls1 calls2 : List (List Period × Vec))
    (hlen : ∀ d, d ∈ calls1 → d.2.length = n) (hlam : Laminar calls1)
    (hsame : shortestFirst calls1 = shortestFirst calls2)
    (s t1 t2 : Store) (hwf : WF n s) (h1 : runDivide .num s calls1 = .ok t1)
    (h2 : runDivide .num s calls2 = .ok t2) : SameStore t1 t2 := by
  have hmem : ∀ d, d ∈ calls2 ↔ d ∈ calls1 := by
    intro d; rw [← mem_shortestFirst d calls2, ← hsame, mem_shortestFirst]
  obtain ⟨u1, hu1, hs1⟩ := runDivide_shortestFirst calls1 hlen hlam s t1 hwf h1
  obtain ⟨u2, hu2, hs2⟩ := runDivide_shortestFirst calls2 (fun d hd => hlen d ((hmem d).mp hd))
    (fun c hc d hd => hlam c ((hmem c).mp hc) d ((hmem d).mp hd)) s t2 hwf h2
  rw [hsame, hu2] at hu1
  injection hu1 with e
  subst e
  exact sameStore_trans (sameStore_symm hs1) hs2

example :
    let c1 : List (List Period × Vec) :=
      [(exMonths, [27, 30]), ([exMonth 7], [2, 2]), ([exMonth 1, exMonth 2, exMonth 3], [9, 12])]
    let c2 : List (List Period × Vec) :=
      [([exMonth 1, exMonth 2, exMonth 3], [9, 12]), (exMonths, [27, 30]), ([exMonth 7], [2, 2])]
    shortestFirst c1 = shortestFirst c2 ∧ isOk (runDivide .num exStore c1) = true ∧
      isOk (runDivide .num exStore c2) = true := by
  decide +kernel

/-- Unrestricted order independence ("any two accepted orders of the same inputs give the same
store") is FALSE as soon as two long periods overlap without being nested — of the code as well:
calendar year 2018 = 120 and rolling year 2018-07 … 2019-06 = 240 are accepted in both orders and
leave January 2018 at 10 in one order and at 0 in the other. The property statement does not claim
it; what it claims (conservation, untouched, equal share, refusal) holds in every order by the
theorems above. -/
example :
    let y18 := [1, 2, 3, 4, 5, 6, 7, 8, 9, 10, 11, 12].map exMonth
    let roll := [7, 8, 9, 10, 11, 12].map exMonth ++ [1, 2, 3, 4, 5, 6].map (fun k => (⟨.month, ⟨2019, k, 1⟩, 1⟩ : Period))
    ∃ t t', runDivide .num [] [(y18, [120]), (roll, [240])] = .ok t ∧
      runDivide .num [] [(roll, [240]), (y18, [120])] = .ok t' ∧
      sget t (exMonth 1) = some [10] ∧ sget t' (exMonth 1) = some [0] :=
  ⟨_, _, ok_of_isOk (by decide +kernel), ok_of_isOk (by decide +kernel), by decide +kernel, by decide +kernel⟩

/-- **order, dispatch rule**: after several dispatch inputs a piece holds its earlier value if it had
one, else the value of the *first* input that covers it; so two orders give the same store exactly
when they agree on which input covers each unknown piece first -/
theorem C16_dispatch_order_first_wins (s : Store) (calls : List (List Period × Vec)) (q : Period) :
    sget (runDispatch s calls) q =
      match sget s q with
      | some v => some v
      | none => (calls.find? (fun lx => decide (q ∈ lx.1))).map (·.2) :=
  sget_runDispatch s calls q

example : sget (runDispatch exStore [([exMonth 1, exMonth 2, exMonth 3], [1, 1]), (exMonths, [10, 10])]) (exMonth 3) = some [1, 1] ∧
    sget (runDispatch exStore [(exMonths, [10, 10]), ([exMonth 1, exMonth 2, exMonth 3], [1, 1])]) (exMonth 3) = some [10, 10] ∧
    sget (runDispatch exStore [(exMonths, [10, 10]), ([exMonth 1, exMonth 2, exMonth 3], [1, 1])]) (exMonth 2) = some [5, 8] := by
  decide +kernel

/-! ## routing of `Holder.set_input` -/

/-- the refusals of the routing: an `ETERNITY` input on a dated variable; a vector of the wrong
length; a rule on an eternal variable; a variable without rule given anything else than one
definition period -/
theorem C16_set_input_refusals (var : VarSpec) (s : Store) (p : Period) (v : Vec)
    (hn : var.neutralized = false) :
    (p.unit = .eternity → var.defUnit ≠ .eternity → ∃ e, setInput var s p v = .error e) ∧
    (v.length ≠ var.count → ∃ e, setInput var s p v = .error e) ∧
    (var.defUnit = .eternity → var.rule ≠ .absent → ∃ e, setInput var s p v = .error e) ∧
    (var.rule = .absent → var.defUnit ≠ .eternity → (p.unit ≠ var.defUnit ∨ 1 < p.size) →
      ∃ e, setInput var s p v = .error e) ∧
    (var.rule = .absent → var.defUnit ≠ .eternity → p.unit = var.defUnit → p.size ≤ 1 →
      v.length = var.count → setInput var s p v = .ok (sput s p (castVec var.kind v))) := by
  refine ⟨?_, ?_, ?_, ?_, ?_⟩
  · intro h1 h2; exact ⟨"mismatch", by simp [setInput, h1, h2]⟩
  · intro hl
    unfold setInput
    simp only [hn, Bool.false_eq_true, if_false]
    split
    · exact ⟨_, rfl⟩
    · cases var.rule <;> simp [dispatchByPeriod, divideByPeriod, holderSet, toArray, hl, bind, Except.bind]
  · intro he hr
    unfold setInput
    simp only [hn, Bool.false_eq_true, if_false]
    split
    · exact ⟨_, rfl⟩
    · cases hrule : var.rule with
      | absent => exact absurd hrule hr
      | dispatch =>
        simp only [dispatchByPeriod, toArray, he]
        by_cases hl : v.length ≠ var.count <;> simp [hl, bind, Except.bind]
      | divide =>
        simp only [divideByPeriod, toArray, he]
        by_cases hl : v.length ≠ var.count <;> simp [hl, bind, Except.bind]
  · intro hr he hp
    unfold setInput
    simp only [hn, Bool.false_eq_true, if_false]
    split
    · exact ⟨_, rfl⟩
    · rw [hr]
      simp only [holderSet, toArray]
      by_cases hl : v.length ≠ var.count
      · simp [hl, bind, Except.bind]
      · have hcond : var.defUnit ≠ p.unit ∨ p.size > 1 := by
          rcases hp with h | h
          · left; exact fun e => h e.symm
          · right; omega
        simp [hl, bind, Except.bind, he, hcond]
  · intro hr he hp hs hl
    unfold setInput
    simp only [hn, Bool.false_eq_true, if_false]
    have h1 : ¬ (p.unit = .eternity ∧ var.defUnit ≠ .eternity) := by
      intro ⟨h, _⟩; rw [hp] at h; exact he h
    rw [if_neg h1, hr]
    have hcond : ¬ (var.defUnit ≠ p.unit ∨ p.size > 1) := by
      intro h; rcases h with h | h
      · exact h hp.symm
      · omega
    simp [holderSet, toArray, hl, bind, Except.bind, he, hcond]

example : (∃ e, setInput { defUnit := .month, rule := .absent, kind := .num, count := 1 } [] exYear [12] = .error e) ∧
    setInput { defUnit := .month, rule := .absent, kind := .num, count := 1 } [] (exMonth 4) [12] = .ok [(exMonth 4, [12])] ∧
    (∃ e, setInput (exVar .divide) [] Period.eternity [1, 2] = .error e) :=
  ⟨⟨"mismatch", by decide +kernel⟩, by decide +kernel, ⟨"mismatch", by decide +kernel⟩⟩

/-- the refusals of `calculate_add`: a period of a smaller unit than the definition period, an
eternal variable, an `ETERNITY` period (fix F-C03a; it used to return the integer 0) -/
theorem C16_add_refusals (var : VarSpec) (s : Store) (p : Period) :
    (unitWeight var.defUnit > unitWeight p.unit ∨ var.defUnit = .eternity ∨ p.unit = .eternity) →
      ∃ e, calcAdd var s p = .error e := by
  intro h
  unfold calcAdd
  split
  · exact ⟨_, rfl⟩
  · split
    · exact ⟨_, rfl⟩
    · split
      · exact ⟨_, rfl⟩
      · rename_i h1 h2 h3
        rcases h with h | h | h
        · exact absurd h h1
        · exact absurd h h2
        · exact absurd h h3

example : (∃ e, calcAdd { defUnit := .year, rule := .absent, kind := .num, count := 1 } [] Period.eternity = .error e) ∧
    (∃ e, calcAdd (exVar .divide) [] ⟨.day, ⟨2018, 1, 1⟩, 40⟩ = .error e) :=
  ⟨⟨"eternal-period", by decide +kernel⟩, ⟨"value", by decide +kernel⟩⟩

/-- a neutralised variable: every input is ignored (the store is returned as it is), `get_array`
answers the default and `calculate_add` the default summed, whatever was stored; so the
conservation statement is about variables that are not neutralised -/
theorem C16_neutralized_ignores (var : VarSpec) (hn : var.neutralized = true) (s : Store) (p : Period) :
    (∀ v, ¬ (p.unit = .eternity ∧ var.defUnit ≠ .eternity) → setInput var s p v = .ok s) ∧
    getArray var s p = some (vzero var.count) ∧
    (∀ r t, calcAdd var s p = .ok (some r, t) → r = vzero var.count ∧ t = s) := by
  refine ⟨?_, ?_, ?_⟩
  · intro v hne; unfold setInput; rw [if_neg hne]; simp [hn]
  · simp [getArray, hn]
  · intro r t h
    unfold calcAdd at h
    split at h
    · cases h
    · split at h
      · cases h
      · split at h
        · cases h
        · cases hs : p.subperiods var.defUnit with
          | error e => simp [hs, bind, Except.bind] at h
          | ok subs =>
            simp only [hs, bind, Except.bind, hn, if_true] at h
            split at h
            · cases h
            · injection h with h
              injection h with h1 h2
              injection h1 with h1
              exact ⟨h1.symm, h2.symm⟩

example : setInput { exVar .divide with neutralized := true } exStore exYear [27, 30] = .ok exStore ∧
    calcAdd { exVar .divide with neutralized := true } exStore exYear = .ok (some [0, 0], exStore) := by
  decide +kernel

/-- `Simulation.set_input` and a variable's `end`: an input whose period starts after the end is
ignored, every other input (including one that starts before the end and runs past it) is routed
to `Holder.set_input` unchanged — so conservation holds for every period that starts on or before
the end, and is not claimed for periods that start after it -/
theorem C16_end_routing (var : VarSpec) (s : Store) (p : Period) (v : Vec) :
    (var.endDate = none → simSetInput var s p v = setInput var s p v) ∧
    (∀ e, var.endDate = some e → dateOk p.start = true → ¬ e.lt p.start →
      simSetInput var s p v = setInput var s p v) ∧
    (∀ e, var.endDate = some e → dateOk p.start = true → e.lt p.start → simSetInput var s p v = .ok s) := by
  refine ⟨?_, ?_, ?_⟩
  · intro h; simp [simSetInput, h]
  · intro e h hd hlt; simp [simSetInput, h, hd, hlt]
  · intro e h hd hlt; simp [simSetInput, h, hd, hlt]

example : simSetInput { exVar .divide with endDate := some ⟨2018, 6, 30⟩ } [] exYear [24, 36] =
      setInput (exVar .divide) [] exYear [24, 36] ∧
    simSetInput { exVar .divide with endDate := some ⟨2017, 12, 31⟩ } exStore exYear [24, 36] = .ok exStore ∧
    isOk (setInput (exVar .divide) [] exYear [24, 36]) = true := by
  decide +kernel

/-! ## round 2 — the week family, whole histories, documents, second calls, `calculate` by hand -/

/-- week `k` (Monday 31 December 2018 + 7k days) -/
def exWeeks2 : Period := ⟨.week, ⟨2018, 12, 31⟩, 2⟩
/-- a week that starts on a Wednesday -/
def exWedWeek : Period := ⟨.week, ⟨2019, 1, 2⟩, 1⟩
def exDayVar : VarSpec := { defUnit := .day, rule := .divide, kind := .num, count := 1 }

/-! ### the calendar part, week family -/

/-- **tiling, week family.** A week variable given `week:…:n` (any first day), a weekday variable or a
DAY variable given a week / weekday / day period: the walk of `set_input` succeeds and enumerates
consecutive pieces of one definition period each that cover exactly the days of the period — `n`
weeks, or `7n` (resp. `n`) days. -/
theorem C16_walk_week_family (p : Period) (defU : DUnit) (h : WeekDomain p defU) :
    ∃ qs, walk defU p = .ok qs ∧ qs.length = pieceCountW p defU ∧ qs ≠ [] ∧
      (∀ q, q ∈ qs → q.unit = defU ∧ q.size = 1) ∧ Tiles qs p.lo p.hi ∧ qs = piecesW p defU :=
  walk_tiles_week p defU h

example : WeekDomain exWeeks2 .week ∧ pieceCountW exWeeks2 .week = 2 ∧ WeekDomain exWedWeek .day ∧
    pieceCountW exWedWeek .day = 7 ∧ WeekDomain exWeeks2 .weekday ∧ pieceCountW exWeeks2 .weekday = 14 := by decide

/-- … and these are the pieces `calculate_add` sums — for a week variable only when the period starts
on a Monday (`get_subperiods` counts ISO weeks from `first_week`; a week variable given a period that
starts mid-week is summed over OTHER weeks than the ones `set_input` filled: mirrored by the model,
outside the statement, which speaks of day-, month- and year-defined variables) -/
theorem C16_walk_eq_get_subperiods_weeks (p : Period) (defU : DUnit) (h : WeekDomain p defU)
    (hal : AlignedW p defU) : walk defU p = p.subperiods defU :=
  walk_eq_subperiodsW p defU h hal

example : AlignedW exWeeks2 .week ∧ ¬ AlignedW exWedWeek .week ∧ AlignedW exWedWeek .day ∧
    walk .day exWedWeek = exWedWeek.subperiods .day ∧ walk .week exWedWeek ≠ exWedWeek.subperiods .week := by
  decide +kernel

/-! ### the loops as the code writes them -/

/-- **`holder._set` inside the loops.** Both helpers write every unknown piece with `holder._set`, which
converts the array to the variable's dtype AGAIN and checks the period. On the pieces of ANY walk (every
input period, every definition unit) the check cannot fire and the loop with `_set` is the pure loop
`dispatchOn` of the model applied to the converted vector — for `divide` on an `int` variable that second
conversion is the truncation of the share. -/
theorem C16_loops_with_set (var : VarSpec) (hn : var.neutralized = false) (he : var.defUnit ≠ .eternity)
    (p : Period) (subs : List Period) (hw : walk var.defUnit p = .ok subs) (w : Vec) (hl : w.length = var.count)
    (s : Store) : fillLoop var w s subs = .ok (dispatchOn s subs (castVec var.kind w)) :=
  fillLoop_eq hn he w hl subs (walk_units hw) s

example : fillLoop (exVar .divide) [7/2, 4] exStore exMonths = .ok (dispatchOn exStore exMonths [7/2, 4]) ∧
    fillLoop { exVar .divide with kind := .int } [7/2, 4] exStore exMonths = .ok (dispatchOn exStore exMonths [3, 4]) := by
  decide +kernel

/-! ### every history -/

/-- **conservation along EVERY history.** Whatever inputs a divide variable (exact values) receives through
`Simulation.set_input`, in whatever order — pieces, long periods, overlapping, enclosing or repeated
ones, before or after each other —: if the whole history is accepted, then at its end the pieces of
EVERY input that the `end` test did not drop are all known and still sum, entity by entity, to the
amount of that input. No hypothesis on the order, on nesting, or on the calendar. -/
theorem C16_every_history_conserves (var : VarSpec) (hr : var.rule = .divide) (hk : var.kind = .num)
    (hn : var.neutralized = false) (calls : List (Period × Vec)) (s t : Store) (hwf : WF var.count s)
    (h : feedAll var s calls = .ok t) (p : Period) (v : Vec) (hm : (p, v) ∈ calls) (hlive : Live var p) :
    ∃ subs, walk var.defUnit p = .ok subs ∧ v.length = var.count ∧ (∀ q, q ∈ subs → sget t q ≠ none) ∧
      ∀ i, knownSum t subs i = ent v i :=
  feedAll_conserves hr hk hn hwf h hm hlive

/-- … hence `calculate_add` over the period of ANY input of an accepted history returns its amount and
leaves the store as it is (day / month / year family, aligned periods) -/
theorem C16_every_history_then_add (var : VarSpec) (hr : var.rule = .divide) (hk : var.kind = .num)
    (hn : var.neutralized = false) (calls : List (Period × Vec)) (s t : Store) (hwf : WF var.count s)
    (h : feedAll var s calls = .ok t) (p : Period) (v : Vec) (hm : (p, v) ∈ calls) (hlive : Live var p)
    (hd : WalkDomain p var.defUnit) (hal : Aligned p var.defUnit) : calcAdd var t p = .ok (some v, t) := by
  obtain ⟨subs, hw, hl, hkn, hsum⟩ := feedAll_conserves hr hk hn hwf h hm hlive
  exact calcAdd_of_known hn (feedAll_wf hwf h) hd hal hw hl hkn hsum

example : ∃ t, feedAll (exVar .divide) exStore
      [(exYear, [27, 30]), (exMonth 7, [2, 2]), (⟨.year, ⟨2018, 7, 1⟩, 1⟩, [48, 60]), (exYear, [27, 30])] = .ok t ∧
    Live (exVar .divide) exYear ∧ calcAdd (exVar .divide) t exYear = .ok (some [27, 30], t) ∧
    calcAdd (exVar .divide) t ⟨.year, ⟨2018, 7, 1⟩, 1⟩ = .ok (some [48, 60], t) :=
  ⟨_, ok_of_isOk (by decide +kernel), by decide, by decide +kernel, by decide +kernel⟩

/-- the same for the week family (a day variable given weeks, a week variable given Monday weeks) -/
theorem C16_every_history_then_add_weeks (var : VarSpec) (hr : var.rule = .divide) (hk : var.kind = .num)
    (hn : var.neutralized = false) (calls : List (Period × Vec)) (s t : Store) (hwf : WF var.count s)
    (h : feedAll var s calls = .ok t) (p : Period) (v : Vec) (hm : (p, v) ∈ calls) (hlive : Live var p)
    (hd : WeekDomain p var.defUnit) (hal : AlignedW p var.defUnit) : calcAdd var t p = .ok (some v, t) := by
  obtain ⟨subs, hw, hl, hkn, hsum⟩ := feedAll_conserves hr hk hn hwf h hm hlive
  obtain ⟨qs, hw', _, hne, _, _, _⟩ := walk_tiles_week p var.defUnit hd
  have hsub : p.subperiods var.defUnit = .ok subs := by rw [← walk_eq_subperiodsW p var.defUnit hd hal, hw]
  have hsubs_ne : subs.isEmpty = false := by
    rw [hw] at hw'; injection hw' with e; subst e
    cases subs with
    | nil => exact absurd rfl hne
    | cons _ _ => rfl
  have hweight : ¬ (unitWeight var.defUnit > unitWeight p.unit) := by
    obtain ⟨_, _, _, ⟨h1, h2⟩ | ⟨h1 | h1, h2 | h2 | h2⟩⟩ := hd <;> rw [h1, h2] <;> decide
  have hpu : ¬ (p.unit = .eternity) := by
    obtain ⟨_, _, _, ⟨_, h2⟩ | ⟨_, h2 | h2 | h2⟩⟩ := hd <;> rw [h2] <;> decide
  have he : ¬ (var.defUnit = .eternity) := by
    obtain ⟨_, _, _, ⟨h1, _⟩ | ⟨h1 | h1, _⟩⟩ := hd <;> rw [h1] <;> decide
  have hs := sumOver_all_known (feedAll_wf hwf h) hkn hl hsum
  simp only [calcAdd, if_neg hweight, if_neg he, if_neg hpu, hsub, bind, Except.bind, hsubs_ne, hs, hn,
    Bool.false_eq_true, if_false]

example : ∃ t, feedAll exDayVar [] [(⟨.day, ⟨2019, 1, 3⟩, 1⟩, [2]), (exWedWeek, [14])] = .ok t ∧
    WeekDomain exWedWeek .day ∧ calcAdd exDayVar t exWedWeek = .ok (some [14], t) ∧
    sget t ⟨.day, ⟨2019, 1, 8⟩, 1⟩ = some [2] :=
  ⟨_, ok_of_isOk (by decide +kernel), by decide, by decide +kernel, by decide +kernel⟩

/-! ### situation documents -/

/-- **the order of the keys of a situation document is irrelevant to conservation.** The builder consumes
the buffered inputs of a variable in non-decreasing `(size in days, unit weight)` order — a rearrangement of
the document, whatever the order its keys were written in (year before, after or between its months) —
and if the construction succeeds, the pieces of EVERY entry the `end` test did not drop sum to that
entry's amount. The short form (`build_from_variables`) consumes the document in the order written
(`feedAll`): the same conclusion holds by `C16_every_history_conserves`, but a year written before one of
its months is then refused unless the month repeats its share (see the example). -/
theorem C16_document_conserves (var : VarSpec) (hr : var.rule = .divide) (hk : var.kind = .num)
    (hn : var.neutralized = false) (doc : List (Period × Vec)) (s t : Store) (hwf : WF var.count s)
    (h : builderFeed var s doc = .ok t) :
    (∃ ks, keyAll doc = .ok ks ∧ KeySorted (sortKeyed ks) ∧
      (∀ pv, pv ∈ (sortKeyed ks).map (·.2) ↔ pv ∈ doc) ∧ ((sortKeyed ks).map (·.2)).length = doc.length ∧
      feedAll var s ((sortKeyed ks).map (·.2)) = .ok t) ∧
    ∀ p v, (p, v) ∈ doc → Live var p →
      ∃ subs, walk var.defUnit p = .ok subs ∧ (∀ q, q ∈ subs → sget t q ≠ none) ∧
        ∀ i, knownSum t subs i = ent v i := by
  obtain ⟨ks, hk1, hf, hmem, hsorted, hlen⟩ := builderFeed_inv h
  refine ⟨⟨ks, hk1, hsorted, hmem, hlen, hf⟩, ?_⟩
  intro p v hm hlive
  obtain ⟨subs, hw, _, hkn, hsum⟩ := feedAll_conserves hr hk hn hwf hf ((hmem (p, v)).mpr hm) hlive
  exact ⟨subs, hw, hkn, hsum⟩

example : ∃ t, builderFeed (exVar .divide) [] [(exYear, [27, 30]), (exMonth 2, [5, 8])] = .ok t ∧
    builderFeed (exVar .divide) [] [(exMonth 2, [5, 8]), (exYear, [27, 30])] = .ok t ∧
    sget t (exMonth 2) = some [5, 8] ∧ sget t (exMonth 3) = some [2, 2] ∧
    isOk (feedAll (exVar .divide) [] [(exYear, [27, 30]), (exMonth 2, [5, 8])]) = false ∧
    isOk (feedAll (exVar .divide) [] [(exMonth 2, [5, 8]), (exYear, [27, 30])]) = true :=
  ⟨_, ok_of_isOk (by decide +kernel), by decide +kernel, by decide +kernel, by decide +kernel, by decide +kernel,
    by decide +kernel⟩

/-- **small periods first.** In the order in which `finalize_variables_init` consumes a document, nothing
that comes after an entry has a smaller `(size in days, unit weight)` key: a month is consumed before the
year that contains it, a quarter before the year and after its months, `month:…:12` before the year with
the same days — wherever they stand in the document. -/
theorem C16_document_shortest_first (doc : List (Period × Vec)) (ks : List Keyed) (hk : keyAll doc = .ok ks)
    (A : List Keyed) (y : Keyed) (B : List Keyed) (hs : sortKeyed ks = A ++ y :: B) :
    (∀ x, x ∈ B → keyLe y.1 x.1 = true) ∧ feedKey y.2.1 = .ok y.1 := by
  refine ⟨keySorted_after A y B (hs ▸ keySorted_sort ks), ?_⟩
  have hy : y ∈ ks := (mem_sortKeyed y ks).mp (by rw [hs]; simp)
  exact (keyAll_spec hk).2 y hy

example : (keyAll [(exYear, [27, 30]), (exMonth 2, [5, 8]), (⟨.month, ⟨2018, 1, 1⟩, 3⟩, [9, 12])]).map
      (fun ks => (sortKeyed ks).map (fun x => x.2.1)) =
    .ok [exMonth 2, ⟨.month, ⟨2018, 1, 1⟩, 3⟩, exYear] := by decide +kernel

/-! ### second calls -/

/-- **the long input given again.** After an accepted input `a` on the pieces `subs`: the same input
again is accepted and changes nothing; any other amount (of the right length) is refused. -/
theorem C16_divide_twice (s t : Store) (subs : List Period) (a : Vec) (hwf : WF a.length s)
    (h : divideOn .num s subs a = .ok t) :
    divideOn .num t subs a = .ok t ∧
    ∀ b : Vec, b.length = a.length → b ≠ a → ∃ e, divideOn .num t subs b = .error e := by
  obtain ⟨c, hcl, hf, _, _⟩ := divideOn_ok_spec hwf h
  have hwt : WF a.length t := filled_wf hf hwf hcl
  have hu : unknownCount t subs = 0 := (unknownCount_zero_iff t subs).mpr (fun q hq => filled_known hf q hq)
  have hsum := C16_divide_conserves s t subs a hwf h
  refine ⟨(C16_divide_inconsistent_err .num t subs a hwt).2.1 hu (fun i _ => (hsum i).symm), ?_⟩
  intro b hbl hne
  have hwt' : WF b.length t := hbl ▸ hwt
  apply (divideOn_error_iff .num hwt').mpr
  refine ⟨hu, ?_⟩
  by_contra hcon
  apply hne
  apply vec_ext hbl
  intro i hi
  by_contra hd
  exact hcon ⟨i, hi, by rw [hsum i]; exact hd⟩

example : ∃ t, divideOn .num exStore exMonths [27, 30] = .ok t ∧ divideOn .num t exMonths [27, 30] = .ok t ∧
    ∃ e, divideOn .num t exMonths [27, 31] = .error e :=
  ⟨_, rfl, by decide +kernel, "inconsistent", by decide +kernel⟩

/-- **divide after divide on nested periods.** After an accepted long input, an input on pieces inside it
(one of its months, a quarter, the period itself) finds everything known: it is accepted exactly when
its amount repeats what is stored — and then changes nothing. -/
theorem C16_divide_nested_after (s t : Store) (subs : List Period) (a : Vec) (hwf : WF a.length s)
    (h : divideOn .num s subs a = .ok t) (l : List Period) (hin : ∀ q, q ∈ l → q ∈ subs) (x : Vec)
    (hxl : x.length = a.length) :
    ((∀ i, i < x.length → ent x i = knownSum t l i) → divideOn .num t l x = .ok t) ∧
    ((∃ i, i < x.length ∧ ent x i ≠ knownSum t l i) → ∃ e, divideOn .num t l x = .error e) := by
  obtain ⟨c, hcl, hf, _, _⟩ := divideOn_ok_spec hwf h
  have hwt : WF x.length t := hxl ▸ filled_wf hf hwf hcl
  have hu : unknownCount t l = 0 :=
    (unknownCount_zero_iff t l).mpr (fun q hq => filled_known hf q (hin q hq))
  exact ⟨fun hall => (C16_divide_inconsistent_err .num t l x hwt).2.1 hu hall,
    fun hex => (divideOn_error_iff .num hwt).mpr ⟨hu, hex⟩⟩

example : ∃ t, divideOn .num exStore exMonths [27, 30] = .ok t ∧ divideOn .num t [exMonth 7] [2, 2] = .ok t ∧
    divideOn .num t [exMonth 2, exMonth 3] [7, 10] = .ok t ∧ ∃ e, divideOn .num t [exMonth 7] [2, 3] = .error e :=
  ⟨_, rfl, by decide +kernel, by decide +kernel, "inconsistent", by decide +kernel⟩

/-- **the refusals of `Holder.set_input` on a divide variable are exactly these**: a vector of the wrong
length, or every piece of the period already set and, for some entity, a total that differs from the
amount (after conversion to the variable's type). On the claim domain nothing else is refused. -/
theorem C16_set_input_divide_refusal_iff (var : VarSpec) (s : Store) (p : Period) (v : Vec)
    (hr : var.rule = .divide) (hn : var.neutralized = false) (hwf : WF var.count s)
    (hd : WalkDomain p var.defUnit ∨ WeekDomain p var.defUnit) :
    (∃ e, setInput var s p v = .error e) ↔
      v.length ≠ var.count ∨
      ∃ subs, walk var.defUnit p = .ok subs ∧ unknownCount s subs = 0 ∧
        ∃ i, i < var.count ∧ ent (castVec var.kind v) i ≠ knownSum s subs i := by
  have hwalk : ∃ subs, walk var.defUnit p = .ok subs := by
    rcases hd with hd | hd
    · obtain ⟨qs, hw, _⟩ := walk_tiles p var.defUnit hd; exact ⟨qs, hw⟩
    · obtain ⟨qs, hw, _⟩ := walk_tiles_week p var.defUnit hd; exact ⟨qs, hw⟩
  obtain ⟨subs, hw⟩ := hwalk
  have he : var.defUnit ≠ .eternity := by
    rcases hd with hd | hd
    · obtain ⟨_, _, _, h | h | h⟩ := hd <;> rw [h.1] <;> decide
    · obtain ⟨_, _, _, ⟨h1, _⟩ | ⟨h1 | h1, _⟩⟩ := hd <;> rw [h1] <;> decide
  have hp : p.unit ≠ .eternity := by
    rcases hd with hd | hd
    · obtain ⟨_, _, _, ⟨_, h | h | h⟩ | ⟨_, h | h, _⟩ | ⟨_, h, _⟩⟩ := hd <;> rw [h] <;> decide
    · obtain ⟨_, _, _, ⟨_, h2⟩ | ⟨_, h2 | h2 | h2⟩⟩ := hd <;> rw [h2] <;> decide
  by_cases hl : v.length = var.count
  · rw [setInput_of_walk hl he hp hn hw, hr]
    simp only
    have hcl : (castVec var.kind v).length = var.count := by rw [castVec_length, hl]
    rw [divideOn_error_iff var.kind (hcl ▸ hwf), hcl]
    constructor
    · rintro ⟨hu, hi⟩; exact Or.inr ⟨subs, hw, hu, hi⟩
    · rintro (h | ⟨subs', hw', hu, hi⟩)
      · exact absurd hl h
      · rw [hw] at hw'; injection hw' with e; subst e; exact ⟨hu, hi⟩
  · constructor
    · intro _; exact Or.inl hl
    · intro _; exact (C16_set_input_refusals var s p v hn).2.1 hl

example : (∃ e, setInput (exVar .divide) exStore exYear [27] = .error e) ∧
    WalkDomain exYear (exVar .divide).defUnit := ⟨⟨"length", by decide +kernel⟩, by decide⟩

/-! ### the sum taken by hand -/

/-- **`calculate` on every piece, added up by the caller, is `calculate_add`**: same total, same store
afterwards (the pieces nobody set are cached with the default either way). With
`C16_every_history_then_add` the hand-made sum over the period of any accepted input is its amount. -/
theorem C16_add_is_sum_of_calculate (var : VarSpec) (hn : var.neutralized = false) (s : Store) (p : Period)
    (hd : WalkDomain p var.defUnit) (hal : Aligned p var.defUnit) :
    ∃ subs, p.subperiods var.defUnit = .ok subs ∧
      calcAdd var s p = (calcEach var (vzero var.count, s) subs).map (fun r => (some r.1, r.2)) := by
  obtain ⟨qs, hw, _, hne, hu, _, _⟩ := walk_tiles p var.defUnit hd
  have hsub : p.subperiods var.defUnit = .ok qs := by rw [← walk_eq_subperiods p var.defUnit hd hal, hw]
  have he : var.defUnit ≠ .eternity := by
    obtain ⟨_, _, _, h | h | h⟩ := hd <;> rw [h.1] <;> decide
  have hweight : ¬ (unitWeight var.defUnit > unitWeight p.unit) := by
    obtain ⟨_, _, _, ⟨h1, h2 | h2 | h2⟩ | ⟨h1, h2 | h2, _⟩ | ⟨h1, h2, _⟩⟩ := hd <;> rw [h1, h2] <;> decide
  have hpu : ¬ (p.unit = .eternity) := by
    obtain ⟨_, _, _, ⟨_, h2 | h2 | h2⟩ | ⟨_, h2 | h2, _⟩ | ⟨_, h2, _⟩⟩ := hd <;> rw [h2] <;> decide
  have hsubs_ne : qs.isEmpty = false := by
    cases qs with
    | nil => exact absurd rfl hne
    | cons _ _ => rfl
  refine ⟨qs, hsub, ?_⟩
  rw [calcEach_eq_fold hn he qs hu]
  simp only [calcAdd, if_neg hweight, if_neg he, if_neg hpu, hsub, bind, Except.bind, hsubs_ne, hn,
    Bool.false_eq_true, if_false, sumOver, Except.map]

example : calcEach (exVar .divide) (vzero 2, exStore) [exMonth 1, exMonth 2] =
    .ok ([5, 8], [(exMonth 1, [0, 0]), (exMonth 2, [5, 8])]) := by decide +kernel

/-! ### order, as a permutation statement over whole histories -/

/-- **order independence, divide rule, ANY two orders.** For a family of inputs in which an input with
fewer pieces lies inside or apart from one with more, and inputs with equally many pieces are on the same
pieces or on disjoint ones (`StrictLaminar` — periods of one tiling family that do not overlap partially:
months in quarters in years, days in months, a period given twice): two accepted histories made of the
same inputs, one ANY permutation of the other, end in the same store. -/
theorem C16_order_permutation (n : Nat) (calls1 calls2 : List (List Period × Vec)) (hp : calls2.Perm calls1)
    (hlen : ∀ d, d ∈ calls1 → d.2.length = n) (hlam : StrictLaminar calls1)
    (s t1 t2 : Store) (hwf : WF n s) (h1 : runDivide .num s calls1 = .ok t1)
    (h2 : runDivide .num s calls2 = .ok t2) : SameStore t1 t2 :=
  runDivide_perm calls1 calls2 hp hlen hlam s t1 t2 hwf h1 h2

/-- the same at the level of `Simulation.set_input`: two accepted histories of inputs on a divide variable
(exact values) that are permutations of each other leave the same values, provided the periods do not
overlap partially -/
theorem C16_history_order_permutation (var : VarSpec) (hr : var.rule = .divide) (hk : var.kind = .num)
    (hn : var.neutralized = false) (calls1 calls2 : List (Period × Vec)) (hp : calls2.Perm calls1)
    (hlive : ∀ pv, pv ∈ calls1 → Live var pv.1)
    (hlam : StrictLaminar (calls1.map (fun pv => (piecesOf var pv.1, pv.2))))
    (s t1 t2 : Store) (hwf : WF var.count s) (h1 : feedAll var s calls1 = .ok t1)
    (h2 : feedAll var s calls2 = .ok t2) : SameStore t1 t2 := by
  obtain ⟨r1, hl1⟩ := feedAll_runDivide hr hk hn hlive h1
  obtain ⟨r2, _⟩ := feedAll_runDivide hr hk hn (fun pv hpv => hlive pv (hp.mem_iff.mp hpv)) h2
  refine runDivide_perm _ _ (hp.map _) ?_ hlam s t1 t2 hwf r1 r2
  intro d hd
  obtain ⟨pv, hpv, rfl⟩ := List.mem_map.mp hd
  exact hl1 pv hpv

example :
    let q1 : Period := ⟨.month, ⟨2018, 1, 1⟩, 3⟩
    let c1 : List (Period × Vec) := [(exYear, [27, 30]), (exMonth 7, [2, 2]), (q1, [9, 12]), (exYear, [27, 30])]
    let c2 : List (Period × Vec) := [(q1, [9, 12]), (exYear, [27, 30]), (exYear, [27, 30]), (exMonth 7, [2, 2])]
    c2.Perm c1 ∧ StrictLaminar (c1.map (fun pv => (piecesOf (exVar .divide) pv.1, pv.2))) ∧
      isOk (feedAll (exVar .divide) exStore c1) = true ∧ isOk (feedAll (exVar .divide) exStore c2) = true := by
  refine ⟨?_, by decide +kernel, by decide +kernel, by decide +kernel⟩
  decide

/-- **every history, dispatch rule.** Along any accepted history of inputs on a dispatch variable a piece
keeps the value it had before the history; a piece without value receives the (converted) value of the
FIRST input whose period covers it; a piece no input covers stays unknown. Nothing is ever overwritten. -/
theorem C16_every_history_dispatch (var : VarSpec) (hr : var.rule = .dispatch) (hn : var.neutralized = false)
    (calls : List (Period × Vec)) (hlive : ∀ pv, pv ∈ calls → Live var pv.1) (s t : Store)
    (h : feedAll var s calls = .ok t) (q : Period) :
    sget t q =
      match sget s q with
      | some v => some v
      | none => (calls.find? (fun pv => decide (q ∈ piecesOf var pv.1))).map (fun pv => castVec var.kind pv.2) := by
  rw [feedAll_runDispatch hr hn hlive h, sget_runDispatch]
  cases sget s q with
  | some v => rfl
  | none =>
    simp only
    have key : ∀ cs : List (Period × Vec),
        ((cs.map (fun pv => (piecesOf var pv.1, castVec var.kind pv.2))).find? (fun lx => decide (q ∈ lx.1))).map (·.2) =
          (cs.find? (fun pv => decide (q ∈ piecesOf var pv.1))).map (fun pv => castVec var.kind pv.2) := by
      intro cs
      induction cs with
      | nil => rfl
      | cons x xs ih =>
        simp only [List.map_cons, List.find?_cons]
        by_cases hq : q ∈ piecesOf var x.1
        · simp [hq]
        · simp only [hq, decide_false]
          exact ih
    exact key calls

example : ∃ t, feedAll (exVar .dispatch) exStore [(⟨.month, ⟨2018, 1, 1⟩, 3⟩, [1, 1]), (exYear, [10, 10])] = .ok t ∧
    sget t (exMonth 2) = some [5, 8] ∧ sget t (exMonth 3) = some [1, 1] ∧ sget t (exMonth 4) = some [10, 10] :=
  ⟨_, ok_of_isOk (by decide +kernel), by decide +kernel, by decide +kernel, by decide +kernel⟩

end OFCore
