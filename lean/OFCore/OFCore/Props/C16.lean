import OFCore.Lemmas.SetInput
/-!
# C16 — inputs given on a longer period are conserved when spread over shorter ones

Model: `OFCore/SetInput.lean` (the repaired `set_input_dispatch_by_period`,
`set_input_divide_by_period`, `Holder.set_input`, `_set`, `calculate_add` on an input variable).
Vocabulary (`OFCore/Lemmas/SetInput.lean`): `ent v i` entity `i` of a vector, `entAt s q i` value of
entity `i` for the piece `q` (the default `0` when unknown — what `calculate` returns),
`knownSum s subs i = Σ_{q ∈ subs} entAt s q i`, `unknownCount s subs`, `WF n s` (every stored vector
has `n` entities), `SameStore`, `Tiles qs lo hi` (consecutive pieces covering the ordinals
`lo … hi`), `WalkDomain` / `Aligned` (the claim domain of the calendar part), `runDivide` /
`runDispatch` (several inputs in sequence).

The store / sum theorems are stated over an arbitrary list of pieces `subs` (no calendar fact is
needed, not even the absence of duplicates); `C16_walk_eq_subperiods` and
`C16_walk_eq_get_subperiods` are the calendar part and `C16_set_then_add` composes everything at the
level of `Holder.set_input` / `Simulation.calculate_add`.
Exact values (`VKind.num`, DESIGN section 4) unless said otherwise; `int`-typed variables truncate
each share (finding F-C16c), see `C16_divide_conserves_int_partial`.
-/
namespace OFCore

/-! ### concrete inputs used by the non-vacuity examples -/

/-- month `k` of 2018 -/
def exMonth (k : Int) : Period := ⟨.month, ⟨2018, k, 1⟩, 1⟩
def exMonths : List Period := [1, 2, 3, 4, 5, 6, 7, 8, 9, 10, 11, 12].map exMonth
def exYear : Period := ⟨.year, ⟨2018, 1, 1⟩, 1⟩
/-- rolling year `year:2018-03` -/
def exRolling : Period := ⟨.year, ⟨2018, 3, 1⟩, 1⟩
def exLeapFeb : Period := ⟨.month, ⟨2020, 2, 1⟩, 1⟩
/-- February pre-set to 5 (entity 0) and 8 (entity 1) -/
def exStore : Store := [(exMonth 2, [5, 8])]
def exVar (r : SRule) : VarSpec := { defUnit := .month, rule := r, kind := .num, count := 2 }

/-! ## the calendar part -/

/-- For a period of the day / month / year family whose start is not clipped by month arithmetic,
the walk `sub := (defUnit, start, 1); while sub.start < after: …; sub := sub.offset(1)` succeeds and
enumerates consecutive pieces of one definition period each, covering exactly the days of the
period (`Tiles`), `pieceCount` of them, in the closed form `pieces`. -/
theorem C16_walk_eq_subperiods (p : Period) (defU : DUnit) (h : WalkDomain p defU) :
    ∃ qs, walk defU p = .ok qs ∧ qs.length = pieceCount p defU ∧ qs ≠ [] ∧
      (∀ q, q ∈ qs → q.unit = defU ∧ q.size = 1) ∧ Tiles qs p.lo p.hi ∧ qs = pieces p defU :=
  walk_tiles p defU h

example : WalkDomain exRolling .month ∧ WalkDomain exLeapFeb .day ∧ WalkDomain ⟨.year, ⟨2019, 1, 1⟩, 3⟩ .year ∧
    pieceCount exRolling .month = 12 ∧ pieceCount exLeapFeb .day = 29 := by decide

/-- On aligned periods (months starting on the 1st, years on 1 January) the pieces visited by
`set_input` are exactly the list `Period.get_subperiods` gives to `calculate_add`. -/
theorem C16_walk_eq_get_subperiods (p : Period) (defU : DUnit) (h : WalkDomain p defU)
    (hal : Aligned p defU) : walk defU p = p.subperiods defU :=
  walk_eq_subperiods p defU h hal

example : WalkDomain exRolling .month ∧ Aligned exRolling .month ∧ walk .month exRolling =
    .ok ([3, 4, 5, 6, 7, 8, 9, 10, 11, 12].map exMonth ++
      [1, 2].map (fun k => (⟨.month, ⟨2019, k, 1⟩, 1⟩ : Period))) := by decide

/-! ## the dispatch rule -/

/-- every piece without earlier value receives the value itself -/
theorem C16_dispatch_fills (s : Store) (subs : List Period) (a : Vec) (q : Period) (hq : q ∈ subs)
    (hn : sget s q = none) : sget (dispatchOn s subs a) q = some a := by
  rw [sget_dispatchOn, hn]; simp [hq]

example : exMonth 3 ∈ exMonths ∧ sget exStore (exMonth 3) = none ∧
    sget (dispatchOn exStore exMonths [10, 10]) (exMonth 3) = some [10, 10] := by decide

/-- values set before are never overwritten, and nothing outside the pieces is written -/
theorem C16_dispatch_never_overwrites (s : Store) (subs : List Period) (a : Vec) (q : Period) :
    (∀ v, sget s q = some v → sget (dispatchOn s subs a) q = some v) ∧
    (q ∉ subs → sget (dispatchOn s subs a) q = sget s q) := by
  constructor
  · intro v hv; rw [sget_dispatchOn, hv]
  · intro hq; rw [sget_dispatchOn]; cases sget s q <;> simp [hq]

example : sget exStore (exMonth 2) = some [5, 8] ∧
    sget (dispatchOn exStore exMonths [10, 10]) (exMonth 2) = some [5, 8] := by decide

/-- `Holder.set_input` on a variable declared with the dispatch rule: it is accepted on the whole
claim domain and does the above on the pieces of the walk -/
theorem C16_set_input_dispatch (var : VarSpec) (s : Store) (p : Period) (v : Vec)
    (hr : var.rule = .dispatch) (hn : var.neutralized = false) :
    (∀ t, setInput var s p v = .ok t →
      ∃ subs, walk var.defUnit p = .ok subs ∧
        (∀ q, q ∈ subs → sget s q = none → sget t q = some (castVec var.kind v)) ∧
        (∀ q w, sget s q = some w → sget t q = some w) ∧
        (∀ q, q ∉ subs → sget t q = sget s q)) ∧
    (WalkDomain p var.defUnit → v.length = var.count → ∃ t, setInput var s p v = .ok t) := by
  constructor
  · intro t h
    obtain ⟨_, _, subs, hw, rfl⟩ := setInput_dispatch_inv hr hn h
    exact ⟨subs, hw, fun q hq hn => C16_dispatch_fills s subs _ q hq hn,
      fun q w hw' => (C16_dispatch_never_overwrites s subs _ q).1 w hw',
      fun q hq => (C16_dispatch_never_overwrites s subs _ q).2 hq⟩
  · intro hd hl
    obtain ⟨subs, hw, _, _, hu, _, _⟩ := walk_tiles p var.defUnit hd
    have he : var.defUnit ≠ .eternity := by
      obtain ⟨_, _, _, h | h | h⟩ := hd <;> rw [h.1] <;> decide
    have hp : p.unit ≠ .eternity := by
      obtain ⟨_, _, _, ⟨_, h | h | h⟩ | ⟨_, h | h, _⟩ | ⟨_, h, _⟩⟩ := hd <;> rw [h] <;> decide
    rw [setInput_of_walk hl he hp hn hw, hr]
    exact ⟨_, rfl⟩

example : ∃ t, setInput (exVar .dispatch) exStore exYear [10, 10] = .ok t ∧
    sget t (exMonth 3) = some [10, 10] ∧ sget t (exMonth 2) = some [5, 8] := ⟨_, rfl, by decide +kernel⟩

/-! ## the divide rule -/

/-- **conservation**: when the input is accepted, the values stored for the pieces sum, entity by
entity, to the amount that was set (whether or not some piece was already known) -/
theorem C16_divide_conserves (s t : Store) (subs : List Period) (a : Vec) (hwf : WF a.length s)
    (h : divideOn .num s subs a = .ok t) (i : Nat) : knownSum t subs i = ent a i := by
  obtain ⟨c, _, hf, hsum, _⟩ := divideOn_ok_spec hwf h
  rw [knownSum_filled hf, hsum i]

example : ∃ t, divideOn .num exStore exMonths [27, 30] = .ok t ∧ WF 2 exStore ∧
    0 < unknownCount exStore exMonths ∧ knownSum t exMonths 0 = 27 ∧ knownSum t exMonths 1 = 30 := by
  refine ⟨_, rfl, ?_, by decide +kernel, by decide +kernel, by decide +kernel⟩
  intro q v hv
  simp only [exStore, sget] at hv
  split at hv
  · injection hv with hv; rw [← hv]; rfl
  · cases hv

/-- pieces already set are left untouched; every other piece receives the same share
`(amount − Σ known) / #unknown`; nothing outside the pieces is written -/
theorem C16_divide_untouched_equal_share (s t : Store) (subs : List Period) (a : Vec)
    (hwf : WF a.length s) (h : divideOn .num s subs a = .ok t) :
    (∀ q v, sget s q = some v → sget t q = some v) ∧
    (∀ q, q ∈ subs → sget s q = none → ∃ c, sget t q = some c ∧ c.length = a.length ∧
      ∀ i, ent c i = (ent a i - knownSum s subs i) / (unknownCount s subs : Rat)) ∧
    (∀ q, q ∉ subs → sget t q = sget s q) := by
  obtain ⟨c, hcl, hf, _, hshare⟩ := divideOn_ok_spec hwf h
  refine ⟨?_, ?_, ?_⟩
  · intro q v hv; rw [hf q, hv]
  · intro q hq hn
    refine ⟨c, by rw [hf q, hn]; simp [hq], hcl, ?_⟩
    exact hshare ((unknownCount_pos_iff s subs).mpr ⟨q, hq, hn⟩)
  · intro q hq; rw [hf q]; cases sget s q <;> simp [hq]

example : ∃ t, divideOn .num exStore exMonths [27, 30] = .ok t ∧ sget t (exMonth 2) = some [5, 8] ∧
    sget t (exMonth 12) = some [2, 2] ∧ unknownCount exStore exMonths = 11 := ⟨_, rfl, by decide +kernel⟩

/-- an amount is refused exactly when every piece is already set and, for some entity, the amount
differs from their total (any value type); in particular an amount equal to the total is accepted,
and nothing is ever refused while a piece is unknown -/
theorem C16_divide_inconsistent_err (k : VKind) (s : Store) (subs : List Period) (a : Vec)
    (hwf : WF a.length s) :
    ((∃ e, divideOn k s subs a = .error e) ↔
      unknownCount s subs = 0 ∧ ∃ i, i < a.length ∧ ent a i ≠ knownSum s subs i) ∧
    (unknownCount s subs = 0 → (∀ i, i < a.length → ent a i = knownSum s subs i) →
      divideOn k s subs a = .ok s) ∧
    (0 < unknownCount s subs → ∃ t, divideOn k s subs a = .ok t) := by
  refine ⟨divideOn_error_iff k hwf, ?_, ?_⟩
  · intro hu hall
    cases hd : divideOn k s subs a with
    | error e =>
      obtain ⟨_, i, hi, hne⟩ := (divideOn_error_iff k hwf).mp ⟨e, hd⟩
      exact absurd (hall i hi) hne
    | ok t => rw [divideOn_all_known hwf hu hd]
  · intro hu
    cases hd : divideOn k s subs a with
    | error e =>
      obtain ⟨h0, _⟩ := (divideOn_error_iff k hwf).mp ⟨e, hd⟩
      omega
    | ok t => exact ⟨t, rfl⟩

example : ∃ t, divideOn .num [] exMonths [12, 24] = .ok t ∧ unknownCount t exMonths = 0 ∧
    (∃ e, divideOn .num t exMonths [13, 24] = .error e) ∧ divideOn .num t exMonths [12, 24] = .ok t :=
  ⟨_, rfl, by decide +kernel, ⟨"inconsistent", by decide +kernel⟩, by decide +kernel⟩

/-- `Holder.set_input` on a variable declared with the divide rule, exact values: accepted on the
claim domain unless everything is known and the total differs; conservation, untouched pieces,
equal share on the pieces of the walk -/
theorem C16_set_input_divide (var : VarSpec) (s t : Store) (p : Period) (v : Vec)
    (hr : var.rule = .divide) (hk : var.kind = .num) (hn : var.neutralized = false)
    (hwf : WF var.count s) (h : setInput var s p v = .ok t) :
    ∃ subs, walk var.defUnit p = .ok subs ∧ v.length = var.count ∧ WF var.count t ∧
      (∀ i, knownSum t subs i = ent v i) ∧
      (∀ q w, sget s q = some w → sget t q = some w) ∧
      (∀ q, q ∈ subs → sget s q = none → ∃ c, sget t q = some c ∧
        ∀ i, ent c i = (ent v i - knownSum s subs i) / (unknownCount s subs : Rat)) ∧
      (∀ q, q ∉ subs → sget t q = sget s q) := by
  obtain ⟨hl, _, subs, hw, hd⟩ := setInput_divide_inv hr hn h
  rw [hk] at hd
  simp only [castVec] at hd
  have hwf' : WF v.length s := hl ▸ hwf
  obtain ⟨h1, h2, h3⟩ := C16_divide_untouched_equal_share s t subs v hwf' hd
  refine ⟨subs, hw, hl, divideOn_wf hwf hl hd, C16_divide_conserves s t subs v hwf' hd, h1, ?_, h3⟩
  intro q hq hn
  obtain ⟨c, hc, _, hs⟩ := h2 q hq hn
  exact ⟨c, hc, hs⟩

example : ∃ t, setInput (exVar .divide) exStore exYear [27, 30] = .ok t ∧
    sget t (exMonth 7) = some [2, 2] := ⟨_, ok_of_isOk (by decide +kernel), by decide +kernel⟩

/-- **set, then sum**: over the same pieces `calculate_add` returns the amount that was set, vector
for vector, and leaves the store as it is -/
theorem C16_add_returns_amount (s t : Store) (subs : List Period) (a : Vec) (hwf : WF a.length s)
    (h : divideOn .num s subs a = .ok t) : sumOver a.length t subs = (a, t) := by
  obtain ⟨c, hcl, hf, _, _⟩ := divideOn_ok_spec hwf h
  have hwt : WF a.length t := filled_wf hf hwf hcl
  obtain ⟨h1, h2, h3⟩ := sumOver_spec a.length t hwt subs
  have hstore : (sumOver a.length t subs).2 = t := by
    rw [h1]; exact dispatchOn_all_known t subs _ (fun q hq => filled_known hf q hq)
  have hval : (sumOver a.length t subs).1 = a :=
    vec_ext h2 (fun i _ => by rw [h3 i]; exact C16_divide_conserves s t subs a hwf h i)
  exact Prod.ext hval hstore

example : ∃ t, divideOn .num exStore exMonths [27, 30] = .ok t ∧
    sumOver 2 t exMonths = ([27, 30], t) := ⟨_, rfl, by decide +kernel⟩

/-- the same at the level of the public API, on aligned periods: after an accepted
`set_input(P, v)` on a divide variable, `calculate_add(P)` returns `v` and changes nothing -/
theorem C16_set_then_add (var : VarSpec) (s t : Store) (p : Period) (v : Vec)
    (hr : var.rule = .divide) (hk : var.kind = .num) (hn : var.neutralized = false)
    (hwf : WF var.count s) (hd : WalkDomain p var.defUnit) (hal : Aligned p var.defUnit)
    (h : setInput var s p v = .ok t) : calcAdd var t p = .ok (some v, t) := by
  obtain ⟨hl, he, subs, hw, hdiv⟩ := setInput_divide_inv hr hn h
  rw [hk] at hdiv
  simp only [castVec] at hdiv
  obtain ⟨qs, hw', _, hne, _, _, _⟩ := walk_tiles p var.defUnit hd
  have hsub : p.subperiods var.defUnit = .ok subs := by rw [← walk_eq_subperiods p var.defUnit hd hal, hw]
  have hsubs_ne : subs.isEmpty = false := by
    rw [hw] at hw'; injection hw' with e; subst e
    cases subs with
    | nil => exact absurd rfl hne
    | cons _ _ => rfl
  have hweight : ¬ (unitWeight var.defUnit > unitWeight p.unit) := by
    obtain ⟨_, _, _, ⟨h1, h2 | h2 | h2⟩ | ⟨h1, h2 | h2, _⟩ | ⟨h1, h2, _⟩⟩ := hd <;> rw [h1, h2] <;> decide
  have hpu : ¬ (p.unit = .eternity) := by
    obtain ⟨_, _, _, ⟨_, h2 | h2 | h2⟩ | ⟨_, h2 | h2, _⟩ | ⟨_, h2, _⟩⟩ := hd <;> rw [h2] <;> decide
  have hsum := C16_add_returns_amount s t subs v (hl ▸ hwf) hdiv
  rw [hl] at hsum
  simp only [calcAdd, if_neg hweight, if_neg he, if_neg hpu, hsub, bind, Except.bind, hsubs_ne, hsum, hn,
    Bool.false_eq_true, if_false]

example : ∃ t, setInput (exVar .divide) exStore exRolling [27, 30] = .ok t ∧
    WalkDomain exRolling .month ∧ Aligned exRolling .month ∧
    calcAdd (exVar .divide) t exRolling = .ok (some [27, 30], t) :=
  ⟨_, ok_of_isOk (by decide +kernel), by decide +kernel, by decide +kernel, by decide +kernel⟩

/-- Restricted to `int`-typed variables whose share is a whole number. Full statement (`int`
variables conserve every amount) is FALSE of the code and of the model: each share is truncated on
storage (finding F-C16c, `divide on int-typed variable loses the remainder`, see the example below:
100 over the 12 months of 2018 is stored as 12 × 8 = 96). What is missing is a repair of the code
(distributing the remainder), not a proof. -/
theorem C16_divide_conserves_int_partial (s t : Store) (subs : List Period) (a : Vec)
    (hwf : WF a.length s)
    (hexact : castVec .int (vdivn (tally s subs a).1 (tally s subs a).2) = vdivn (tally s subs a).1 (tally s subs a).2)
    (h : divideOn .int s subs a = .ok t) (i : Nat) : knownSum t subs i = ent a i := by
  have e : divideOn .int s subs a = divideOn .num s subs a := by
    unfold divideOn
    simp only [hexact]
    rfl
  rw [e] at h
  exact C16_divide_conserves s t subs a hwf h i

example : ∃ t, divideOn .int [] exMonths [96] = .ok t ∧ knownSum t exMonths 0 = 96 ∧
    castVec .int (vdivn (tally [] exMonths [96]).1 (tally [] exMonths [96]).2) = vdivn (tally [] exMonths [96]).1 (tally [] exMonths [96]).2 :=
  ⟨_, rfl, by decide +kernel, by decide +kernel⟩

/-- F-C16c in the model: 100 over 12 months sums to 96 on an `int` variable -/
example : ∃ t, divideOn .int [] exMonths [100] = .ok t ∧ sumOver 1 t exMonths = ([96], t) :=
  ⟨_, rfl, by decide +kernel⟩

/-! ## several inputs -/

/-- the store stays well formed along any history of `set_input` calls (all rules, all value types) -/
theorem C16_store_wellformed (var : VarSpec) (s t : Store) (p : Period) (v : Vec) (hwf : WF var.count s)
    (h : setInput var s p v = .ok t) : WF var.count t := by
  by_cases hn : var.neutralized = true
  · unfold setInput at h
    simp only [hn, if_true] at h
    split at h
    · cases h
    · injection h with h; subst h; exact hwf
  have hn : var.neutralized = false := by simpa using hn
  cases hr : var.rule with
  | dispatch =>
    obtain ⟨hl, _, subs, _, rfl⟩ := setInput_dispatch_inv hr hn h
    exact filled_wf (dispatchOn_filled s subs _) hwf (by rw [castVec_length, hl])
  | divide =>
    obtain ⟨hl, _, subs, _, hd⟩ := setInput_divide_inv hr hn h
    have hcl : (castVec var.kind v).length = var.count := by rw [castVec_length, hl]
    obtain ⟨h1, _, _⟩ := tally_spec s subs (castVec var.kind v) (hcl ▸ hwf)
    unfold divideOn at hd
    simp only at hd
    split at hd
    · injection hd with hd; subst hd
      exact filled_wf (dispatchOn_filled s subs _) hwf (by rw [castVec_length, vdivn_length, h1, hcl])
    · split at hd
      · injection hd with hd; subst hd; exact hwf
      · cases hd
  | absent =>
    unfold setInput at h
    simp only [hn, Bool.false_eq_true, if_false] at h
    split at h
    · cases h
    · rw [hr] at h
      simp only [holderSet, toArray] at h
      by_cases hl : v.length ≠ var.count
      · rw [if_pos hl] at h; cases h
      · rw [if_neg hl] at h
        have hcl : (castVec var.kind v).length = var.count := by rw [castVec_length]; simpa using hl
        have key : ∀ k, WF var.count (sput s k (castVec var.kind v)) := by
          intro k q w hq
          rw [sget_sput] at hq
          split at hq
          · injection hq with hq; rw [← hq]; exact hcl
          · exact hwf q w hq
        simp only [bind, Except.bind] at h
        split at h
        · split at h
          · cases h
          · injection h with h; subst h; exact key _
        · injection h with h; subst h; exact key _

example : ∃ t, setInput (exVar .divide) exStore exYear [27, 30] = .ok t ∧ WF 2 t := by
  have h : ∃ t, setInput (exVar .divide) exStore exYear [27, 30] = .ok t := ⟨_, ok_of_isOk (by decide +kernel)⟩
  obtain ⟨t, ht⟩ := h
  refine ⟨t, ht, C16_store_wellformed (exVar .divide) exStore t exYear _ ?_ ht⟩
  intro q v hv
  simp only [exStore, sget] at hv
  split at hv
  · injection hv with hv; rw [← hv]; rfl
  · cases hv

/-- once an amount has been accepted for a long period, no later divide input (on any pieces, in
any order, accepted or not) changes the values of its pieces: the sum over the period stays the
amount -/
theorem C16_amount_persists (k : VKind) (s t : Store) (calls : List (List Period × Vec))
    (h : runDivide k s calls = .ok t) (q : Period) (v : Vec) (hq : sget s q = some v) :
    sget t q = some v := by
  induction calls generalizing s with
  | nil => simp only [runDivide] at h; injection h with h; subst h; exact hq
  | cons x xs ih =>
    obtain ⟨l, a⟩ := x
    simp only [runDivide] at h
    cases hd : divideOn k s l a with
    | error e => rw [hd] at h; cases h
    | ok s' =>
      rw [hd] at h
      refine ih s' h ?_
      unfold divideOn at hd
      simp only at hd
      split at hd
      · injection hd with hd; subst hd; rw [sget_dispatchOn, hq]
      · split at hd
        · injection hd with hd; subst hd; exact hq
        · cases hd

example : ∃ t, runDivide .num exStore [(exMonths, [27, 30]), ([exMonth 1, exMonth 2, exMonth 3], [9, 12])] = .ok t ∧
    sget t (exMonth 2) = some [5, 8] := ⟨_, ok_of_isOk (by decide +kernel), by decide +kernel⟩

/-- hence after an accepted long input the sum over its pieces stays the amount whatever divide
inputs follow (sub-periods, overlapping or enclosing periods), entity by entity -/
theorem C16_sum_persists (s t t' : Store) (subs : List Period) (a : Vec) (hwf : WF a.length s)
    (h : divideOn .num s subs a = .ok t) (calls : List (List Period × Vec))
    (hc : runDivide .num t calls = .ok t') (i : Nat) : knownSum t' subs i = ent a i := by
  rw [← C16_divide_conserves s t subs a hwf h i]
  obtain ⟨c, _, hf, _, _⟩ := divideOn_ok_spec hwf h
  apply knownSum_congr
  intro q hq
  cases hq' : sget t q with
  | none => exact absurd hq' (filled_known hf q hq)
  | some v => exact C16_amount_persists .num t t' calls hc q v hq'

example : ∃ t, runDivide .num exStore [(exMonths, [27, 30]),
      ([7, 8, 9, 10, 11, 12].map exMonth ++ [1, 2, 3, 4, 5, 6].map (fun k => (⟨.month, ⟨2019, k, 1⟩, 1⟩ : Period)), [48, 60])] = .ok t ∧
    knownSum t exMonths 0 = 27 ∧ knownSum t exMonths 1 = 30 :=
  ⟨_, ok_of_isOk (by decide +kernel), by decide +kernel, by decide +kernel⟩

/-- **order, divide rule.** A long input followed by inputs on pieces inside it: if that order is
accepted, the later inputs changed nothing, and giving the inner inputs *first* (shortest first)
and the long one last is accepted as well and yields the same store. -/
theorem C16_order_long_last (n : Nat) (s s1 s2 : Store) (subs : List Period) (a : Vec)
    (calls : List (List Period × Vec)) (hwf : WF n s) (ha : a.length = n)
    (hc : ∀ lx, lx ∈ calls → (∀ q, q ∈ lx.1 → q ∈ subs) ∧ lx.2.length = n)
    (h1 : divideOn .num s subs a = .ok s1) (h2 : runDivide .num s1 calls = .ok s2) :
    s2 = s1 ∧ ∃ s3 s4, runDivide .num s calls = .ok s3 ∧ divideOn .num s3 subs a = .ok s4 ∧
      SameStore s4 s1 := by
  subst ha
  obtain ⟨c, hcl, hf, hsum, _⟩ := divideOn_ok_spec hwf h1
  have hw1 : WF a.length s1 := filled_wf hf hwf hcl
  obtain ⟨e, s3, hr, hm, hw3⟩ := runDivide_after_long hcl hf hw1 calls hc s2 h2 s hwf (mid_refl s subs c)
  obtain ⟨s4, hd, hsame⟩ := mid_final hw3 hcl hf hm hsum
  exact ⟨e, s3, s4, hr, hd, hsame⟩

example : ∃ s1 s4, runDivide .num exStore [(exMonths, [27, 30]), ([exMonth 1, exMonth 2, exMonth 3], [9, 12]), ([exMonth 7], [2, 2])] = .ok s1 ∧
    runDivide .num exStore [([exMonth 1, exMonth 2, exMonth 3], [9, 12]), ([exMonth 7], [2, 2]), (exMonths, [27, 30])] = .ok s4 ∧
    (exMonths.map (sget s4)) = (exMonths.map (sget s1)) :=
  ⟨_, _, ok_of_isOk (by decide +kernel), ok_of_isOk (by decide +kernel), by decide +kernel⟩

/-- the same for any position of the long input: every accepted history
`pre ++ [long] ++ post` whose later inputs lie inside the long period gives the same store as
`pre ++ post ++ [long]` (which is accepted too) -/
theorem C16_order_any_position (n : Nat) (s t : Store) (subs : List Period) (a : Vec)
    (pre post : List (List Period × Vec)) (hwf : WF n s) (ha : a.length = n)
    (hpre : ∀ lx, lx ∈ pre → lx.2.length = n)
    (hpost : ∀ lx, lx ∈ post → (∀ q, q ∈ lx.1 → q ∈ subs) ∧ lx.2.length = n)
    (h : runDivide .num s (pre ++ (subs, a) :: post) = .ok t) :
    ∃ t', runDivide .num s (pre ++ post ++ [(subs, a)]) = .ok t' ∧ SameStore t' t := by
  rw [runDivide_append] at h
  cases hp : runDivide .num s pre with
  | error e => rw [hp] at h; cases h
  | ok s0 =>
    rw [hp] at h
    simp only [runDivide] at h
    cases hd : divideOn .num s0 subs a with
    | error e => rw [hd] at h; cases h
    | ok s1 =>
      rw [hd] at h
      have hw0 : WF n s0 := runDivide_wf hwf hpre hp
      obtain ⟨e, s3, s4, hr, hd4, hsame⟩ := C16_order_long_last n s0 s1 t subs a post hw0 ha hpost hd h
      refine ⟨s4, ?_, by rw [e]; exact hsame⟩
      rw [List.append_assoc, runDivide_append, hp]
      simp only
      rw [runDivide_append, hr]
      simp only [runDivide, hd4]

example : ∃ t t', runDivide .num [] [([exMonth 2], [5, 8]), (exMonths, [27, 30]), ([exMonth 7], [2, 2])] = .ok t ∧
    runDivide .num [] [([exMonth 2], [5, 8]), ([exMonth 7], [2, 2]), (exMonths, [27, 30])] = .ok t' ∧
    exMonths.map (sget t') = exMonths.map (sget t) :=
  ⟨_, _, ok_of_isOk (by decide +kernel), ok_of_isOk (by decide +kernel), by decide +kernel⟩

/-- **order, divide rule, general.** For a family of inputs whose piece lists are nested or disjoint
(`Laminar`: every input with fewer pieces lies inside or apart from every input with more — quarters
in years, months in quarters, …), ANY accepted order gives the same store as the shortest-first
order (stable insertion sort by number of pieces), and that order is accepted too. -/
theorem C16_order_shortest_first (n : Nat) (calls : List (List Period × Vec))
    (hlen : ∀ d, d ∈ calls → d.2.length = n) (hlam : Laminar calls)
    (s t : Store) (hwf : WF n s) (h : runDivide .num s calls = .ok t) :
    ∃ t', runDivide .num s (shortestFirst calls) = .ok t' ∧ SameStore t' t :=
  runDivide_shortestFirst calls hlen hlam s t hwf h

example :
    let calls : List (List Period × Vec) :=
      [(exMonths, [27, 30]), ([exMonth 7], [2, 2]), ([exMonth 1, exMonth 2, exMonth 3], [9, 12])]
    Laminar calls ∧ isOk (runDivide .num exStore calls) = true ∧
    shortestFirst calls = [([exMonth 7], [2, 2]), ([exMonth 1, exMonth 2, exMonth 3], [9, 12]), (exMonths, [27, 30])] := by
  decide +kernel

/-- hence two accepted orders of the same nested-or-disjoint inputs that have the same shortest-first
arrangement (always the case when inputs with equally many pieces keep their relative order) give
the same store -/
theorem C16_order_independent (n : Nat) (calls1 calls2 : List (List Period × Vec))
    (hlen : ∀ d, d ∈ calls1 → d.2.length = n) (hlam : Laminar calls1)
    (hsame : shortestFirst calls1 = shortestFirst calls2)
    (s t1 t2 : Store) (hwf : WF n s) (h1 : runDivide .num s calls1 = .ok t1)
    (h2 : runDivide .num s calls2 = .ok t2) : SameStore t1 t2 := by
  have hmem : ∀ d, d ∈ calls2 ↔ d ∈ calls1 := by
    intro d; rw [← mem_shortestFirst d calls2, ← hsame, mem_shortestFirst]
  obtain ⟨u1, hu1, hs1⟩ := runDivide_shortestFirst calls1 hlen hlam s t1 hwf h1
  obtain ⟨u2, hu2, hs2⟩ := runDivide_shortestFirst calls2 (fun d hd => hlen d ((hmem d).mp hd))
    (fun c hc d hd => hlam c ((hmem c).mp hc) d ((hmem d).mp hd)) s t2 hwf h2
  rw [hsame, hu2] at hu1
  injection hu1 with e
  subst e
  exact sameStore_trans (sameStore_symm hs1) hs2

example :
    let c1 : List (List Period × Vec) :=
      [(exMonths, [27, 30]), ([exMonth 7], [2, 2]), ([exMonth 1, exMonth 2, exMonth 3], [9, 12])]
    let c2 : List (List Period × Vec) :=
      [([exMonth 1, exMonth 2, exMonth 3], [9, 12]), (exMonths, [27, 30]), ([exMonth 7], [2, 2])]
    shortestFirst c1 = shortestFirst c2 ∧ isOk (runDivide .num exStore c1) = true ∧
      isOk (runDivide .num exStore c2) = true := by
  decide +kernel

/-- Unrestricted order independence ("any two accepted orders of the same inputs give the same
store") is FALSE as soon as two long periods overlap without being nested — of the code as well:
calendar year 2018 = 120 and rolling year 2018-07 … 2019-06 = 240 are accepted in both orders and
leave January 2018 at 10 in one order and at 0 in the other. The property statement does not claim
it; what it claims (conservation, untouched, equal share, refusal) holds in every order by the
theorems above. -/
example :
    let y18 := [1, 2, 3, 4, 5, 6, 7, 8, 9, 10, 11, 12].map exMonth
    let roll := [7, 8, 9, 10, 11, 12].map exMonth ++ [1, 2, 3, 4, 5, 6].map (fun k => (⟨.month, ⟨2019, k, 1⟩, 1⟩ : Period))
    ∃ t t', runDivide .num [] [(y18, [120]), (roll, [240])] = .ok t ∧
      runDivide .num [] [(roll, [240]), (y18, [120])] = .ok t' ∧
      sget t (exMonth 1) = some [10] ∧ sget t' (exMonth 1) = some [0] :=
  ⟨_, _, ok_of_isOk (by decide +kernel), ok_of_isOk (by decide +kernel), by decide +kernel, by decide +kernel⟩

/-- **order, dispatch rule**: after several dispatch inputs a piece holds its earlier value if it had
one, else the value of the *first* input that covers it; so two orders give the same store exactly
when they agree on which input covers each unknown piece first -/
theorem C16_dispatch_order_first_wins (s : Store) (calls : List (List Period × Vec)) (q : Period) :
    sget (runDispatch s calls) q =
      match sget s q with
      | some v => some v
      | none => (calls.find? (fun lx => decide (q ∈ lx.1))).map (·.2) :=
  sget_runDispatch s calls q

example : sget (runDispatch exStore [([exMonth 1, exMonth 2, exMonth 3], [1, 1]), (exMonths, [10, 10])]) (exMonth 3) = some [1, 1] ∧
    sget (runDispatch exStore [(exMonths, [10, 10]), ([exMonth 1, exMonth 2, exMonth 3], [1, 1])]) (exMonth 3) = some [10, 10] ∧
    sget (runDispatch exStore [(exMonths, [10, 10]), ([exMonth 1, exMonth 2, exMonth 3], [1, 1])]) (exMonth 2) = some [5, 8] := by
  decide +kernel

/-! ## routing of `Holder.set_input` -/

/-- the refusals of the routing: an `ETERNITY` input on a dated variable; a vector of the wrong
length; a rule on an eternal variable; a variable without rule given anything else than one
definition period -/
theorem C16_set_input_refusals (var : VarSpec) (s : Store) (p : Period) (v : Vec)
    (hn : var.neutralized = false) :
    (p.unit = .eternity → var.defUnit ≠ .eternity → ∃ e, setInput var s p v = .error e) ∧
    (v.length ≠ var.count → ∃ e, setInput var s p v = .error e) ∧
    (var.defUnit = .eternity → var.rule ≠ .absent → ∃ e, setInput var s p v = .error e) ∧
    (var.rule = .absent → var.defUnit ≠ .eternity → (p.unit ≠ var.defUnit ∨ 1 < p.size) →
      ∃ e, setInput var s p v = .error e) ∧
    (var.rule = .absent → var.defUnit ≠ .eternity → p.unit = var.defUnit → p.size ≤ 1 →
      v.length = var.count → setInput var s p v = .ok (sput s p (castVec var.kind v))) := by
  refine ⟨?_, ?_, ?_, ?_, ?_⟩
  · intro h1 h2; exact ⟨"mismatch", by simp [setInput, h1, h2]⟩
  · intro hl
    unfold setInput
    simp only [hn, Bool.false_eq_true, if_false]
    split
    · exact ⟨_, rfl⟩
    · cases var.rule <;> simp [dispatchByPeriod, divideByPeriod, holderSet, toArray, hl, bind, Except.bind]
  · intro he hr
    unfold setInput
    simp only [hn, Bool.false_eq_true, if_false]
    split
    · exact ⟨_, rfl⟩
    · cases hrule : var.rule with
      | absent => exact absurd hrule hr
      | dispatch =>
        simp only [dispatchByPeriod, toArray, he]
        by_cases hl : v.length ≠ var.count <;> simp [hl, bind, Except.bind]
      | divide =>
        simp only [divideByPeriod, toArray, he]
        by_cases hl : v.length ≠ var.count <;> simp [hl, bind, Except.bind]
  · intro hr he hp
    unfold setInput
    simp only [hn, Bool.false_eq_true, if_false]
    split
    · exact ⟨_, rfl⟩
    · rw [hr]
      simp only [holderSet, toArray]
      by_cases hl : v.length ≠ var.count
      · simp [hl, bind, Except.bind]
      · have hcond : var.defUnit ≠ p.unit ∨ p.size > 1 := by
          rcases hp with h | h
          · left; exact fun e => h e.symm
          · right; omega
        simp [hl, bind, Except.bind, he, hcond]
  · intro hr he hp hs hl
    unfold setInput
    simp only [hn, Bool.false_eq_true, if_false]
    have h1 : ¬ (p.unit = .eternity ∧ var.defUnit ≠ .eternity) := by
      intro ⟨h, _⟩; rw [hp] at h; exact he h
    rw [if_neg h1, hr]
    have hcond : ¬ (var.defUnit ≠ p.unit ∨ p.size > 1) := by
      intro h; rcases h with h | h
      · exact h hp.symm
      · omega
    simp [holderSet, toArray, hl, bind, Except.bind, he, hcond]

example : (∃ e, setInput { defUnit := .month, rule := .absent, kind := .num, count := 1 } [] exYear [12] = .error e) ∧
    setInput { defUnit := .month, rule := .absent, kind := .num, count := 1 } [] (exMonth 4) [12] = .ok [(exMonth 4, [12])] ∧
    (∃ e, setInput (exVar .divide) [] Period.eternity [1, 2] = .error e) :=
  ⟨⟨"mismatch", by decide +kernel⟩, by decide +kernel, ⟨"mismatch", by decide +kernel⟩⟩

/-- the refusals of `calculate_add`: a period of a smaller unit than the definition period, an
eternal variable, an `ETERNITY` period (fix F-C03a; it used to return the integer 0) -/
theorem C16_add_refusals (var : VarSpec) (s : Store) (p : Period) :
    (unitWeight var.defUnit > unitWeight p.unit ∨ var.defUnit = .eternity ∨ p.unit = .eternity) →
      ∃ e, calcAdd var s p = .error e := by
  intro h
  unfold calcAdd
  split
  · exact ⟨_, rfl⟩
  · split
    · exact ⟨_, rfl⟩
    · split
      · exact ⟨_, rfl⟩
      · rename_i h1 h2 h3
        rcases h with h | h | h
        · exact absurd h h1
        · exact absurd h h2
        · exact absurd h h3

example : (∃ e, calcAdd { defUnit := .year, rule := .absent, kind := .num, count := 1 } [] Period.eternity = .error e) ∧
    (∃ e, calcAdd (exVar .divide) [] ⟨.day, ⟨2018, 1, 1⟩, 40⟩ = .error e) :=
  ⟨⟨"eternal-period", by decide +kernel⟩, ⟨"value", by decide +kernel⟩⟩

/-- a neutralised variable: every input is ignored (the store is returned as it is), `get_array`
answers the default and `calculate_add` the default summed, whatever was stored; so the
conservation statement is about variables that are not neutralised -/
theorem C16_neutralized_ignores (var : VarSpec) (hn : var.neutralized = true) (s : Store) (p : Period) :
    (∀ v, ¬ (p.unit = .eternity ∧ var.defUnit ≠ .eternity) → setInput var s p v = .ok s) ∧
    getArray var s p = some (vzero var.count) ∧
    (∀ r t, calcAdd var s p = .ok (some r, t) → r = vzero var.count ∧ t = s) := by
  refine ⟨?_, ?_, ?_⟩
  · intro v hne; unfold setInput; rw [if_neg hne]; simp [hn]
  · simp [getArray, hn]
  · intro r t h
    unfold calcAdd at h
    split at h
    · cases h
    · split at h
      · cases h
      · split at h
        · cases h
        · cases hs : p.subperiods var.defUnit with
          | error e => simp [hs, bind, Except.bind] at h
          | ok subs =>
            simp only [hs, bind, Except.bind, hn, if_true] at h
            split at h
            · cases h
            · injection h with h
              injection h with h1 h2
              injection h1 with h1
              exact ⟨h1.symm, h2.symm⟩

example : setInput { exVar .divide with neutralized := true } exStore exYear [27, 30] = .ok exStore ∧
    calcAdd { exVar .divide with neutralized := true } exStore exYear = .ok (some [0, 0], exStore) := by
  decide +kernel

/-- `Simulation.set_input` and a variable's `end`: an input whose period starts after the end is
ignored, every other input (including one that starts before the end and runs past it) is routed
to `Holder.set_input` unchanged — so conservation holds for every period that starts on or before
the end, and is not claimed for periods that start after it -/
theorem C16_end_routing (var : VarSpec) (s : Store) (p : Period) (v : Vec) :
    (var.endDate = none → simSetInput var s p v = setInput var s p v) ∧
    (∀ e, var.endDate = some e → dateOk p.start = true → ¬ e.lt p.start →
      simSetInput var s p v = setInput var s p v) ∧
    (∀ e, var.endDate = some e → dateOk p.start = true → e.lt p.start → simSetInput var s p v = .ok s) := by
  refine ⟨?_, ?_, ?_⟩
  · intro h; simp [simSetInput, h]
  · intro e h hd hlt; simp [simSetInput, h, hd, hlt]
  · intro e h hd hlt; simp [simSetInput, h, hd, hlt]

example : simSetInput { exVar .divide with endDate := some ⟨2018, 6, 30⟩ } [] exYear [24, 36] =
      setInput (exVar .divide) [] exYear [24, 36] ∧
    simSetInput { exVar .divide with endDate := some ⟨2017, 12, 31⟩ } exStore exYear [24, 36] = .ok exStore ∧
    isOk (setInput (exVar .divide) [] exYear [24, 36]) = true := by
  decide +kernel

end OFCore
