import OFCore.Period
namespace OFCore
theorem C04_placeholder : True := trivial
end OFCore
