import OFCore.Lemmas.Period
import OFCore.Lemmas.TextForms
/-!
# C04 — period arithmetic agrees with the calendar

Every dated period denotes the closed interval of proleptic ordinals `[p.lo, p.hi]`
(`hi = ord (start + size units) − 1`).  All theorems quantify over *all* valid start dates
(every year ≥ 1), all positive sizes, all units: no bound.  Where the Python code can raise
(year outside 1..9999 in pendulum) the statement is "if it returns a value, the value is …";
totality inside the representable range is stated separately.
-/
namespace OFCore

/-- The last day of a period is the day before `start + size units`, and it is a real date. -/
theorem C04_stop_is_last_day (p : Period) (h : p.WF) (s : Date) (hs : p.stop = .ok s) :
    s.Valid ∧ ord s = p.hi ∧ p.lo ≤ p.hi :=
  ⟨(stop_spec p h s hs).1, (stop_spec p h s hs).2, lo_le_hi p h⟩

example : (Period.mk .year ⟨2012, 2, 29⟩ 1).WF ∧ (Period.mk .year ⟨2012, 2, 29⟩ 1).stop = .ok ⟨2013, 2, 27⟩ := by
  decide +kernel

/-- `days` and `size_in_days` count exactly the days of the period, for every dated unit. -/
theorem C04_days_count (p : Period) (h : p.WF) (k : Int) :
    (p.days = .ok k → k = p.hi - p.lo + 1) ∧ (p.sizeInDays = .ok k → k = p.hi - p.lo + 1) := by
  constructor
  · intro hk
    unfold Period.days at hk
    cases hs : p.stop with
    | error e => rw [hs] at hk; cases hk
    | ok s =>
      rw [hs] at hk
      simp only [bind, Except.bind] at hk
      split at hk
      · injection hk with hk
        have := (stop_spec p h s hs).2
        unfold Period.lo; omega
      · cases hk
  · intro hk
    obtain ⟨hu, hv, hsz⟩ := h
    unfold Period.sizeInDays at hk
    cases hp : p.unit <;> rw [hp] at hk <;> simp only at hk
    · injection hk with hk; unfold Period.hi Period.lo; simp only [hp]; omega
    · injection hk with hk; unfold Period.hi Period.lo; simp only [hp]; omega
    · injection hk with hk; unfold Period.hi Period.lo; simp only [hp]; omega
    · exact spanDays_spec p ⟨hu, hv, hsz⟩ (Or.inr hp) k hk
    · exact spanDays_spec p ⟨hu, hv, hsz⟩ (Or.inl hp) k hk
    · cases hk

example : (Period.mk .month ⟨2020, 2, 1⟩ 1).days = .ok 29 ∧ (Period.mk .year ⟨2021, 10, 1⟩ 3).sizeInDays = .ok 1096 := by
  decide +kernel

/-- Sizes expressed in a smaller unit of the same family. -/
theorem C04_size_in_smaller_unit (p : Period) (h : p.WF) :
    (p.unit = .year → p.sizeInMonths = .ok (12 * p.size)) ∧
    (p.unit = .month → p.sizeInMonths = .ok p.size) ∧
    (p.unit = .week → p.sizeInDays = .ok (7 * p.size) ∧ p.sizeInWeekdays = .ok (7 * p.size) ∧
        7 * p.size = p.hi - p.lo + 1) ∧
    (p.unit = .weekday → p.sizeInWeekdays = .ok p.size ∧ p.size = p.hi - p.lo + 1) ∧
    (∀ k, (p.unit = .year ∨ p.unit = .month) → p.sizeInDays = .ok k → k = p.hi - p.lo + 1) := by
  refine ⟨?_, ?_, ?_, ?_, ?_⟩
  · intro hu; simp only [Period.sizeInMonths, hu, if_true]; congr 1; omega
  · intro hu; simp [Period.sizeInMonths, hu]
  · intro hu
    refine ⟨?_, ?_, ?_⟩
    · simp only [Period.sizeInDays, hu]; congr 1; omega
    · simp only [Period.sizeInWeekdays, hu]; congr 1; omega
    · unfold Period.hi Period.lo; simp only [hu]; omega
  · intro hu
    refine ⟨by simp only [Period.sizeInWeekdays, hu], ?_⟩
    unfold Period.hi Period.lo; simp only [hu]; omega
  · intro k _ hk; exact (C04_days_count p h k).2 hk

/-- `contains` is inclusion of the day sets. -/
theorem C04_contains_iff_subset (p q : Period) (hp : p.WF) (hq : q.WF) (b : Bool)
    (h : p.contains q = .ok b) : (b = true ↔ p.lo ≤ q.lo ∧ q.hi ≤ p.hi) := by
  unfold Period.contains at h
  have hle := le_iff_ord_le _ _ hp.2.1 hq.2.1
  split at h
  · rename_i hst
    cases hps : p.stop with
    | error e => rw [hps] at h; cases h
    | ok ps =>
      cases hqs : q.stop with
      | error e => rw [hps, hqs] at h; cases h
      | ok qs =>
        rw [hps, hqs] at h
        simp only [bind, Except.bind] at h
        injection h with h
        obtain ⟨hpv, hpo⟩ := stop_spec p hp ps hps
        obtain ⟨hqv, hqo⟩ := stop_spec q hq qs hqs
        have := hle.1 hst
        rw [← h, decide_eq_true_iff, le_iff_ord_le _ _ hqv hpv]
        unfold Period.lo; omega
  · rename_i hst
    injection h with h
    have : ¬ ord p.start ≤ ord q.start := fun hh => hst (hle.2 hh)
    rw [← h]; unfold Period.lo
    constructor
    · intro hf; cases hf
    · intro hc; exact absurd hc.1 this

example : (Period.mk .year ⟨2015, 1, 1⟩ 1).contains (Period.mk .month ⟨2015, 12, 1⟩ 1) = .ok true ∧
    (Period.mk .year ⟨2015, 1, 1⟩ 1).contains (Period.mk .week ⟨2015, 12, 28⟩ 1) = .ok false := by
  decide +kernel

theorem Date.eq_mk (c : Date) (y m d : Int) (hy : c.y = y) (hm : c.m = m) (hd : c.d = d) : c = ⟨y, m, d⟩ := by
  cases c; simp only at hy hm hd; rw [hy, hm, hd]

/-- ordinal bounds of the requested range, defaulting to the period's own bounds -/
def rangeLo (p : Period) (a : Option Date) : Int := (a.map ord).getD p.lo
def rangeHi (p : Period) (b : Option Date) : Int := (b.map ord).getD p.hi

/-- `intersection` returns `None` exactly when the day sets are disjoint, and otherwise a period
    (of whatever unit is re-derived) whose days are exactly the common days. -/
theorem C04_intersection_days (p : Period) (hp : p.WF) (a b : Option Date)
    (ha : ∀ x, a = some x → x.Valid) (hb : ∀ x, b = some x → x.Valid)
    (hab : rangeLo p a ≤ rangeHi p b) (r : Option Period)
    (h : p.intersection a b = .ok r) :
    (r = none ↔ min p.hi (rangeHi p b) < max p.lo (rangeLo p a)) ∧
    (∀ q, r = some q → q.lo = max p.lo (rangeLo p a) ∧ q.hi = min p.hi (rangeHi p b)) := by
  have hlh := lo_le_hi p hp
  unfold Period.intersection at h
  split at h
  · -- both bounds absent
    rename_i hnn
    injection h with h
    obtain ⟨h1, h2⟩ := hnn
    have ea : a = none := by cases a <;> simp_all
    have eb : b = none := by cases b <;> simp_all
    subst ea eb
    simp only [rangeLo, rangeHi, Option.map, Option.getD] at hab ⊢
    subst h
    refine ⟨by simp; omega, ?_⟩
    intro q hq; injection hq with hq; subst hq; omega
  · cases hps : p.stop with
    | error e => rw [hps] at h; cases h
    | ok ps =>
      rw [hps] at h
      simp only [bind, Except.bind] at h
      obtain ⟨hpsv, hpso⟩ := stop_spec p hp ps hps
      have hsv := hp.2.1
      -- the effective bounds as dates
      have hav : (a.getD p.start).Valid := by cases a with
        | none => exact hsv
        | some x => exact ha x rfl
      have hbv : (b.getD ps).Valid := by cases b with
        | none => exact hpsv
        | some x => exact hb x rfl
      have hao : ord (a.getD p.start) = rangeLo p a := by
        cases a <;> simp [rangeLo, Period.lo]
      have hbo : ord (b.getD ps) = rangeHi p b := by
        cases b <;> simp [rangeHi, hpso]
      have hlo : p.lo = ord p.start := rfl
      have hlt1 := lt_iff_ord_lt (b.getD ps) p.start hbv hsv
      have hlt2 := lt_iff_ord_lt ps (a.getD p.start) hpsv hav
      split at h
      · rename_i hdis
        injection h with h; subst h
        refine ⟨by simp only [true_iff]; rcases hdis with hd | hd
                   · have := hlt1.1 hd; omega
                   · have := hlt2.1 hd; omega, by intro q hq; cases hq⟩
      · rename_i hdis
        have hnd1 : ¬ ord (b.getD ps) < ord p.start := fun hh => hdis (Or.inl (hlt1.2 hh))
        have hnd2 : ¬ ord ps < ord (a.getD p.start) := fun hh => hdis (Or.inr (hlt2.2 hh))
        obtain ⟨hisv, hiso⟩ := ord_max' p.start (a.getD p.start) hsv hav
        obtain ⟨hiev, hieo⟩ := ord_min' ps (b.getD ps) hpsv hbv
        have hL : ord (Date.max' p.start (a.getD p.start)) = max p.lo (rangeLo p a) := by
          rw [hiso, hao, hlo]
        have hH : ord (Date.min' ps (b.getD ps)) = min p.hi (rangeHi p b) := by
          rw [hieo, hbo, hpso]
        have hne : ¬ (min p.hi (rangeHi p b) < max p.lo (rangeLo p a)) := by omega
        generalize Date.max' p.start (a.getD p.start) = is at *
        generalize Date.min' ps (b.getD ps) = ie at *
        have fin : ∀ q : Period, q.lo = ord is → q.hi = ord ie → r = some q →
            (r = none ↔ min p.hi (rangeHi p b) < max p.lo (rangeLo p a)) ∧
            (∀ q', r = some q' → q'.lo = max p.lo (rangeLo p a) ∧ q'.hi = min p.hi (rangeHi p b)) := by
          intro q h1 h2 hr
          subst hr
          refine ⟨by simp; omega, ?_⟩
          intro q' hq'; injection hq' with hq'; subst hq'; omega
        split at h
        · rename_i hsame
          injection h with h
          exact fin p (by rw [hsame.1]; rfl) (by rw [hsame.2]; exact hpso.symm) h.symm
        · split at h
          · rename_i hy
            injection h with h
            obtain ⟨h1, h2, h3, h4⟩ := hy
            refine fin ⟨.year, is, ie.y - is.y + 1⟩ rfl ?_ h.symm
            have e : is = ⟨is.y, 1, 1⟩ := Date.eq_mk _ _ _ _ rfl h2 h1
            rw [e, hi_year_jan]
            have e2 : ie = ⟨ie.y, 12, 31⟩ := Date.eq_mk _ _ _ _ rfl h4 h3
            rw [e2]; simp only; congr 2; omega
          · split at h
            · cases h
            · split at h
              · rename_i hm
                injection h with h
                obtain ⟨h1, h2⟩ := hm
                refine fin ⟨.month, is, (ie.y - is.y) * 12 + ie.m - is.m + 1⟩ rfl ?_ h.symm
                have e : is = ⟨is.y, is.m, 1⟩ := Date.eq_mk _ _ _ _ rfl rfl h1
                have e2 : ie = ⟨ie.y, ie.m, dim ie.y ie.m⟩ := Date.eq_mk _ _ _ _ rfl rfl h2
                rw [e]; simp only
                rw [hi_month_first is.y is.m ie.y ie.m ⟨hiev.2.1, hiev.2.2.1⟩ hiev.1]
                rw [← e2]
              · split at h
                · injection h with h
                  refine fin ⟨.day, is, ord ie - ord is + 1⟩ rfl ?_ h.symm
                  simp only [Period.hi]; omega
                · cases h

example : (Period.mk .year ⟨2015, 1, 1⟩ 2).intersection (some ⟨2015, 3, 1⟩) (some ⟨2016, 2, 29⟩)
    = .ok (some ⟨.month, ⟨2015, 3, 1⟩, 12⟩) := by decide +kernel

theorem shiftDate_zero (s : Date) (hv : s.Valid) (u : DUnit) : shiftDate s 0 u = s := by
  cases u <;> simp only [shiftDate, addDays, Int.mul_zero, Int.add_zero]
  all_goals first | exact ofOrd_ord s hv | exact addMonths_zero s hv

theorem offsetsFrom_tiles (s : Date) (hv : s.Valid) (u : DUnit) (hu : u ≠ .eternity)
    (hal : (u = .month ∨ u = .year) → s.d = 1) (n : Int) (hn : 0 ≤ n) (qs : List Period)
    (h : offsetsFrom ⟨u, s, 1⟩ u n = .ok qs) :
    Tiles qs (ord s) (ord (shiftDate s n u) - 1) ∧ ∀ q ∈ qs, q.unit = u ∧ q.size = 1 := by
  unfold offsetsFrom at h
  rw [List.range_eq_range'] at h
  have := tiles_range' s hv u hu hal n.toNat 0 qs h
  have e : ((0 + n.toNat : Nat) : Int) = n := by omega
  rw [e] at this
  simpa [shiftDate_zero s hv u] using this

/-- weights of the generated table: a unit never outweighs a larger unit of its family -/
theorem weight_guard_table : ∀ a b : DUnit, b.family = a.family → b.rank ≤ a.rank → a ≠ .eternity →
    ¬ (unitWeight a < unitWeight b) := by
  intro a b; cases a <;> cases b <;> decide +kernel

/-- Splitting into sub-periods of an equal or smaller unit of the same family, from a start
    aligned to that unit, yields consecutive, non-overlapping periods of size one whose union
    is exactly the period. -/
theorem C04_subperiods_tile (p : Period) (u : DUnit) (hp : p.WF)
    (hfam : u.family = p.unit.family) (hle : u.rank ≤ p.unit.rank) (hal : AlignedTo p.start u)
    (qs : List Period) (h : p.subperiods u = .ok qs) :
    Tiles qs p.lo p.hi ∧ ∀ q ∈ qs, q.unit = u ∧ q.size = 1 := by
  obtain ⟨hne, hv, hsz⟩ := hp
  have h1 := ord_pos _ hv
  unfold Period.subperiods at h
  rw [if_neg (weight_guard_table p.unit u hfam hle hne)] at h
  have hlo : p.lo = ord p.start := rfl
  cases hu : u <;> rw [hu] at h hal hfam hle <;> simp only at h
  · -- weekday pieces
    cases hw : p.sizeInWeekdays with
    | error e => rw [hw] at h; cases h
    | ok n =>
      rw [hw] at h; simp only [bind, Except.bind] at h
      have hn : n = p.hi - p.lo + 1 := by
        cases hpu : p.unit <;> rw [hpu] at hfam hle <;> simp only [DUnit.family, DUnit.rank] at hfam hle <;> try omega
        · have := (C04_size_in_smaller_unit p ⟨hne, hv, hsz⟩).2.2.2.1 hpu
          rw [this.1] at hw; injection hw with hw; omega
        · have := (C04_size_in_smaller_unit p ⟨hne, hv, hsz⟩).2.2.1 hpu
          rw [this.2.1] at hw; injection hw with hw; omega
      have hll := lo_le_hi p ⟨hne, hv, hsz⟩
      have := offsetsFrom_tiles p.start hv .weekday (by decide) (by intro h; rcases h with h | h <;> cases h) n (by omega) qs h
      simp only [shiftDate] at this
      rw [ord_addDays _ _ (by omega)] at this
      rw [hlo]; rw [hlo] at hn
      have e : ord p.start + n - 1 = p.hi := by omega
      rw [e] at this; exact this
  · -- week pieces: the period is a week period starting on a Monday
    have hpu : p.unit = .week := by
      cases hpu : p.unit <;> rw [hpu] at hfam hle <;> simp only [DUnit.family, DUnit.rank] at hfam hle <;> first | rfl | omega
    have hfw : p.firstWeek = .ok ⟨.week, p.start, 1⟩ ∨ ∃ e, p.firstWeek = .error e := by
      unfold Period.firstWeek instOffset
      simp only [reduceCtorEq, if_false]
      split
      · have hsw : startOfWeek p.start = p.start := by
          unfold startOfWeek; rw [hal]; simp only [Int.sub_zero]; exact ofOrd_ord _ hv
        rw [hsw]
        unfold chk; split
        · left; rfl
        · right; exact ⟨_, rfl⟩
      · right; exact ⟨_, rfl⟩
    rcases hfw with hfw | ⟨e, hfw⟩
    · rw [hfw] at h
      have hw : p.sizeInWeeks = .ok p.size := by simp only [Period.sizeInWeeks, hpu]
      rw [hw] at h; simp only [bind, Except.bind] at h
      have := offsetsFrom_tiles p.start hv .week (by decide) (by intro h; rcases h with h | h <;> cases h) p.size (by omega) qs h
      simp only [shiftDate] at this
      rw [ord_addDays _ _ (by omega)] at this
      have e : p.hi = ord p.start + 7 * p.size - 1 := by simp only [Period.hi, hpu]
      rw [hlo, e]; exact this
    · rw [hfw] at h; cases h
  · -- day pieces
    cases hw : p.sizeInDays with
    | error e => rw [hw] at h; cases h
    | ok n =>
      rw [hw] at h; simp only [bind, Except.bind] at h
      have hn : n = p.hi - p.lo + 1 := (C04_days_count p ⟨hne, hv, hsz⟩ n).2 hw
      have hll := lo_le_hi p ⟨hne, hv, hsz⟩
      have := offsetsFrom_tiles p.start hv .day (by decide) (by intro h; rcases h with h | h <;> cases h) n (by omega) qs h
      simp only [shiftDate] at this
      rw [ord_addDays _ _ (by omega)] at this
      rw [hlo]; rw [hlo] at hn
      have e : ord p.start + n - 1 = p.hi := by omega
      rw [e] at this; exact this
  · -- month pieces: month or year period starting on the first of a month
    have hal : p.start.d = 1 := hal
    have hfm : p.firstMonth = .ok ⟨.month, p.start, 1⟩ := by
      unfold Period.firstMonth instOffset
      simp only [reduceCtorEq, if_false, bind, Except.bind]
      have : (Date.mk p.start.y p.start.m 1) = p.start := (Date.eq_mk p.start _ _ _ rfl rfl hal).symm
      rw [this]
    rw [hfm] at h
    cases hpu : p.unit <;> rw [hpu] at hfam hle <;> simp only [DUnit.family, DUnit.rank] at hfam hle <;> try omega
    · have hw : p.sizeInMonths = .ok p.size := by simp [Period.sizeInMonths, hpu]
      rw [hw] at h; simp only [bind, Except.bind] at h
      have := offsetsFrom_tiles p.start hv .month (by decide) (fun _ => hal) p.size (by omega) qs h
      simp only [shiftDate] at this
      have e : p.hi = ord (addMonths p.start p.size) - 1 := by simp only [Period.hi, hpu]
      rw [hlo, e]; exact this
    · have hw : p.sizeInMonths = .ok (p.size * 12) := by simp [Period.sizeInMonths, hpu]
      rw [hw] at h; simp only [bind, Except.bind] at h
      have := offsetsFrom_tiles p.start hv .month (by decide) (fun _ => hal) (p.size * 12) (by omega) qs h
      simp only [shiftDate] at this
      have e : p.hi = ord (addMonths p.start (p.size * 12)) - 1 := by
        simp only [Period.hi, hpu]; rw [Int.mul_comm]
      rw [hlo, e]; exact this
  · -- year pieces: a year period starting on 1 January
    have hpu : p.unit = .year := by
      cases hpu : p.unit <;> rw [hpu] at hfam hle <;> simp only [DUnit.family, DUnit.rank] at hfam hle <;> first | rfl | omega
    obtain ⟨halm, hald⟩ : p.start.m = 1 ∧ p.start.d = 1 := hal
    have hty : p.thisYear = .ok ⟨.year, p.start, 1⟩ := by
      unfold Period.thisYear instOffset
      simp only [reduceCtorEq, if_false, bind, Except.bind]
      have : (Date.mk p.start.y 1 1) = p.start := (Date.eq_mk p.start _ _ _ rfl halm hald).symm
      rw [this]
    rw [hty] at h; simp only [bind, Except.bind] at h
    have := offsetsFrom_tiles p.start hv .year (by decide) (fun _ => hald) p.size (by omega) qs h
    simp only [shiftDate] at this
    have e : p.hi = ord (addMonths p.start (12 * p.size)) - 1 := by simp only [Period.hi, hpu]
    rw [hlo, e]; exact this
  · cases h

example : ∃ qs, (Period.mk .month ⟨2020, 2, 1⟩ 1).subperiods .day = .ok qs ∧ qs.length = 29 := by
  refine ⟨_, rfl, ?_⟩; decide +kernel

/-- `get_subperiods` refuses to split a unit into a heavier one (weights from the generated
    table), in particular into any larger unit of its own family. -/
theorem C04_unit_weight_guard (p : Period) (u : DUnit) :
    (unitWeight p.unit < unitWeight u → ∃ e, p.subperiods u = .error e) ∧
    (u.family = p.unit.family → p.unit.rank < u.rank → ∃ e, p.subperiods u = .error e) := by
  have key : unitWeight p.unit < unitWeight u → ∃ e, p.subperiods u = .error e := by
    intro h; unfold Period.subperiods; rw [if_pos h]; exact ⟨_, rfl⟩
  refine ⟨key, ?_⟩
  intro hf hr
  apply key
  revert hf hr
  cases p.unit <;> cases u <;> decide +kernel

theorem ofOrd_nonpos (o : Int) (h : o ≤ 0) : (ofOrd o).y ≤ 0 := by
  unfold ofOrd
  simp only
  split <;> simp only <;> omega

theorem ord_of_valid_ofOrd (o : Int) (h : (ofOrd o).Valid) : 1 ≤ o := by
  by_cases h1 : 1 ≤ o
  · exact h1
  · have := ofOrd_nonpos o (by omega); have := h.1; omega

theorem addDays_back (s : Date) (hv : s.Valid) (k : Int) (hv1 : (addDays s k).Valid) :
    addDays (addDays s k) (-k) = s := by
  have h1 : 1 ≤ ord s + k := ord_of_valid_ofOrd _ hv1
  unfold addDays at *
  rw [ord_ofOrd _ h1]
  have : ord s + k + -k = ord s := by omega
  rw [this]; exact ofOrd_ord s hv

theorem addMonths_back (s : Date) (hv : s.Valid) (k : Int) (hd : s.d ≤ 28) :
    addMonths (addMonths s k) (-k) = s := by
  obtain ⟨_, hm1, hm12, hd1, _⟩ := hv
  simp only [addMonths]
  have d1 := dim_ge ((s.y * 12 + (s.m - 1) + k) / 12) ((s.y * 12 + (s.m - 1) + k) % 12 + 1)
  have e : (s.y * 12 + (s.m - 1) + k) / 12 * 12 + ((s.y * 12 + (s.m - 1) + k) % 12 + 1 - 1) + -k
      = s.y * 12 + (s.m - 1) := by omega
  rw [e]
  have ey : (s.y * 12 + (s.m - 1)) / 12 = s.y := by omega
  have em : (s.y * 12 + (s.m - 1)) % 12 + 1 = s.m := by omega
  rw [ey, em]
  have d2 := dim_ge s.y s.m
  exact (Date.eq_mk s _ _ _ rfl rfl (by omega)).symm

/-- Shifting by `k` units and back returns the original period: always for day, week and
    weekday shifts, and for month and year shifts whenever no end-of-month clipping can occur
    (start day ≤ 28). -/
theorem C04_offset_roundtrip (p : Period) (hv : p.start.Valid) (k : Int) (u : DUnit)
    (hclip : (u = .month ∨ u = .year) → p.start.d ≤ 28) (q r : Period)
    (h1 : p.offset (.n k) (some u) = .ok q) (h2 : q.offset (.n (-k)) (some u) = .ok r) : r = p := by
  obtain ⟨_, hq⟩ := offset_n_ok _ _ _ _ h1
  obtain ⟨hqv, hr⟩ := offset_n_ok _ _ _ _ h2
  rw [hq] at hr hqv
  simp only [Option.getD_some] at hr hqv
  rw [hr]
  have : shiftDate (shiftDate p.start k u) (-k) u = p.start := by
    cases u <;> simp only [shiftDate] at hqv ⊢
    · exact addDays_back _ hv _ hqv
    · have := addDays_back _ hv (7 * k) hqv
      have e : 7 * -k = -(7 * k) := by omega
      rw [e]; exact this
    · exact addDays_back _ hv _ hqv
    · exact addMonths_back _ hv _ (hclip (Or.inl rfl))
    · have := addMonths_back _ hv (12 * k) (hclip (Or.inr rfl))
      have e : 12 * -k = -(12 * k) := by omega
      rw [e]; exact this
    · exact addDays_back _ hv _ hqv
  rw [this]

/-- the hypothesis on clipping is needed: 31 January + 1 month − 1 month = 29 January (2020) -/
theorem C04_offset_clip_counterexample :
    ((Period.mk .month ⟨2020, 1, 31⟩ 1).offset (.n 1) none >>= fun q => q.offset (.n (-1)) none)
      = .ok ⟨.month, ⟨2020, 1, 29⟩, 1⟩ := by decide +kernel

/-- Named reference periods, characterised from the start date. -/
theorem C04_named_periods (p : Period) (hv : p.start.Valid) :
    p.thisYear = .ok ⟨.year, ⟨p.start.y, 1, 1⟩, 1⟩ ∧
    p.firstMonth = .ok ⟨.month, ⟨p.start.y, p.start.m, 1⟩, 1⟩ ∧
    p.firstDay = ⟨.day, p.start, 1⟩ ∧ p.firstWeekday = ⟨.weekday, p.start, 1⟩ ∧
    (∀ q, p.firstWeek = .ok q → q.unit = .week ∧ q.size = 1 ∧ q.start.Valid ∧
        weekday0 (ord q.start) = 0 ∧ ord q.start ≤ ord p.start ∧ ord p.start < ord q.start + 7) ∧
    (∀ q, p.lastMonth = .ok q → q = ⟨.month, addMonths ⟨p.start.y, p.start.m, 1⟩ (-1), 1⟩) ∧
    (∀ q, p.last3Months = .ok q → q = ⟨.month, addMonths ⟨p.start.y, p.start.m, 1⟩ (-3), 3⟩) ∧
    (∀ q, p.lastYear = .ok q → q = ⟨.year, ⟨p.start.y - 1, 1, 1⟩, 1⟩) ∧
    (∀ q, p.n2 = .ok q → q = ⟨.year, ⟨p.start.y - 2, 1, 1⟩, 1⟩) := by
  have hty : p.thisYear = .ok ⟨.year, ⟨p.start.y, 1, 1⟩, 1⟩ := by
    unfold Period.thisYear instOffset; simp only [reduceCtorEq, if_false, bind, Except.bind]
  have hfm : p.firstMonth = .ok ⟨.month, ⟨p.start.y, p.start.m, 1⟩, 1⟩ := by
    unfold Period.firstMonth instOffset; simp only [reduceCtorEq, if_false, bind, Except.bind]
  refine ⟨hty, hfm, rfl, rfl, ?_, ?_, ?_, ?_, ?_⟩
  · intro q hq
    unfold Period.firstWeek instOffset at hq
    simp only [reduceCtorEq, if_false] at hq
    split at hq
    · cases hc : chk (startOfWeek p.start) with
      | error e => rw [hc] at hq; cases hq
      | ok d =>
        rw [hc] at hq
        simp only [Except.map, bind, Except.bind] at hq
        injection hq with hq; subst hq
        obtain ⟨rfl, hy1, _⟩ := chk_ok hc
        have hw := weekday0_range (ord p.start)
        have hpos : 1 ≤ ord p.start - weekday0 (ord p.start) := by
          by_cases hh : 1 ≤ ord p.start - weekday0 (ord p.start)
          · exact hh
          · have := ofOrd_nonpos (ord p.start - weekday0 (ord p.start)) (by omega)
            unfold startOfWeek at hy1; omega
        have ho := ord_startOfWeek p.start hv hpos
        refine ⟨rfl, rfl, ?_, ?_, ?_, ?_⟩
        · exact ofOrd_valid _ hpos
        · exact weekday0_startOfWeek p.start hv hpos
        · simp only; omega
        · simp only; omega
    · cases hq
  · intro q hq
    unfold Period.lastMonth at hq; rw [hfm] at hq; simp only [bind, Except.bind] at hq
    obtain ⟨_, hqe⟩ := offset_n_ok _ _ _ _ hq
    simpa [shiftDate] using hqe
  · intro q hq
    unfold Period.last3Months at hq; rw [hfm] at hq; simp only [bind, Except.bind] at hq
    obtain ⟨_, hqe⟩ := offset_n_ok _ _ _ _ hq
    simpa [shiftDate] using hqe
  · intro q hq
    unfold Period.lastYear at hq; rw [hty] at hq; simp only [bind, Except.bind] at hq
    obtain ⟨_, hqe⟩ := offset_n_ok _ _ _ _ hq
    rw [hqe]; simp only [shiftDate, Option.getD_none]
    rw [addMonths_first _ _ rfl]
    simp only [Period.mk.injEq, Date.mk.injEq, true_and, and_true]
    omega
  · intro q hq
    unfold Period.n2 at hq; rw [hty] at hq; simp only [bind, Except.bind] at hq
    obtain ⟨_, hqe⟩ := offset_n_ok _ _ _ _ hq
    rw [hqe]; simp only [shiftDate, Option.getD_none]
    rw [addMonths_first _ _ rfl]
    simp only [Period.mk.injEq, Date.mk.injEq, true_and, and_true]
    omega

/-! ## first-of / last-of, `Period.date`, transitivity of the sub-period tiling -/

theorem ord_year_bounds (c : Date) (hv : c.Valid) :
    ord ⟨c.y, 1, 1⟩ ≤ ord c ∧ ord c ≤ ord ⟨c.y, 12, 31⟩ := by
  have hy := hv.1
  have v1 : (Date.mk c.y 1 1).Valid := valid_first c.y 1 hy (by omega) (by omega)
  have v2 : (Date.mk c.y 12 31).Valid := ⟨hy, by simp only; omega, by simp only; omega, by simp only; omega, by simp [dim]⟩
  obtain ⟨_, hm1, hm12, hd1, hdd⟩ := hv
  have hd31 := dim_le c.y c.m
  constructor
  · by_cases h : c.m = 1 ∧ c.d = 1
    · have : c = ⟨c.y, 1, 1⟩ := Date.eq_mk c _ _ _ rfl h.1 h.2
      rw [← this]; omega
    · exact Int.le_of_lt (ord_lt_of_lex _ _ v1 ⟨hy, hm1, hm12, hd1, hdd⟩ (Or.inr ⟨rfl, by simp only; omega⟩))
  · by_cases h : c.m = 12 ∧ c.d = 31
    · have : c = ⟨c.y, 12, 31⟩ := Date.eq_mk c _ _ _ rfl h.1 h.2
      rw [← this]; omega
    · exact Int.le_of_lt (ord_lt_of_lex _ _ ⟨hy, hm1, hm12, hd1, hdd⟩ v2 (Or.inr ⟨rfl, by simp only; omega⟩))

/-- `offset("first-of", unit)` lands on the first day of the year / month / ISO week that contains the
    date: an aligned start, not after the date, the date lies inside the one-unit period beginning
    there, and asking again changes nothing (idempotent).  For `day` and `weekday` the code answers
    `None` (second statement). -/
theorem C04_first_of (c : Date) (hv : c.Valid) (u : DUnit) (s : Date)
    (h : instOffset c .firstOf u = .ok (some s)) :
    (u = .year ∨ u = .month ∨ u = .week) ∧ s.Valid ∧ AlignedTo s u ∧
    ord s ≤ ord c ∧ ord c ≤ (Period.mk u s 1).hi ∧
    (s.y ≤ 9999 → instOffset s .firstOf u = .ok (some s)) := by
  have hy := hv.1
  obtain ⟨_, hm1, hm12, hd1, hdd⟩ := hv
  have hv : c.Valid := ⟨hy, hm1, hm12, hd1, hdd⟩
  cases u <;> simp only [instOffset, reduceCtorEq, if_false] at h
  · cases h
  · -- week
    split at h
    · rename_i hok
      cases hc : chk (startOfWeek c) with
      | error e => rw [hc] at h; cases h
      | ok d =>
        rw [hc] at h
        simp only [Except.map] at h
        injection h with h; injection h with h; subst h
        obtain ⟨rfl, hy1, hy2⟩ := chk_ok hc
        have hw := weekday0_range (ord c)
        have hpos : 1 ≤ ord c - weekday0 (ord c) := by
          by_cases hh : 1 ≤ ord c - weekday0 (ord c)
          · exact hh
          · have := ofOrd_nonpos (ord c - weekday0 (ord c)) (by omega)
            unfold startOfWeek at hy1; omega
        have ho := ord_startOfWeek c hv hpos
        have hsv : (startOfWeek c).Valid := ofOrd_valid _ hpos
        have hmon := weekday0_startOfWeek c hv hpos
        refine ⟨Or.inr (Or.inr rfl), hsv, hmon, by omega, ?_, ?_⟩
        · simp only [Period.hi]; omega
        · intro _
          have hidem : startOfWeek (startOfWeek c) = startOfWeek c := by
            show ofOrd (ord (startOfWeek c) - weekday0 (ord (startOfWeek c))) = _
            rw [hmon, Int.sub_zero]; exact ofOrd_ord _ hsv
          simp only [instOffset, reduceCtorEq, if_false]
          rw [if_pos ((dateOk_iff _).2 ⟨hsv, hy2⟩), hidem, hc]; rfl
    · cases h
  · cases h
  · -- month
    injection h with h; injection h with h; subst h
    have hsv : (Date.mk c.y c.m 1).Valid := valid_first c.y c.m hy hm1 hm12
    refine ⟨Or.inr (Or.inl rfl), hsv, rfl, ?_, ?_, fun _ => rfl⟩
    · rw [ord_month_day c]; omega
    · simp only [Period.hi]
      rw [ord_addMonths_one _ hsv rfl, ord_month_day c]; simp only; omega
  · -- year
    injection h with h; injection h with h; subst h
    have hsv : (Date.mk c.y 1 1).Valid := valid_first c.y 1 hy (by omega) (by omega)
    have hb := ord_year_bounds c hv
    refine ⟨Or.inl rfl, hsv, ⟨rfl, rfl⟩, hb.1, ?_, fun _ => rfl⟩
    rw [hi_year_jan]
    have e : c.y + 1 - 1 = c.y := by omega
    rw [e]; exact hb.2
  · cases h

example : instOffset ⟨2021, 1, 3⟩ .firstOf .week = .ok (some ⟨2020, 12, 28⟩) ∧
    instOffset ⟨2021, 1, 3⟩ .firstOf .day = .ok none := by decide +kernel

/-- `offset("last-of", unit)` lands on the last day of the year / month / ISO week that contains the
    date: the last day of the one-unit period that begins at the `first-of` date; it is not before the
    date, and asking again changes nothing. -/
theorem C04_last_of (c : Date) (hv : c.Valid) (u : DUnit) (s e : Date)
    (hs : instOffset c .firstOf u = .ok (some s)) (he : instOffset c .lastOf u = .ok (some e)) :
    e.Valid ∧ ord e = (Period.mk u s 1).hi ∧ ord c ≤ ord e ∧
    instOffset e .lastOf u = .ok (some e) := by
  have hf := C04_first_of c hv u s hs
  have hy := hv.1
  obtain ⟨_, hm1, hm12, hd1, hdd⟩ := hv
  have hv : c.Valid := ⟨hy, hm1, hm12, hd1, hdd⟩
  cases u <;> simp only [instOffset, reduceCtorEq, if_false] at he hs
  · cases he
  · -- week
    split at he
    · rename_i hok
      cases hc : chk (endOfWeek c) with
      | error e => rw [hc] at he; cases he
      | ok d =>
        rw [hc] at he
        simp only [Except.map] at he
        injection he with he; injection he with he; subst he
        obtain ⟨rfl, hy1, hy2⟩ := chk_ok hc
        rw [if_pos hok] at hs
        cases hc2 : chk (startOfWeek c) with
        | error e => rw [hc2] at hs; cases hs
        | ok d2 =>
          rw [hc2] at hs
          simp only [Except.map] at hs
          injection hs with hs; injection hs with hs; subst hs
          obtain ⟨rfl, hz1, _⟩ := chk_ok hc2
          have hw := weekday0_range (ord c)
          have hpos : 1 ≤ ord c - weekday0 (ord c) := by
            by_cases hh : 1 ≤ ord c - weekday0 (ord c)
            · exact hh
            · have := ofOrd_nonpos (ord c - weekday0 (ord c)) (by omega)
              unfold startOfWeek at hz1; omega
          have ho := ord_startOfWeek c hv hpos
          have hoe := ord_endOfWeek c hpos
          have hev : (endOfWeek c).Valid := ofOrd_valid _ (by omega)
          refine ⟨hev, ?_, by omega, ?_⟩
          · simp only [Period.hi]; omega
          · have hwd : weekday0 (ord (endOfWeek c)) = 6 := by
              rw [hoe]; unfold weekday0; omega
            have hidem : endOfWeek (endOfWeek c) = endOfWeek c := by
              show ofOrd (ord (endOfWeek c) - weekday0 (ord (endOfWeek c)) + 6) = _
              rw [hwd]
              have : ord (endOfWeek c) - 6 + 6 = ord (endOfWeek c) := by omega
              rw [this]; exact ofOrd_ord _ hev
            simp only [instOffset, reduceCtorEq, if_false]
            rw [if_pos ((dateOk_iff _).2 ⟨hev, hy2⟩), hidem, hc]; rfl
    · cases he
  · cases he
  · -- month
    injection hs with hs; injection hs with hs; subst hs
    split at he
    · rename_i hok
      injection he with he; injection he with he; subst he
      have hsv := valid_first c.y c.m hy hm1 hm12
      have hev : (endOfMonth c).Valid := ⟨hy, hm1, hm12, by have := dim_ge c.y c.m; simp only [endOfMonth]; omega, by simp only [endOfMonth]; omega⟩
      have hoe := ord_endOfMonth c hv
      refine ⟨hev, ?_, ?_, ?_⟩
      · simp only [Period.hi]
        rw [ord_addMonths_one _ hsv rfl, hoe]
      · rw [hoe, ord_month_day c]; omega
      · simp only [instOffset, reduceCtorEq, if_false]
        rw [if_pos ((dateOk_iff _).2 ⟨hev, ((dateOk_iff _).1 hok).2⟩)]; rfl
    · cases he
  · -- year
    injection hs with hs; injection hs with hs; subst hs
    injection he with he; injection he with he; subst he
    have hb := ord_year_bounds c hv
    refine ⟨⟨hy, by simp only; omega, by simp only; omega, by simp only; omega, by simp [dim]⟩, ?_, hb.2, rfl⟩
    rw [hi_year_jan]
    have e : c.y + 1 - 1 = c.y := by omega
    rw [e]
  · cases he

example : instOffset ⟨2020, 2, 10⟩ .lastOf .month = .ok (some ⟨2020, 2, 29⟩) ∧
    instOffset ⟨2020, 12, 30⟩ .lastOf .week = .ok (some ⟨2021, 1, 3⟩) := by decide +kernel

/-- `Period.date` is the start date, defined for periods of size one only. -/
theorem C04_period_date (p : Period) :
    (p.size ≠ 1 → ∃ e, p.date = .error e) ∧
    (p.size = 1 → p.start.Valid → p.start.y ≤ 9999 → p.date = .ok p.start) ∧
    (∀ d, p.date = .ok d → d = p.start ∧ p.size = 1 ∧ d.Valid) := by
  refine ⟨?_, ?_, ?_⟩
  · intro h; unfold Period.date; rw [if_pos h]; exact ⟨_, rfl⟩
  · intro h hv hy; unfold Period.date
    rw [if_neg (by omega), if_pos ((dateOk_iff _).2 ⟨hv, hy⟩)]
  · intro d h; unfold Period.date at h
    split at h
    · cases h
    · rename_i hs
      split at h
      · rename_i hok
        injection h with h
        exact ⟨h.symm, by omega, h ▸ ((dateOk_iff _).1 hok).1⟩
      · cases h

example : (Period.mk .year ⟨2021, 10, 1⟩ 3).date = .error "value" ∧ (Period.mk .month ⟨2021, 10, 1⟩ 1).date = .ok ⟨2021, 10, 1⟩ := by
  decide +kernel

/-- the month pieces of a period are one-month periods with real start dates -/
theorem subperiods_month_pieces (p : Period) (hv : p.start.Valid) (ms : List Period)
    (h : p.subperiods .month = .ok ms) : ∀ m ∈ ms, m.unit = .month ∧ m.size = 1 ∧ m.start.Valid := by
  intro m hm
  unfold Period.subperiods at h
  split at h
  · cases h
  · simp only at h
    rw [(C04_named_periods p hv).2.1] at h
    simp only [bind, Except.bind] at h
    cases hsz : p.sizeInMonths with
    | error e => rw [hsz] at h; cases h
    | ok n =>
      rw [hsz] at h
      simp only at h
      obtain ⟨hbv, i, hi⟩ := offsetsFrom_pieces _ _ _ _ h m hm
      rw [hi]
      exact ⟨rfl, rfl, shiftDate_valid _ hbv i (Int.natCast_nonneg i) .month⟩

/-- the day pieces of a period are one-day periods, each named by its ordinal -/
theorem subperiods_day_pieces (p : Period) (hv : p.start.Valid) (ds : List Period)
    (h : p.subperiods .day = .ok ds) : ∀ q ∈ ds, IsDayPiece q := by
  intro q hq
  unfold Period.subperiods at h
  split at h
  · cases h
  · simp only at h
    cases hsz : p.sizeInDays with
    | error e => rw [hsz] at h; cases h
    | ok n =>
      rw [hsz] at h
      simp only [bind, Except.bind] at h
      obtain ⟨_, i, hi⟩ := offsetsFrom_pieces _ _ _ _ h q hq
      rw [hi]
      have h1 := ord_pos _ hv
      have hi0 : (0 : Int) ≤ (i : Int) := Int.natCast_nonneg i
      refine ⟨rfl, rfl, ?_⟩
      simp only [Period.firstDay, shiftDate, Period.lo, addDays]
      rw [ord_ofOrd _ (by omega)]

/-- Sub-periods of sub-periods are the sub-periods: splitting a year (or several months) into months
    and every month into days gives consecutive, non-overlapping one-day periods whose union is exactly
    the period — and they are, in order, the very days `get_subperiods(DAY)` returns for the period
    itself. -/
theorem C04_subperiods_transitive (p : Period) (hp : p.WF) (hu : p.unit = .year ∨ p.unit = .month)
    (hal : p.start.d = 1) (ms : List Period) (hm : p.subperiods .month = .ok ms)
    (dss : List (List Period)) (hd : Piecewise (fun m ds => m.subperiods .day = .ok ds) ms dss) :
    Tiles dss.flatten p.lo p.hi ∧ (∀ q ∈ dss.flatten, q.unit = .day ∧ q.size = 1) ∧
    (∀ ds, p.subperiods .day = .ok ds → ds = dss.flatten) := by
  have hv := hp.2.1
  have hfam : DUnit.month.family = p.unit.family ∧ DUnit.month.rank ≤ p.unit.rank ∧
      DUnit.day.family = p.unit.family ∧ DUnit.day.rank ≤ p.unit.rank := by
    rcases hu with hu | hu <;> rw [hu] <;> decide
  obtain ⟨hTm, _⟩ := C04_subperiods_tile p .month hp hfam.1 hfam.2.1 hal ms hm
  have hpieces := subperiods_month_pieces p hv ms hm
  have hwf : ∀ m ∈ ms, m.WF := fun m hmm => by
    obtain ⟨h1, h2, h3⟩ := hpieces m hmm
    exact ⟨by rw [h1]; decide, h3, by omega⟩
  have hT : Piecewise (fun m ds => Tiles ds m.lo m.hi) ms dss :=
    Piecewise.imp ms dss (fun m hmm ds hds => by
      have h1 := (hpieces m hmm).1
      exact (C04_subperiods_tile m .day (hwf m hmm) (by rw [h1]; rfl) (by rw [h1]; decide) trivial ds hds).1) hd
  have hAll : ∀ q ∈ dss.flatten, IsDayPiece q :=
    Piecewise.flatten_all ms dss (fun m hmm ds hds => subperiods_day_pieces m (hwf m hmm).2.1 ds hds) hd
  have hTiles := tiles_flatten ms dss p.lo p.hi hTm hT
  refine ⟨hTiles, fun q hq => ⟨(hAll q hq).1, (hAll q hq).2.1⟩, ?_⟩
  intro ds hds
  obtain ⟨hTd, _⟩ := C04_subperiods_tile p .day hp hfam.2.2.1 hfam.2.2.2 trivial ds hds
  exact tiles_days_unique ds dss.flatten p.lo p.hi hTd hTiles (subperiods_day_pieces p hv ds hds) hAll

example : ∃ ms dss, (Period.mk .month ⟨2020, 2, 1⟩ 2).subperiods .month = .ok ms ∧
    Piecewise (fun m ds => m.subperiods .day = .ok ds) ms dss ∧ dss.flatten.length = 60 := by
  refine ⟨[⟨.month, ⟨2020, 2, 1⟩, 1⟩, ⟨.month, ⟨2020, 3, 1⟩, 1⟩], [_, _], by decide +kernel, ⟨rfl, rfl, trivial⟩, ?_⟩
  decide +kernel

/-- `key_period_size` is a faithful name of the pair (unit weight, size): two periods get the same key
    exactly when their units weigh the same and their sizes are equal. -/
theorem C04_key_period_size_faithful (p q : Period) :
    keyPeriodSize p = keyPeriodSize q ↔ unitWeight p.unit = unitWeight q.unit ∧ p.size = q.size := by
  unfold keyPeriodSize
  constructor
  · intro h
    simp only [List.append_assoc, List.cons_append, List.nil_append] at h
    obtain ⟨h1, h2⟩ := append_sep_inj '_' _ _ _ _ (intText_no_us _) (intText_no_us _) h
    exact ⟨intText_inj _ _ h1, intText_inj _ _ h2⟩
  · intro ⟨h1, h2⟩; rw [h1, h2]


example : keyPeriodSize ⟨.year, ⟨2021, 9, 14⟩, 3⟩ = "300_3".toList := by decide +kernel

/-- the key is a text: compared as text, ten days sort before two days (the decimal size is not padded) -/
example : keyPeriodSize ⟨.day, ⟨2021, 9, 14⟩, 10⟩ < keyPeriodSize ⟨.day, ⟨2021, 9, 14⟩, 2⟩ := by decide +kernel

/-- Every dated period, whatever its unit, splits into its days: `get_subperiods(DAY)` of a year, month,
    week, weekday or day period of any start date yields consecutive one-day periods whose union is
    exactly the period (days tile weeks as well as months: no alignment is needed).  The same holds for
    one-`weekday` pieces of month, week, day and weekday periods (for a year period the code counts whole
    weeks only, see the example below). -/
theorem C04_subperiods_days_any_unit (p : Period) (u : DUnit) (hp : p.WF)
    (hu : u = .day ∨ (u = .weekday ∧ p.unit ≠ .year))
    (qs : List Period) (h : p.subperiods u = .ok qs) :
    Tiles qs p.lo p.hi ∧ ∀ q ∈ qs, q.unit = u ∧ q.size = 1 := by
  obtain ⟨hne, hv, hsz⟩ := hp
  have hp : p.WF := ⟨hne, hv, hsz⟩
  have h1 := ord_pos _ hv
  have hlo : p.lo = ord p.start := rfl
  have hll := lo_le_hi p hp
  unfold Period.subperiods at h
  split at h
  · cases h
  · rcases hu with hu | ⟨hu, hny⟩ <;> subst hu <;> simp only at h
    · cases hw : p.sizeInDays with
      | error e => rw [hw] at h; cases h
      | ok n =>
        rw [hw] at h; simp only [bind, Except.bind] at h
        have hn : n = p.hi - p.lo + 1 := (C04_days_count p hp n).2 hw
        have := offsetsFrom_tiles p.start hv .day (by decide) (by intro h; rcases h with h | h <;> cases h) n (by omega) qs h
        simp only [shiftDate] at this
        rw [ord_addDays _ _ (by omega)] at this
        rw [hlo]; rw [hlo] at hn
        have e : ord p.start + n - 1 = p.hi := by omega
        rw [e] at this; exact this
    · cases hw : p.sizeInWeekdays with
      | error e => rw [hw] at h; cases h
      | ok n =>
        rw [hw] at h; simp only [bind, Except.bind] at h
        have hn : n = p.hi - p.lo + 1 := by
          have hs := C04_size_in_smaller_unit p hp
          cases hpu : p.unit
          · rw [(hs.2.2.2.1 hpu).1] at hw; injection hw with hw; have := (hs.2.2.2.1 hpu).2; omega
          · rw [(hs.2.2.1 hpu).2.1] at hw; injection hw with hw; have := (hs.2.2.1 hpu).2.2; omega
          · simp only [Period.sizeInWeekdays, hpu] at hw; injection hw with hw
            simp only [Period.hi, Period.lo, hpu]; omega
          · simp only [Period.sizeInWeekdays, hpu] at hw
            exact spanDays_spec p hp (Or.inr hpu) n hw
          · exact absurd hpu hny
          · exact absurd hpu hne
        have := offsetsFrom_tiles p.start hv .weekday (by decide) (by intro h; rcases h with h | h <;> cases h) n (by omega) qs h
        simp only [shiftDate] at this
        rw [ord_addDays _ _ (by omega)] at this
        rw [hlo]; rw [hlo] at hn
        have e : ord p.start + n - 1 = p.hi := by omega
        rw [e] at this; exact this

example : ∃ qs, (Period.mk .week ⟨2020, 12, 28⟩ 2).subperiods .day = .ok qs ∧ qs.length = 14 := by
  refine ⟨_, rfl, ?_⟩; decide +kernel

/-- the exception: the `weekday` pieces of a year period are counted in whole weeks (`size_in_weeks * 7`),
    364 for the 365 days of 2019 -/
example : (Period.mk .year ⟨2019, 1, 1⟩ 1).sizeInWeekdays = .ok 364 ∧ (Period.mk .year ⟨2019, 1, 1⟩ 1).days = .ok 365 := by
  decide +kernel

/-- `size_in_weeks` of a year or month period counts the WHOLE weeks in its days (pendulum's
    `in_weeks`): the day count divided by seven, rounded down — 52 for every calendar year.  (This is why
    the `weekday` pieces of a year period, `size_in_weeks * 7` of them, stop short of its last day or two.) -/
theorem C04_size_in_weeks_whole (p : Period) (hp : p.WF) (hu : p.unit = .year ∨ p.unit = .month) (k : Int)
    (h : p.sizeInWeeks = .ok k) : k = (p.hi - p.lo + 1) / 7 ∧ 7 * k ≤ p.hi - p.lo + 1 ∧ p.hi - p.lo + 1 < 7 * k + 7 := by
  have hll := lo_le_hi p hp
  have key : ∀ c : Date, p.hi = ord c - 1 → inWeeks p.start c = (p.hi - p.lo + 1) / 7 := by
    intro c hc
    have hlo : p.lo = ord p.start := rfl
    unfold inWeeks
    simp only
    have : ¬ (ord c - ord p.start < 0) := by omega
    rw [if_neg this]
    congr 1; omega
  have hk : k = (p.hi - p.lo + 1) / 7 := by
    unfold Period.sizeInWeeks at h
    rcases hu with hu | hu <;> rw [hu] at h <;> simp only at h
    · split at h
      · cases hc : chk (addMonths p.start (12 * p.size)) with
        | error e => rw [hc] at h; cases h
        | ok c =>
          rw [hc] at h; simp only [bind, Except.bind] at h
          injection h with h
          obtain ⟨rfl, _, _⟩ := chk_ok hc
          rw [← h]; exact key _ (by simp only [Period.hi, hu])
      · cases h
    · split at h
      · cases hc : chk (addMonths p.start p.size) with
        | error e => rw [hc] at h; cases h
        | ok c =>
          rw [hc] at h; simp only [bind, Except.bind] at h
          injection h with h
          obtain ⟨rfl, _, _⟩ := chk_ok hc
          rw [← h]; exact key _ (by simp only [Period.hi, hu])
      · cases h
  refine ⟨hk, ?_, ?_⟩ <;> omega

example : (Period.mk .year ⟨2019, 1, 1⟩ 1).sizeInWeeks = .ok 52 ∧ (Period.mk .month ⟨2019, 2, 1⟩ 1).sizeInWeeks = .ok 4 := by
  decide +kernel

/-- Shifting an instant by `k` days (weekdays) or weeks moves it by exactly `k` or `7k` days; by `k` months or
    years it lands in the month `k` (12`k`) months later, on the same day of the month unless that month is
    shorter, in which case on its last day. -/
theorem C04_instant_shift (c : Date) (k : Int) (u : DUnit) (d : Date)
    (h : instOffset c (.n k) u = .ok (some d)) :
    c.Valid ∧ d.Valid ∧
    ((u = .day ∨ u = .weekday) → ord d = ord c + k) ∧
    (u = .week → ord d = ord c + 7 * k) ∧
    (u = .month → d = addMonths c k ∧ d.y * 12 + (d.m - 1) = c.y * 12 + (c.m - 1) + k ∧ d.d = min c.d (dim d.y d.m)) ∧
    (u = .year → d = addMonths c (12 * k) ∧ d.y = c.y + k ∧ d.m = c.m ∧ d.d = min c.d (dim d.y d.m)) := by
  obtain ⟨hv, d', hd', hy1, _, hd⟩ := instOffset_n_ok _ _ _ _ h
  injection hd' with hd'; subst hd'
  have hdays : ∀ n : Int, d = addDays c n → d.Valid ∧ ord d = ord c + n := by
    intro n hdn
    have hpos : 1 ≤ ord c + n := by
      by_cases hh : 1 ≤ ord c + n
      · exact hh
      · have := ofOrd_nonpos (ord c + n) (by omega)
        rw [hdn] at hy1; unfold addDays at hy1; omega
    rw [hdn]; exact ⟨addDays_valid _ _ hpos, ord_addDays _ _ hpos⟩
  have hmonths : ∀ n : Int, d = addMonths c n → d.Valid := by
    intro n hdn; rw [hdn]; exact addMonths_valid c n hv (by rw [← hdn]; exact hy1)
  have hdv : d.Valid := by
    cases u <;> simp only [shiftDate] at hd
    · exact (hdays _ hd).1
    · exact (hdays _ hd).1
    · exact (hdays _ hd).1
    · exact hmonths _ hd
    · exact hmonths _ hd
    · exact (hdays _ hd).1
  refine ⟨hv, hdv, ?_, ?_, ?_, ?_⟩
  · intro hu
    have : d = addDays c k := by rcases hu with hu | hu <;> rw [hu] at hd <;> exact hd
    exact (hdays _ this).2
  · intro hu; rw [hu] at hd
    exact (hdays _ hd).2
  · intro hu; rw [hu] at hd
    have hd : d = addMonths c k := hd
    refine ⟨hd, ?_, ?_⟩
    · rw [hd]; simp only [addMonths]; omega
    · rw [hd]; simp only [addMonths]
  · intro hu; rw [hu] at hd
    have hd : d = addMonths c (12 * k) := hd
    have hm := hv.2.1; have hm2 := hv.2.2.1
    refine ⟨hd, ?_, ?_, ?_⟩
    · rw [hd]; simp only [addMonths]; omega
    · rw [hd]; simp only [addMonths]; omega
    · rw [hd]; simp only [addMonths]

example : instOffset ⟨2020, 1, 31⟩ (.n 1) .month = .ok (some ⟨2020, 2, 29⟩) ∧
    instOffset ⟨2020, 2, 29⟩ (.n 1) .year = .ok (some ⟨2021, 2, 28⟩) ∧
    instOffset ⟨2020, 12, 28⟩ (.n 1) .week = .ok (some ⟨2021, 1, 4⟩) := by decide +kernel

end OFCore
