import OFCore.Lemmas.Period
/-!
# C04 — period arithmetic agrees with the calendar

Every dated period denotes the closed interval of proleptic ordinals `[p.lo, p.hi]`
(`hi = ord (start + size units) − 1`).  All theorems quantify over *all* valid start dates
(every year ≥ 1), all positive sizes, all units: no bound.  Where the Python code can raise
(year outside 1..9999 in pendulum) the statement is "if it returns a value, the value is …";
totality inside the representable range is stated separately.
-/
namespace OFCore

/-- The last day of a period is the day before `start + size units`, and it is a real date. -/
theorem C04_stop_is_last_day (p : Period) (h : p.WF) (s : Date) (hs : p.stop = .ok s) :
    s.Valid ∧ ord s = p.hi ∧ p.lo ≤ p.hi :=
  ⟨(stop_spec p h s hs).1, (stop_spec p h s hs).2, lo_le_hi p h⟩

example : (Period.mk .year ⟨2012, 2, 29⟩ 1).WF ∧ (Period.mk .year ⟨2012, 2, 29⟩ 1).stop = .ok ⟨2013, 2, 27⟩ := by
  decide +kernel

/-- `days` and `size_in_days` count exactly the days of the period, for every dated unit. -/
theorem C04_days_count (p : Period) (h : p.WF) (k : Int) :
    (p.days = .ok k → k = p.hi - p.lo + 1) ∧ (p.sizeInDays = .ok k → k = p.hi - p.lo + 1) := by
  constructor
  · intro hk
    unfold Period.days at hk
    cases hs : p.stop with
    | error e => rw [hs] at hk; cases hk
    | ok s =>
      rw [hs] at hk
      simp only [bind, Except.bind] at hk
      split at hk
      · injection hk with hk
        have := (stop_spec p h s hs).2
        unfold Period.lo; omega
      · cases hk
  · intro hk
    obtain ⟨hu, hv, hsz⟩ := h
    unfold Period.sizeInDays at hk
    cases hp : p.unit <;> rw [hp] at hk <;> simp only at hk
    · injection hk with hk; unfold Period.hi Period.lo; simp only [hp]; omega
    · injection hk with hk; unfold Period.hi Period.lo; simp only [hp]; omega
    · injection hk with hk; unfold Period.hi Period.lo; simp only [hp]; omega
    · exact spanDays_spec p ⟨hu, hv, hsz⟩ (Or.inr hp) k hk
    · exact spanDays_spec p ⟨hu, hv, hsz⟩ (Or.inl hp) k hk
    · cases hk

example : (Period.mk .month ⟨2020, 2, 1⟩ 1).days = .ok 29 ∧ (Period.mk .year ⟨2021, 10, 1⟩ 3).sizeInDays = .ok 1096 := by
  decide +kernel

/-- Sizes expressed in a smaller unit of the same family. -/
theorem C04_size_in_smaller_unit (p : Period) (h : p.WF) :
    (p.unit = .year → p.sizeInMonths = .ok (12 * p.size)) ∧
    (p.unit = .month → p.sizeInMonths = .ok p.size) ∧
    (p.unit = .week → p.sizeInDays = .ok (7 * p.size) ∧ p.sizeInWeekdays = .ok (7 * p.size) ∧
        7 * p.size = p.hi - p.lo + 1) ∧
    (p.unit = .weekday → p.sizeInWeekdays = .ok p.size ∧ p.size = p.hi - p.lo + 1) ∧
    (∀ k, (p.unit = .year ∨ p.unit = .month) → p.sizeInDays = .ok k → k = p.hi - p.lo + 1) := by
  refine ⟨?_, ?_, ?_, ?_, ?_⟩
  · intro hu; simp only [Period.sizeInMonths, hu, if_true]; congr 1; omega
  · intro hu; simp [Period.sizeInMonths, hu]
  · intro hu
    refine ⟨?_, ?_, ?_⟩
    · simp only [Period.sizeInDays, hu]; congr 1; omega
    · simp only [Period.sizeInWeekdays, hu]; congr 1; omega
    · unfold Period.hi Period.lo; simp only [hu]; omega
  · intro hu
    refine ⟨by simp only [Period.sizeInWeekdays, hu], ?_⟩
    unfold Period.hi Period.lo; simp only [hu]; omega
  · intro k _ hk; exact (C04_days_count p h k).2 hk

/-- `contains` is inclusion of the day sets. -/
theorem C04_contains_iff_subset (p q : Period) (hp : p.WF) (hq : q.WF) (b : Bool)
    (h : p.contains q = .ok b) : (b = true ↔ p.lo ≤ q.lo ∧ q.hi ≤ p.hi) := by
  unfold Period.contains at h
  have hle := le_iff_ord_le _ _ hp.2.1 hq.2.1
  split at h
  · rename_i hst
    cases hps : p.stop with
    | error e => rw [hps] at h; cases h
    | ok ps =>
      cases hqs : q.stop with
      | error e => rw [hps, hqs] at h; cases h
      | ok qs =>
        rw [hps, hqs] at h
        simp only [bind, Except.bind] at h
        injection h with h
        obtain ⟨hpv, hpo⟩ := stop_spec p hp ps hps
        obtain ⟨hqv, hqo⟩ := stop_spec q hq qs hqs
        have := hle.1 hst
        rw [← h, decide_eq_true_iff, le_iff_ord_le _ _ hqv hpv]
        unfold Period.lo; omega
  · rename_i hst
    injection h with h
    have : ¬ ord p.start ≤ ord q.start := fun hh => hst (hle.2 hh)
    rw [← h]; unfold Period.lo
    constructor
    · intro hf; cases hf
    · intro hc; exact absurd hc.1 this

example : (Period.mk .year ⟨2015, 1, 1⟩ 1).contains (Period.mk .month ⟨2015, 12, 1⟩ 1) = .ok true ∧
    (Period.mk .year ⟨2015, 1, 1⟩ 1).contains (Period.mk .week ⟨2015, 12, 28⟩ 1) = .ok false := by
  decide +kernel

theorem Date.eq_mk (c : Date) (y m d : Int) (hy : c.y = y) (hm : c.m = m) (hd : c.d = d) : c = ⟨y, m, d⟩ := by
  cases c; simp only at hy hm hd; rw [hy, hm, hd]

/-- ordinal bounds of the requested range, defaulting to the period's own bounds -/
def rangeLo (p : Period) (a : Option Date) : Int := (a.map ord).getD p.lo
def rangeHi (p : Period) (b : Option Date) : Int := (b.map ord).getD p.hi

/-- `intersection` returns `None` exactly when the day sets are disjoint, and otherwise a period
    (of whatever unit is re-derived) whose days are exactly the common days. -/
theorem C04_intersection_days (p : Period) (hp : p.WF) (a b : Option Date)
    (ha : ∀ x, a = some x → x.Valid) (hb : ∀ x, b = some x → x.Valid)
    (hab : rangeLo p a ≤ rangeHi p b) (r : Option Period)
    (h : p.intersection a b = .ok r) :
    (r = none ↔ min p.hi (rangeHi p b) < max p.lo (rangeLo p a)) ∧
    (∀ q, r = some q → q.lo = max p.lo (rangeLo p a) ∧ q.hi = min p.hi (rangeHi p b)) := by
  have hlh := lo_le_hi p hp
  unfold Period.intersection at h
  split at h
  · -- both bounds absent
    rename_i hnn
    injection h with h
    obtain ⟨h1, h2⟩ := hnn
    have ea : a = none := by cases a <;> simp_all
    have eb : b = none := by cases b <;> simp_all
    subst ea eb
    simp only [rangeLo, rangeHi, Option.map, Option.getD] at hab ⊢
    subst h
    refine ⟨by simp; omega, ?_⟩
    intro q hq; injection hq with hq; subst hq; omega
  · cases hps : p.stop with
    | error e => rw [hps] at h; cases h
    | ok ps =>
      rw [hps] at h
      simp only [bind, Except.bind] at h
      obtain ⟨hpsv, hpso⟩ := stop_spec p hp ps hps
      have hsv := hp.2.1
      -- the effective bounds as dates
      have hav : (a.getD p.start).Valid := by cases a with
        | none => exact hsv
        | some x => exact ha x rfl
      have hbv : (b.getD ps).Valid := by cases b with
        | none => exact hpsv
        | some x => exact hb x rfl
      have hao : ord (a.getD p.start) = rangeLo p a := by
        cases a <;> simp [rangeLo, Period.lo]
      have hbo : ord (b.getD ps) = rangeHi p b := by
        cases b <;> simp [rangeHi, hpso]
      have hlo : p.lo = ord p.start := rfl
      have hlt1 := lt_iff_ord_lt (b.getD ps) p.start hbv hsv
      have hlt2 := lt_iff_ord_lt ps (a.getD p.start) hpsv hav
      split at h
      · rename_i hdis
        injection h with h; subst h
        refine ⟨by simp only [true_iff]; rcases hdis with hd | hd
                   · have := hlt1.1 hd; omega
                   · have := hlt2.1 hd; omega, by intro q hq; cases hq⟩
      · rename_i hdis
        have hnd1 : ¬ ord (b.getD ps) < ord p.start := fun hh => hdis (Or.inl (hlt1.2 hh))
        have hnd2 : ¬ ord ps < ord (a.getD p.start) := fun hh => hdis (Or.inr (hlt2.2 hh))
        obtain ⟨hisv, hiso⟩ := ord_max' p.start (a.getD p.start) hsv hav
        obtain ⟨hiev, hieo⟩ := ord_min' ps (b.getD ps) hpsv hbv
        have hL : ord (Date.max' p.start (a.getD p.start)) = max p.lo (rangeLo p a) := by
          rw [hiso, hao, hlo]
        have hH : ord (Date.min' ps (b.getD ps)) = min p.hi (rangeHi p b) := by
          rw [hieo, hbo, hpso]
        have hne : ¬ (min p.hi (rangeHi p b) < max p.lo (rangeLo p a)) := by omega
        generalize Date.max' p.start (a.getD p.start) = is at *
        generalize Date.min' ps (b.getD ps) = ie at *
        have fin : ∀ q : Period, q.lo = ord is → q.hi = ord ie → r = some q →
            (r = none ↔ min p.hi (rangeHi p b) < max p.lo (rangeLo p a)) ∧
            (∀ q', r = some q' → q'.lo = max p.lo (rangeLo p a) ∧ q'.hi = min p.hi (rangeHi p b)) := by
          intro q h1 h2 hr
          subst hr
          refine ⟨by simp; omega, ?_⟩
          intro q' hq'; injection hq' with hq'; subst hq'; omega
        split at h
        · rename_i hsame
          injection h with h
          exact fin p (by rw [hsame.1]; rfl) (by rw [hsame.2]; exact hpso.symm) h.symm
        · split at h
          · rename_i hy
            injection h with h
            obtain ⟨h1, h2, h3, h4⟩ := hy
            refine fin ⟨.year, is, ie.y - is.y + 1⟩ rfl ?_ h.symm
            have e : is = ⟨is.y, 1, 1⟩ := Date.eq_mk _ _ _ _ rfl h2 h1
            rw [e, hi_year_jan]
            have e2 : ie = ⟨ie.y, 12, 31⟩ := Date.eq_mk _ _ _ _ rfl h4 h3
            rw [e2]; simp only; congr 2; omega
          · split at h
            · cases h
            · split at h
              · rename_i hm
                injection h with h
                obtain ⟨h1, h2⟩ := hm
                refine fin ⟨.month, is, (ie.y - is.y) * 12 + ie.m - is.m + 1⟩ rfl ?_ h.symm
                have e : is = ⟨is.y, is.m, 1⟩ := Date.eq_mk _ _ _ _ rfl rfl h1
                have e2 : ie = ⟨ie.y, ie.m, dim ie.y ie.m⟩ := Date.eq_mk _ _ _ _ rfl rfl h2
                rw [e]; simp only
                rw [hi_month_first is.y is.m ie.y ie.m ⟨hiev.2.1, hiev.2.2.1⟩ hiev.1]
                rw [← e2]
              · split at h
                · injection h with h
                  refine fin ⟨.day, is, ord ie - ord is + 1⟩ rfl ?_ h.symm
                  simp only [Period.hi]; omega
                · cases h

example : (Period.mk .year ⟨2015, 1, 1⟩ 2).intersection (some ⟨2015, 3, 1⟩) (some ⟨2016, 2, 29⟩)
    = .ok (some ⟨.month, ⟨2015, 3, 1⟩, 12⟩) := by decide +kernel

theorem shiftDate_zero (s : Date) (hv : s.Valid) (u : DUnit) : shiftDate s 0 u = s := by
  cases u <;> simp only [shiftDate, addDays, Int.mul_zero, Int.add_zero]
  all_goals first | exact ofOrd_ord s hv | exact addMonths_zero s hv

theorem offsetsFrom_tiles (s : Date) (hv : s.Valid) (u : DUnit) (hu : u ≠ .eternity)
    (hal : (u = .month ∨ u = .year) → s.d = 1) (n : Int) (hn : 0 ≤ n) (qs : List Period)
    (h : offsetsFrom ⟨u, s, 1⟩ u n = .ok qs) :
    Tiles qs (ord s) (ord (shiftDate s n u) - 1) ∧ ∀ q ∈ qs, q.unit = u ∧ q.size = 1 := by
  unfold offsetsFrom at h
  rw [List.range_eq_range'] at h
  have := tiles_range' s hv u hu hal n.toNat 0 qs h
  have e : ((0 + n.toNat : Nat) : Int) = n := by omega
  rw [e] at this
  simpa [shiftDate_zero s hv u] using this

/-- weights of the generated table: a unit never outweighs a larger unit of its family -/
theorem weight_guard_table : ∀ a b : DUnit, b.family = a.family → b.rank ≤ a.rank → a ≠ .eternity →
    ¬ (unitWeight a < unitWeight b) := by
  intro a b; cases a <;> cases b <;> decide +kernel

/-- Splitting into sub-periods of an equal or smaller unit of the same family, from a start
    aligned to that unit, yields consecutive, non-overlapping periods of size one whose union
    is exactly the period. -/
theorem C04_subperiods_tile (p : Period) (u : DUnit) (hp : p.WF)
    (hfam : u.family = p.unit.family) (hle : u.rank ≤ p.unit.rank) (hal : AlignedTo p.start u)
    (qs : List Period) (h : p.subperiods u = .ok qs) :
    Tiles qs p.lo p.hi ∧ ∀ q ∈ qs, q.unit = u ∧ q.size = 1 := by
  obtain ⟨hne, hv, hsz⟩ := hp
  have h1 := ord_pos _ hv
  unfold Period.subperiods at h
  rw [if_neg (weight_guard_table p.unit u hfam hle hne)] at h
  have hlo : p.lo = ord p.start := rfl
  cases hu : u <;> rw [hu] at h hal hfam hle <;> simp only at h
  · -- weekday pieces
    cases hw : p.sizeInWeekdays with
    | error e => rw [hw] at h; cases h
    | ok n =>
      rw [hw] at h; simp only [bind, Except.bind] at h
      have hn : n = p.hi - p.lo + 1 := by
        cases hpu : p.unit <;> rw [hpu] at hfam hle <;> simp only [DUnit.family, DUnit.rank] at hfam hle <;> try omega
        · have := (C04_size_in_smaller_unit p ⟨hne, hv, hsz⟩).2.2.2.1 hpu
          rw [this.1] at hw; injection hw with hw; omega
        · have := (C04_size_in_smaller_unit p ⟨hne, hv, hsz⟩).2.2.1 hpu
          rw [this.2.1] at hw; injection hw with hw; omega
      have hll := lo_le_hi p ⟨hne, hv, hsz⟩
      have := offsetsFrom_tiles p.start hv .weekday (by decide) (by intro h; rcases h with h | h <;> cases h) n (by omega) qs h
      simp only [shiftDate] at this
      rw [ord_addDays _ _ (by omega)] at this
      rw [hlo]; rw [hlo] at hn
      have e : ord p.start + n - 1 = p.hi := by omega
      rw [e] at this; exact this
  · -- week pieces: the period is a week period starting on a Monday
    have hpu : p.unit = .week := by
      cases hpu : p.unit <;> rw [hpu] at hfam hle <;> simp only [DUnit.family, DUnit.rank] at hfam hle <;> first | rfl | omega
    have hfw : p.firstWeek = .ok ⟨.week, p.start, 1⟩ ∨ ∃ e, p.firstWeek = .error e := by
      unfold Period.firstWeek instOffset
      simp only [reduceCtorEq, if_false]
      split
      · have hsw : startOfWeek p.start = p.start := by
          unfold startOfWeek; rw [hal]; simp only [Int.sub_zero]; exact ofOrd_ord _ hv
        rw [hsw]
        unfold chk; split
        · left; rfl
        · right; exact ⟨_, rfl⟩
      · right; exact ⟨_, rfl⟩
    rcases hfw with hfw | ⟨e, hfw⟩
    · rw [hfw] at h
      have hw : p.sizeInWeeks = .ok p.size := by simp only [Period.sizeInWeeks, hpu]
      rw [hw] at h; simp only [bind, Except.bind] at h
      have := offsetsFrom_tiles p.start hv .week (by decide) (by intro h; rcases h with h | h <;> cases h) p.size (by omega) qs h
      simp only [shiftDate] at this
      rw [ord_addDays _ _ (by omega)] at this
      have e : p.hi = ord p.start + 7 * p.size - 1 := by simp only [Period.hi, hpu]
      rw [hlo, e]; exact this
    · rw [hfw] at h; cases h
  · -- day pieces
    cases hw : p.sizeInDays with
    | error e => rw [hw] at h; cases h
    | ok n =>
      rw [hw] at h; simp only [bind, Except.bind] at h
      have hn : n = p.hi - p.lo + 1 := (C04_days_count p ⟨hne, hv, hsz⟩ n).2 hw
      have hll := lo_le_hi p ⟨hne, hv, hsz⟩
      have := offsetsFrom_tiles p.start hv .day (by decide) (by intro h; rcases h with h | h <;> cases h) n (by omega) qs h
      simp only [shiftDate] at this
      rw [ord_addDays _ _ (by omega)] at this
      rw [hlo]; rw [hlo] at hn
      have e : ord p.start + n - 1 = p.hi := by omega
      rw [e] at this; exact this
  · -- month pieces: month or year period starting on the first of a month
    have hal : p.start.d = 1 := hal
    have hfm : p.firstMonth = .ok ⟨.month, p.start, 1⟩ := by
      unfold Period.firstMonth instOffset
      simp only [reduceCtorEq, if_false, bind, Except.bind]
      have : (Date.mk p.start.y p.start.m 1) = p.start := (Date.eq_mk p.start _ _ _ rfl rfl hal).symm
      rw [this]
    rw [hfm] at h
    cases hpu : p.unit <;> rw [hpu] at hfam hle <;> simp only [DUnit.family, DUnit.rank] at hfam hle <;> try omega
    · have hw : p.sizeInMonths = .ok p.size := by simp [Period.sizeInMonths, hpu]
      rw [hw] at h; simp only [bind, Except.bind] at h
      have := offsetsFrom_tiles p.start hv .month (by decide) (fun _ => hal) p.size (by omega) qs h
      simp only [shiftDate] at this
      have e : p.hi = ord (addMonths p.start p.size) - 1 := by simp only [Period.hi, hpu]
      rw [hlo, e]; exact this
    · have hw : p.sizeInMonths = .ok (p.size * 12) := by simp [Period.sizeInMonths, hpu]
      rw [hw] at h; simp only [bind, Except.bind] at h
      have := offsetsFrom_tiles p.start hv .month (by decide) (fun _ => hal) (p.size * 12) (by omega) qs h
      simp only [shiftDate] at this
      have e : p.hi = ord (addMonths p.start (p.size * 12)) - 1 := by
        simp only [Period.hi, hpu]; rw [Int.mul_comm]
      rw [hlo, e]; exact this
  · -- year pieces: a year period starting on 1 January
    have hpu : p.unit = .year := by
      cases hpu : p.unit <;> rw [hpu] at hfam hle <;> simp only [DUnit.family, DUnit.rank] at hfam hle <;> first | rfl | omega
    obtain ⟨halm, hald⟩ : p.start.m = 1 ∧ p.start.d = 1 := hal
    have hty : p.thisYear = .ok ⟨.year, p.start, 1⟩ := by
      unfold Period.thisYear instOffset
      simp only [reduceCtorEq, if_false, bind, Except.bind]
      have : (Date.mk p.start.y 1 1) = p.start := (Date.eq_mk p.start _ _ _ rfl halm hald).symm
      rw [this]
    rw [hty] at h; simp only [bind, Except.bind] at h
    have := offsetsFrom_tiles p.start hv .year (by decide) (fun _ => hald) p.size (by omega) qs h
    simp only [shiftDate] at this
    have e : p.hi = ord (addMonths p.start (12 * p.size)) - 1 := by simp only [Period.hi, hpu]
    rw [hlo, e]; exact this
  · cases h

example : ∃ qs, (Period.mk .month ⟨2020, 2, 1⟩ 1).subperiods .day = .ok qs ∧ qs.length = 29 := by
  refine ⟨_, rfl, ?_⟩; decide +kernel

/-- `get_subperiods` refuses to split a unit into a heavier one (weights from the generated
    table), in particular into any larger unit of its own family. -/
theorem C04_unit_weight_guard (p : Period) (u : DUnit) :
    (unitWeight p.unit < unitWeight u → ∃ e, p.subperiods u = .error e) ∧
    (u.family = p.unit.family → p.unit.rank < u.rank → ∃ e, p.subperiods u = .error e) := by
  have key : unitWeight p.unit < unitWeight u → ∃ e, p.subperiods u = .error e := by
    intro h; unfold Period.subperiods; rw [if_pos h]; exact ⟨_, rfl⟩
  refine ⟨key, ?_⟩
  intro hf hr
  apply key
  revert hf hr
  cases p.unit <;> cases u <;> decide +kernel

theorem ofOrd_nonpos (o : Int) (h : o ≤ 0) : (ofOrd o).y ≤ 0 := by
  unfold ofOrd
  simp only
  split <;> simp only <;> omega

theorem ord_of_valid_ofOrd (o : Int) (h : (ofOrd o).Valid) : 1 ≤ o := by
  by_cases h1 : 1 ≤ o
  · exact h1
  · have := ofOrd_nonpos o (by omega); have := h.1; omega

theorem addDays_back (s : Date) (hv : s.Valid) (k : Int) (hv1 : (addDays s k).Valid) :
    addDays (addDays s k) (-k) = s := by
  have h1 : 1 ≤ ord s + k := ord_of_valid_ofOrd _ hv1
  unfold addDays at *
  rw [ord_ofOrd _ h1]
  have : ord s + k + -k = ord s := by omega
  rw [this]; exact ofOrd_ord s hv

theorem addMonths_back (s : Date) (hv : s.Valid) (k : Int) (hd : s.d ≤ 28) :
    addMonths (addMonths s k) (-k) = s := by
  obtain ⟨_, hm1, hm12, hd1, _⟩ := hv
  simp only [addMonths]
  have d1 := dim_ge ((s.y * 12 + (s.m - 1) + k) / 12) ((s.y * 12 + (s.m - 1) + k) % 12 + 1)
  have e : (s.y * 12 + (s.m - 1) + k) / 12 * 12 + ((s.y * 12 + (s.m - 1) + k) % 12 + 1 - 1) + -k
      = s.y * 12 + (s.m - 1) := by omega
  rw [e]
  have ey : (s.y * 12 + (s.m - 1)) / 12 = s.y := by omega
  have em : (s.y * 12 + (s.m - 1)) % 12 + 1 = s.m := by omega
  rw [ey, em]
  have d2 := dim_ge s.y s.m
  exact (Date.eq_mk s _ _ _ rfl rfl (by omega)).symm

/-- Shifting by `k` units and back returns the original period: always for day, week and
    weekday shifts, and for month and year shifts whenever no end-of-month clipping can occur
    (start day ≤ 28). -/
theorem C04_offset_roundtrip (p : Period) (hv : p.start.Valid) (k : Int) (u : DUnit)
    (hclip : (u = .month ∨ u = .year) → p.start.d ≤ 28) (q r : Period)
    (h1 : p.offset (.n k) (some u) = .ok q) (h2 : q.offset (.n (-k)) (some u) = .ok r) : r = p := by
  obtain ⟨_, hq⟩ := offset_n_ok _ _ _ _ h1
  obtain ⟨hqv, hr⟩ := offset_n_ok _ _ _ _ h2
  rw [hq] at hr hqv
  simp only [Option.getD_some] at hr hqv
  rw [hr]
  have : shiftDate (shiftDate p.start k u) (-k) u = p.start := by
    cases u <;> simp only [shiftDate] at hqv ⊢
    · exact addDays_back _ hv _ hqv
    · have := addDays_back _ hv (7 * k) hqv
      have e : 7 * -k = -(7 * k) := by omega
      rw [e]; exact this
    · exact addDays_back _ hv _ hqv
    · exact addMonths_back _ hv _ (hclip (Or.inl rfl))
    · have := addMonths_back _ hv (12 * k) (hclip (Or.inr rfl))
      have e : 12 * -k = -(12 * k) := by omega
      rw [e]; exact this
    · exact addDays_back _ hv _ hqv
  rw [this]

/-- the hypothesis on clipping is needed: 31 January + 1 month − 1 month = 29 January (2020) -/
theorem C04_offset_clip_counterexample :
    ((Period.mk .month ⟨2020, 1, 31⟩ 1).offset (.n 1) none >>= fun q => q.offset (.n (-1)) none)
      = .ok ⟨.month, ⟨2020, 1, 29⟩, 1⟩ := by decide +kernel

/-- Named reference periods, characterised from the start date. -/
theorem C04_named_periods (p : Period) (hv : p.start.Valid) :
    p.thisYear = .ok ⟨.year, ⟨p.start.y, 1, 1⟩, 1⟩ ∧
    p.firstMonth = .ok ⟨.month, ⟨p.start.y, p.start.m, 1⟩, 1⟩ ∧
    p.firstDay = ⟨.day, p.start, 1⟩ ∧ p.firstWeekday = ⟨.weekday, p.start, 1⟩ ∧
    (∀ q, p.firstWeek = .ok q → q.unit = .week ∧ q.size = 1 ∧ q.start.Valid ∧
        weekday0 (ord q.start) = 0 ∧ ord q.start ≤ ord p.start ∧ ord p.start < ord q.start + 7) ∧
    (∀ q, p.lastMonth = .ok q → q = ⟨.month, addMonths ⟨p.start.y, p.start.m, 1⟩ (-1), 1⟩) ∧
    (∀ q, p.last3Months = .ok q → q = ⟨.month, addMonths ⟨p.start.y, p.start.m, 1⟩ (-3), 3⟩) ∧
    (∀ q, p.lastYear = .ok q → q = ⟨.year, ⟨p.start.y - 1, 1, 1⟩, 1⟩) ∧
    (∀ q, p.n2 = .ok q → q = ⟨.year, ⟨p.start.y - 2, 1, 1⟩, 1⟩) := by
  have hty : p.thisYear = .ok ⟨.year, ⟨p.start.y, 1, 1⟩, 1⟩ := by
    unfold Period.thisYear instOffset; simp only [reduceCtorEq, if_false, bind, Except.bind]
  have hfm : p.firstMonth = .ok ⟨.month, ⟨p.start.y, p.start.m, 1⟩, 1⟩ := by
    unfold Period.firstMonth instOffset; simp only [reduceCtorEq, if_false, bind, Except.bind]
  refine ⟨hty, hfm, rfl, rfl, ?_, ?_, ?_, ?_, ?_⟩
  · intro q hq
    unfold Period.firstWeek instOffset at hq
    simp only [reduceCtorEq, if_false] at hq
    split at hq
    · cases hc : chk (startOfWeek p.start) with
      | error e => rw [hc] at hq; cases hq
      | ok d =>
        rw [hc] at hq
        simp only [Except.map, bind, Except.bind] at hq
        injection hq with hq; subst hq
        obtain ⟨rfl, hy1, _⟩ := chk_ok hc
        have hw := weekday0_range (ord p.start)
        have hpos : 1 ≤ ord p.start - weekday0 (ord p.start) := by
          by_cases hh : 1 ≤ ord p.start - weekday0 (ord p.start)
          · exact hh
          · have := ofOrd_nonpos (ord p.start - weekday0 (ord p.start)) (by omega)
            unfold startOfWeek at hy1; omega
        have ho := ord_startOfWeek p.start hv hpos
        refine ⟨rfl, rfl, ?_, ?_, ?_, ?_⟩
        · exact ofOrd_valid _ hpos
        · exact weekday0_startOfWeek p.start hv hpos
        · simp only; omega
        · simp only; omega
    · cases hq
  · intro q hq
    unfold Period.lastMonth at hq; rw [hfm] at hq; simp only [bind, Except.bind] at hq
    obtain ⟨_, hqe⟩ := offset_n_ok _ _ _ _ hq
    simpa [shiftDate] using hqe
  · intro q hq
    unfold Period.last3Months at hq; rw [hfm] at hq; simp only [bind, Except.bind] at hq
    obtain ⟨_, hqe⟩ := offset_n_ok _ _ _ _ hq
    simpa [shiftDate] using hqe
  · intro q hq
    unfold Period.lastYear at hq; rw [hty] at hq; simp only [bind, Except.bind] at hq
    obtain ⟨_, hqe⟩ := offset_n_ok _ _ _ _ hq
    rw [hqe]; simp only [shiftDate, Option.getD_none]
    rw [addMonths_first _ _ rfl]
    simp only [Period.mk.injEq, Date.mk.injEq, true_and, and_true]
    omega
  · intro q hq
    unfold Period.n2 at hq; rw [hty] at hq; simp only [bind, Except.bind] at hq
    obtain ⟨_, hqe⟩ := offset_n_ok _ _ _ _ hq
    rw [hqe]; simp only [shiftDate, Option.getD_none]
    rw [addMonths_first _ _ rfl]
    simp only [Period.mk.injEq, Date.mk.injEq, true_and, and_true]
    omega

end OFCore
