/-!
# Enumeration codec — executable model of `openfisca_core/indexed_enums`

Models (repaired tree): `Enum.encode`, `Enum._encode_array`, `Enum._encode_array_like`
(`enum.py`), the guards of `_guards.py`, `_enum_to_index`, `_int_to_index`, `_str_to_index`
(`_utils.py`), `EnumArray.decode` and `EnumArray.decode_to_str` (`enum_array.py`).

* An enumeration is the list of its member names in declaration order; the index of a member
  is its position (`Enum.__init__`: `self.index = len(self._member_names_)`), `cid` stands for
  what the class test on every element compares (`cls == item.__class__`, by `EnumType.__eq__`
  the identity of the class *name*).
* Indices are natural numbers: the width of `EnumDType` (`uint8`) is not modelled (the
  property quantifies over 1..200 members, where `astype(uint8)` is the identity).
* `numpy.argsort` is modelled by a (stable) insertion sort of `(name, index)` pairs,
  `numpy.searchsorted(names, v, sorter=sorter)` by the leftmost binary search of numpy's
  `npy_binsearch` (`side="left"`), `numpy.isin` by list membership, boolean-mask reads by
  `List.filter`. Strings are ordered by code point, as numpy orders `str_` arrays.

Import-free. The second half of the file is the specification vocabulary used by the theorems
of `Props/C15.lean` (which element designates a member, which inputs are rejected).
-/
namespace OFCore.EnumCodec

/-! ## Data -/

structure Enumeration where
  /-- what the class test `cls == item.__class__` compares (`EnumType.__eq__`: the identity of
  the class name) -/
  cid : Nat
  /-- `_member_names_`, declaration order -/
  names : List String
  deriving Repr

def Enumeration.size (e : Enumeration) : Nat := e.names.length

/-- What one element of an input sequence / object array can be. -/
inductive Elem
  /-- a Python `int` (or the item of an integer array): any integer, any sign -/
  | int (v : Int)
  /-- a `str` -/
  | str (s : String)
  /-- an instance of an `Enum` class: the class and the member's index in *that* class -/
  | member (cls : Nat) (idx : Nat)
  /-- anything else: `float`, `None`, `bytes`, a numpy scalar, … -/
  | other
  deriving DecidableEq, Repr

/-- `EnumArray`: an index array tagged with its `possible_values`. -/
structure EnumArray where
  owner : Nat
  idx : List Nat
  deriving DecidableEq, Repr

/-- The argument of `Enum.encode`. -/
inductive Input
  /-- already an `EnumArray` -/
  | encoded (a : EnumArray)
  /-- a `collections.abc.Sequence` (list, tuple): elements of any kinds, possibly mixed -/
  | seq (xs : List Elem)
  /-- `numpy.ndarray` of one of the eight integer dtypes -/
  | intArr (vs : List Int)
  /-- `numpy.ndarray` of dtype `str_` -/
  | strArr (ss : List String)
  /-- `numpy.ndarray` of dtype `object_`: elements of any kinds -/
  | objArr (xs : List Elem)
  /-- `numpy.ndarray` of any other dtype (`float64`, `bool_`, `bytes_`, …) of that length -/
  | otherArr (len : Nat)
  /-- a 0-dimensional `numpy.ndarray` (of any dtype) holding that element: it has no `len()` -/
  | scalarArr (x : Elem)
  deriving DecidableEq, Repr

/-- `len(array)` -/
def Input.len : Input → Nat
  | .encoded a => a.idx.length
  | .seq xs => xs.length
  | .intArr vs => vs.length
  | .strArr ss => ss.length
  | .objArr xs => xs.length
  | .otherArr n => n
  | .scalarArr _ => 1     -- never read: `len()` of a 0-d array raises before anything else

/-! ## Declaration of an enumeration, with aliases (`Enum.__init__`, `EnumType.__new__`)

A class body binds names to values, in order.  A name bound to a value that an earlier name is
already bound to is an ALIAS: it creates no member, `cls[alias]` is the earlier (canonical)
member.  Python's `EnumType` keeps the canonical names in `_member_names_` and all names in
`__members__`; `Enum.__init__` runs when a member is created and sets
`self.index = len(self._member_names_)`; `EnumType.__new__` of this package then builds
`names = _member_names_`, `indices = arange(len(cls))`, `enums = list(cls)` (canonical members
only).  Values are compared by equality and are represented by naturals. -/

/-- the state of the class under construction -/
structure DeclState where
  /-- `_member_names_`: the canonical names, declaration order -/
  names : List String := []
  /-- the value of each canonical member -/
  values : List Nat := []
  /-- `__members__`: every name, canonical or alias, with the `index` of the member it denotes -/
  members : List (String × Nat) := []
  deriving Repr

/-- position of the first element equal to `v` -/
def valueIndex? : List Nat → Nat → Option Nat
  | [], _ => none
  | w :: ws, v => if w = v then some 0 else (valueIndex? ws v).map (· + 1)

/-- one binding `name = value` of the class body -/
def declStep (st : DeclState) (b : String × Nat) : DeclState :=
  match valueIndex? st.values b.2 with
  | some i => { st with members := st.members ++ [(b.1, i)] }     -- alias of the member of index i
  | none =>
    -- a new member: `Enum.__init__` gives it `index = len(_member_names_)`, then its name is appended
    { names := st.names ++ [b.1], values := st.values ++ [b.2],
      members := st.members ++ [(b.1, st.names.length)] }

/-- the class body, binding after binding -/
def declare (bindings : List (String × Nat)) : DeclState := bindings.foldl declStep {}

/-- the enumeration a class body declares: its `names` table is `_member_names_` -/
def declared (cid : Nat) (bindings : List (String × Nat)) : Enumeration := ⟨cid, (declare bindings).names⟩

/-- `cls[name]` / `getattr(cls, name)`: the index of the member a name (canonical or alias) denotes -/
def memberOf? (bindings : List (String × Nat)) (name : String) : Option Nat :=
  ((declare bindings).members.find? (fun m => m.1 = name)).map (·.2)

/-! ## Guards (`_guards.py`) -/

def Elem.isInt : Elem → Bool | .int _ => true | _ => false
def Elem.isStr : Elem → Bool | .str _ => true | _ => false
def Elem.isEnum : Elem → Bool | .member _ _ => true | _ => false

/-- `cls == item.__class__` (an item that is no `Enum` instance never has class `cls`) -/
def Elem.hasClass (c : Nat) : Elem → Bool | .member c' _ => c == c' | _ => false

def Elem.intVal : Elem → Int | .int v => v | _ => 0
def Elem.strVal : Elem → String | .str s => s | _ => ""
def Elem.indexAttr : Elem → Nat | .member _ i => i | _ => 0

/-- `_is_int_array_like`: `all(isinstance(item, int) for item in array)` -/
def isIntArrayLike (xs : List Elem) : Bool := xs.all Elem.isInt
/-- `_is_str_array_like` -/
def isStrArrayLike (xs : List Elem) : Bool := xs.all Elem.isStr
/-- `_is_enum_array_like` -/
def isEnumArrayLike (xs : List Elem) : Bool := xs.all Elem.isEnum

/-! ## `_utils.py` -/

/-- `_enum_to_index`: `numpy.array([enum.index for enum in value])` -/
def enumToIndex (xs : List Elem) : List Nat := xs.map Elem.indexAttr

/-- `_int_to_index`: `values[(values >= 0) & (values < indices.size)].astype(EnumDType)` -/
def intToIndex (n : Nat) (vs : List Int) : List Nat :=
  (vs.filter (fun v => decide (0 ≤ v) && decide (v < (n : Int)))).map Int.toNat

/-- the names paired with their positions, starting at `k` -/
def indexed : Nat → List String → List (String × Nat)
  | _, [] => []
  | k, s :: ss => (s, k) :: indexed (k + 1) ss

def insertPair (p : String × Nat) : List (String × Nat) → List (String × Nat)
  | [] => [p]
  | q :: qs => if q.1 < p.1 then q :: insertPair p qs else p :: q :: qs

/-- insertion sort by name -/
def sortPairs : List (String × Nat) → List (String × Nat)
  | [] => []
  | p :: ps => insertPair p (sortPairs ps)

/-- `numpy.argsort(names)` -/
def argsort (names : List String) : List Nat := (sortPairs (indexed 0 names)).map Prod.snd

/-- `names[sorter]`: the names in increasing order -/
def sortedNames (names : List String) : List String := (sortPairs (indexed 0 names)).map Prod.fst

/-- numpy's `npy_binsearch`, `side = "left"`:
`while lo < hi: mid = lo + (hi - lo) // 2; if keys[mid] < v: lo = mid + 1 else: hi = mid`.
The first argument bounds the number of iterations (`hi - lo` is enough). -/
def bsearchLeft (keys : List String) (v : String) : Nat → Nat → Nat → Nat
  | 0, lo, _ => lo
  | fuel + 1, lo, hi =>
    if lo < hi then
      let mid := lo + (hi - lo) / 2
      if keys.getD mid "" < v then bsearchLeft keys v fuel (mid + 1) hi
      else bsearchLeft keys v fuel lo mid
    else lo

/-- `numpy.searchsorted(names, v, sorter=sorter)` on the sorted names -/
def searchsortedLeft (keys : List String) (v : String) : Nat :=
  bsearchLeft keys v keys.length 0 keys.length

/-- apply a partial function to every element, first error wins -/
def allOk {α β : Type} (f : α → Except String β) : List α → Except String (List β)
  | [] => .ok []
  | a :: as =>
    match f a with
    | .error m => .error m
    | .ok b =>
      match allOk f as with
      | .error m => .error m
      | .ok bs => .ok (b :: bs)

/-- `sorter[numpy.searchsorted(names, v, sorter=sorter)]` for one value -/
def lookupSorted (names : List String) (v : String) : Except String Nat :=
  match (argsort names)[searchsortedLeft (sortedNames names) v]? with
  | some i => .ok i
  | none => .error "IndexError"

/-- `_str_to_index`: `mask = isin(values, names); sorter = argsort(names);
sorter[searchsorted(names, values[mask], sorter=sorter)]` -/
def strToIndex (names : List String) (ss : List String) : Except String (List Nat) :=
  allOk (lookupSorted names) (ss.filter (fun s => decide (s ∈ names)))

/-! ## `Enum.encode` -/

/-- `if indices.size != len(value): raise EnumMemberNotFoundError` / `EnumArray(indices, cls)` -/
def checkSize (e : Enumeration) (len : Nat) (indices : List Nat) : Except String EnumArray :=
  if indices.length ≠ len then .error "EnumMemberNotFoundError" else .ok ⟨e.cid, indices⟩

/-- `Enum._encode_array_like` (sequences) -/
def encodeSeq (e : Enumeration) (xs : List Elem) : Except String EnumArray :=
  if isIntArrayLike xs then
    checkSize e xs.length (intToIndex e.size (xs.map Elem.intVal))
  else if isStrArrayLike xs then
    match strToIndex e.names (xs.map Elem.strVal) with
    | .error m => .error m
    | .ok indices => checkSize e xs.length indices
  else if isEnumArrayLike xs && xs.all (Elem.hasClass e.cid) then
    checkSize e xs.length (enumToIndex xs)
  else .error "EnumEncodingError"

/-- `Enum._encode_array` (numpy arrays, dispatch on the dtype) -/
def encodeArr (e : Enumeration) : Input → Except String EnumArray
  | .intArr vs => checkSize e vs.length (intToIndex e.size vs)
  | .strArr ss =>
    match strToIndex e.names ss with
    | .error m => .error m
    | .ok indices => checkSize e ss.length indices
  | .objArr xs =>
    if xs.all (Elem.hasClass e.cid) then checkSize e xs.length (enumToIndex xs)
    else .error "EnumEncodingError"
  | _ => .error "EnumEncodingError"

/-- `Enum.encode` -/
def encode (e : Enumeration) (x : Input) : Except String EnumArray :=
  match x with
  | .encoded a => .ok a                                   -- isinstance(array, EnumArray)
  | .scalarArr _ => .error "TypeError"                    -- len() of unsized object
  | _ =>
    if x.len = 0 then .ok ⟨e.cid, []⟩                     -- len(array) == 0
    else match x with
      | .seq xs => encodeSeq e xs                         -- isinstance(array, Sequence)
      | _ => encodeArr e x

/-! ## `EnumArray.decode`, `EnumArray.decode_to_str`

`e` is the array's `possible_values`; an index outside the table is numpy's `IndexError`. -/

def decode (e : Enumeration) (a : EnumArray) : Except String (List Elem) :=
  allOk (fun i => if i < e.size then .ok (Elem.member e.cid i) else .error "IndexError") a.idx

def decodeToStr (e : Enumeration) (a : EnumArray) : Except String (List String) :=
  allOk (fun i => match e.names[i]? with | some s => .ok s | none => .error "IndexError") a.idx

/-- one selected position -/
def pick (idx : List Nat) (p : Nat) : Except String Nat :=
  match idx[p]? with
  | some i => .ok i
  | none => .error "IndexError"

/-- Re-indexing an `EnumArray` through the ndarray API (`a[positions]`; a slice, a boolean
mask, `a[::-1]`, `take`, `repeat`, `copy`, `view` are the same thing with the positions they
select): the result is an `EnumArray` of the same enumeration (`__array_finalize__` copies
`possible_values`) holding the selected indices. Positions are non-negative; one outside the
array is numpy's `IndexError`. -/
def EnumArray.take (a : EnumArray) (positions : List Nat) : Except String EnumArray :=
  match allOk (pick a.idx) positions with
  | .error m => .error m
  | .ok idx => .ok ⟨a.owner, idx⟩

/-! ## The operators of `EnumArray` (`enum_array.py`): `==`, `!=`, the forbidden ones

What formulas write: `housing == Housing.owner`, `status != Status.single`.  `n` is the number of
members of the array's own `possible_values` (only the comparison with the enumeration class
itself reads it).  -/

/-- what a comparison returns: a boolean `ndarray`, or a Python / numpy scalar -/
inductive CmpRes
  | vec (bs : List Bool)
  | scalar (b : Bool)
  deriving DecidableEq, Repr

/-- the right operand of `==` / `!=` -/
inductive Operand
  /-- `None` -/
  | none_
  /-- an `Enum` class (not an instance) with `k` members; `c` is what the class test compares -/
  | cls (c : Nat) (k : Nat)
  /-- one Python object: an `int`, a `str`, a member of some enumeration, anything else -/
  | elem (x : Elem)
  /-- a list / tuple / `ndarray` of integers -/
  | ints (vs : List Int)
  /-- a list / tuple / `ndarray` of `len` things an integer never equals (strings, `Enum`
  instances, `None`): numpy compares element by element and finds no equality -/
  | blind (len : Nat)
  /-- another `EnumArray` (of whatever enumeration: only its indices are compared) -/
  | arr (b : EnumArray)
  deriving DecidableEq, Repr

/-- length of `numpy.broadcast(x, y)` for two 1-d shapes; shapes that do not match raise -/
def bcastLen (l k : Nat) : Except String Nat :=
  if l = k then .ok l else if k = 1 then .ok l else if l = 1 then .ok k
  else .error "ValueError: operands could not be broadcast together"

/-- element-wise `x == y` with numpy broadcasting of 1-d operands -/
def bcastEq {α β} (f : α → β → Bool) (xs : List α) (ys : List β) : Except String (List Bool) :=
  if xs.length = ys.length then .ok (List.zipWith f xs ys)
  else match ys with
    | [y] => .ok (xs.map fun x => f x y)
    | [] | _ :: _ :: _ =>
      match xs with
      | [x] => .ok (ys.map fun y => f x y)
      | [] | _ :: _ :: _ => .error "ValueError: operands could not be broadcast together"

/-- Python's `max(self)` over the items of a 1-d array (`none` for an empty one: `ValueError`) -/
def maxIdx : List Nat → Option Nat
  | [] => none
  | i :: is => some (is.foldl Nat.max i)

/-- `EnumArray.__eq__(self, other)`; an array whose `possible_values` is `None` is not modelled -/
def eqOp (n : Nat) (a : EnumArray) : Operand → Except String CmpRes
  -- `if other is None: return NotImplemented`; Python then falls back to identity: `False`
  | .none_ => .ok (.scalar false)
  -- `isinstance(other, type(Enum)) and other == self.possible_values`:
  --   `view == indices[indices <= max(self)]`
  | .cls c k =>
    if c = a.owner then
      match maxIdx a.idx with
      | none => .error "ValueError: max() arg is an empty sequence"
      | some mx =>
        match bcastEq (fun i j => i == j) a.idx ((List.range n).filter fun j => decide (j ≤ mx)) with
        | .error m => .error m
        | .ok bs => .ok (.vec bs)
    else
      -- another class: numpy turns it into the object array of its members, none equal to an index
      match bcastLen a.idx.length k with
      | .error m => .error m
      | .ok l => .ok (.vec (List.replicate l false))
  -- `isinstance(other, Enum) and other.__class__ == self.possible_values`: `view == other.index`
  | .elem (.member c i) =>
    if c = a.owner then .ok (.vec (a.idx.map fun j => j == i))
    else .ok (.vec (a.idx.map fun _ => false))
  -- `view == other` by numpy
  | .elem (.int v) => .ok (.vec (a.idx.map fun (j : Nat) => (j : Int) == v))
  | .elem (.str _) => .ok (.vec (a.idx.map fun _ => false))
  | .elem .other => .ok (.vec (a.idx.map fun _ => false))
  | .ints vs =>
    match bcastEq (fun (j : Nat) (v : Int) => (j : Int) == v) a.idx vs with
    | .error m => .error m
    | .ok bs => .ok (.vec bs)
  | .blind k =>
    match bcastLen a.idx.length k with
    | .error m => .error m
    | .ok l => .ok (.vec (List.replicate l false))
  | .arr b =>
    match bcastEq (fun i j => i == j) a.idx b.idx with
    | .error m => .error m
    | .ok bs => .ok (.vec bs)

/-- `numpy.logical_not` -/
def CmpRes.not : CmpRes → CmpRes
  | .vec bs => .vec (bs.map (!·))
  | .scalar b => .scalar (!b)

/-- `EnumArray.__ne__`: `numpy.logical_not(self == other)` -/
def neOp (n : Nat) (a : EnumArray) (o : Operand) : Except String CmpRes :=
  match eqOp n a o with
  | .error m => .error m
  | .ok r => .ok r.not

/-- the operators bound to `_forbidden_operation` -/
inductive ForbiddenOp | add | mul | lt | le | gt | ge | and_ | or_
  deriving DecidableEq, Repr

/-- `__add__ = __mul__ = __lt__ = __le__ = __gt__ = __ge__ = __and__ = __or__ =
_forbidden_operation`: raises `TypeError` whatever the operands -/
def forbiddenOp (_op : ForbiddenOp) (_a : EnumArray) (_o : Operand) : Except String CmpRes :=
  .error "TypeError: Forbidden operation"

/-! ## Specification vocabulary (used by `Props/C15.lean`) -/

/-- lookup by name: the position of the first member called `s` -/
def nameIndex? : List String → String → Option Nat
  | [], _ => none
  | n :: ns, s => if n = s then some 0 else (nameIndex? ns s).map (· + 1)

inductive Kind | int | str | enum | other
  deriving DecidableEq, Repr

def Elem.kind : Elem → Kind
  | .int _ => .int | .str _ => .str | .member _ _ => .enum | .other => .other

/-- The element designates a member of `e`: an index within `0 ≤ v < n`, a declared name, or
an instance of the class itself. -/
def Elem.Designates (e : Enumeration) : Elem → Prop
  | .int v => 0 ≤ v ∧ v < (e.size : Int)
  | .str s => s ∈ e.names
  | .member c _ => c = e.cid
  | .other => False

instance (e : Enumeration) (x : Elem) : Decidable (x.Designates e) := by
  cases x <;> unfold Elem.Designates <;> infer_instance

/-- index of the member an element designates (`0` when it designates none) -/
def Elem.index (e : Enumeration) : Elem → Nat
  | .int v => v.toNat
  | .str s => (nameIndex? e.names s).getD 0
  | .member _ i => i
  | .other => 0

/-- the elements an input holds, in order -/
def Input.elems : Input → List Elem
  | .encoded a => a.idx.map (Elem.member a.owner)
  | .seq xs => xs
  | .intArr vs => vs.map Elem.int
  | .strArr ss => ss.map Elem.str
  | .objArr xs => xs
  | .otherArr n => List.replicate n Elem.other
  | .scalarArr x => [x]

/-- all elements are of one kind (int / str / Enum instance / other) -/
def SameKind (xs : List Elem) : Prop := ∀ x ∈ xs, ∀ y ∈ xs, x.kind = y.kind

/-- all elements are of one kind -/
instance (xs : List Elem) : Decidable (SameKind xs) := by unfold SameKind; infer_instance

/-- A fact of the Python object model that `encode` does not check: an instance of a class
that passes the class test `cls == item.__class__` carries an index `< n`. `EnumType.__eq__`
compares classes by (the identity of) their name, so this holds when the only classes that
compare equal to `e` are `e` itself or re-imports of the same declaration; it fails for a
*different* enumeration declared under the same class name (finding F-C15b). -/
def Elem.WF (e : Enumeration) : Elem → Prop
  | .member c i => c = e.cid → i < e.size
  | _ => True

instance (e : Enumeration) (x : Elem) : Decidable (x.WF e) := by
  cases x <;> unfold Elem.WF <;> infer_instance

/-- Every `Enum` instance held by the input is well formed. (For an `EnumArray` of `e` handed
to `encode`: it holds valid indices, i.e. it was produced by `encode` and not assembled by hand
from arbitrary integers.) -/
def Input.WF (e : Enumeration) (x : Input) : Prop := ∀ el ∈ x.elems, el.WF e

instance (e : Enumeration) (x : Input) : Decidable (x.WF e) := by unfold Input.WF; infer_instance

/-- `x` is not an `EnumArray` of another enumeration (such an array is returned untouched,
still tagged with its own enumeration). -/
def Input.NotForeignArray (e : Enumeration) : Input → Prop
  | .encoded a => a.owner = e.cid
  | _ => True

/-- What the repaired `encode` refuses. An `EnumArray` is never refused; an empty input of any
container is never refused; otherwise a *sequence* is refused iff some element designates no
member or the kinds are mixed, a typed numpy array iff some element designates no member, an
object array iff some element is not an instance of the class, an array of any other dtype
always, a 0-dimensional array always (whatever it holds). -/
def Input.Rejected (e : Enumeration) : Input → Prop
  | .encoded _ => False
  | .seq xs => xs ≠ [] ∧ ((∃ x ∈ xs, ¬ x.Designates e) ∨ ¬ SameKind xs)
  | .intArr vs => ∃ v ∈ vs, ¬ (0 ≤ v ∧ v < (e.size : Int))
  | .strArr ss => ∃ s ∈ ss, s ∉ e.names
  | .objArr xs => ∃ x ∈ xs, x.kind ≠ .enum ∨ ¬ x.Designates e
  | .otherArr n => n ≠ 0
  | .scalarArr _ => True

instance (e : Enumeration) (x : Input) : Decidable (x.NotForeignArray e) := by
  cases x <;> unfold Input.NotForeignArray <;> infer_instance

instance (e : Enumeration) (x : Input) : Decidable (x.Rejected e) := by
  cases x <;> unfold Input.Rejected <;> infer_instance

/-- the array is tagged with `e` and every index it holds designates a member of `e` -/
def EnumArray.ValidFor (e : Enumeration) (a : EnumArray) : Prop :=
  a.owner = e.cid ∧ ∀ i ∈ a.idx, i < e.size

instance (e : Enumeration) (a : EnumArray) : Decidable (a.ValidFor e) := by
  unfold EnumArray.ValidFor; infer_instance

/-- results can be compared (used by the `example`s beside the theorems) -/
instance exceptDecEq {α : Type} [DecidableEq α] : DecidableEq (Except String α)
  | .ok a, .ok b => if h : a = b then isTrue (by rw [h]) else isFalse (fun e => h (by cases e; rfl))
  | .error a, .error b => if h : a = b then isTrue (by rw [h]) else isFalse (fun e => h (by cases e; rfl))
  | .ok _, .error _ => isFalse (fun e => by cases e)
  | .error _, .ok _ => isFalse (fun e => by cases e)

end OFCore.EnumCodec
