/-!
# Tax scales (model of `openfisca_core/taxscales/*.py`, repaired tree)

Exact rationals (`Rat`, core Lean, no import).  A scale is the list of its brackets
`(threshold, rate-or-amount)` in the order of the two parallel Python lists
`self.thresholds` / `self.rates` (`self.amounts`).

What is mirrored, function by function:

* `RateTaxScaleLike.add_bracket`, `AmountTaxScaleLike.add_bracket`  → `addBracket`
  (`threshold in thresholds` ⇒ `rates[index] += rate`, else `bisect_left` + `insert`);
* `MarginalRateTaxScale.calc`                                         → `calcMR` / `calcMRVec`
  (thresholds multiplied by `factor + ε`, optional `numpy.round`, clip, dot with the rates);
* `RateTaxScaleLike.bracket_indices`, `marginal_rates`, `threshold_from_tax_base`,
  `rate_from_tax_base`                                               → `bracketIndex`, …;
* `MarginalAmountTaxScale.calc`, `SingleAmountTaxScale.calc`, `LinearAverageRateTaxScale.calc`
                                                                      → `calcMA`, `calcSA`, `calcLA`;
* `add_tax_scale` / `combine_bracket` (also with its defaults: `combineBracketD`), `inverse`,
  `multiply_thresholds`, `multiply_rates`, `scale_tax_scales`, `to_average`, `to_marginal`, `copy`,
  `helpers.combine_tax_scales`;
* `to_dict` → `toDict` (dict semantics: thresholds made equal by a rounding scaling collapse);
* `SingleAmountTaxScale.calc` as written, with its guard bins / guard amounts and bases `±inf`
  → `calcSAE` (`calcSA` is its restriction to finite bases: `Lemmas`, `calcSAE_fin`);
* the descriptive attributes `name` / `option` / `unit` through every operation → `Meta`, `meta*`;
* `commons.formulas.apply_thresholds`, `switch`, `commons.rates.average_rate`, `marginal_rate`
  → `applyThresholds`, `switchSel`, `averageRate`, `marginalRateFD` (`nan` is `none`).

`ε` is the perturbation `numpy.finfo(float64).eps` that the code adds to `factor`; it is a
parameter here (`ε = 0` is the textbook reading).  `bisect_left/right`, `list.index`,
`numpy.digitize` are modelled by the linear scans that return the same index on the sorted
lists which reach them (every scale built with `add_bracket` is strictly sorted:
`Lemmas/TaxScale.lean`).  Not modelled: IEEE rounding, `nan` produced by `0 * inf` when
`factor + ε = 0`.
-/
namespace OFCore.Sca

/-- brackets `(threshold, rate)` or `(threshold, amount)` -/
abbrev Scale := List (Rat × Rat)

def thresholds (s : Scale) : List Rat := s.map (·.1)
def rates (s : Scale) : List Rat := s.map (·.2)

/-! ## `add_bracket` -/

/-- `threshold in self.thresholds` -/
def hasT (s : Scale) (t : Rat) : Bool := s.any (fun b => decide (b.1 = t))

/-- `self.thresholds.index(threshold)` (first occurrence; the length when absent) -/
def indexT : Scale → Rat → Nat
  | [], _ => 0
  | b :: rest, t => if b.1 = t then 0 else indexT rest t + 1

/-- `self.rates[i] += rate` -/
def bumpAt : Scale → Nat → Rat → Scale
  | [], _, _ => []
  | (t, r) :: rest, 0, d => (t, r + d) :: rest
  | b :: rest, i + 1, d => b :: bumpAt rest i d

/-- `bisect.bisect_left(self.thresholds, threshold)` on a sorted list -/
def bisectLeft : Scale → Rat → Nat
  | [], _ => 0
  | b :: rest, t => if b.1 < t then bisectLeft rest t + 1 else 0

/-- `bisect.bisect_right(self.thresholds, threshold)` on a sorted list -/
def bisectRight : Scale → Rat → Nat
  | [], _ => 0
  | b :: rest, t => if b.1 ≤ t then bisectRight rest t + 1 else 0

/-- `list.insert(i, x)` on both parallel lists -/
def insertAt : Scale → Nat → Rat × Rat → Scale
  | s, 0, x => x :: s
  | [], _ + 1, x => [x]
  | b :: rest, i + 1, x => b :: insertAt rest i x

/-- `add_bracket(threshold, rate)` of the rate-like and amount-like scales -/
def addBracket (s : Scale) (t r : Rat) : Scale :=
  if hasT s t then bumpAt s (indexT s t) r
  else insertAt s (bisectLeft s t) (t, r)

/-- a scale built by successive `add_bracket` calls -/
def build (ins : List (Rat × Rat)) : Scale := ins.foldl (fun s b => addBracket s b.1 b.2) []

/-! ## rounding (`numpy.round(x, decimals)`: scale, round half to even, unscale) -/

def roundHalfEven (q : Rat) : Int :=
  let f := q.floor
  let d := q - (f : Rat)
  if d < 1/2 then f else if 1/2 < d then f + 1 else if f % 2 = 0 then f else f + 1

def roundDec (d : Nat) (q : Rat) : Rat := ((roundHalfEven (q * (10 : Rat) ^ d) : Int) : Rat) / (10 : Rat) ^ d

/-- `numpy.round(·, decimals)` when `decimals is not None` -/
def rnd (rd : Option Nat) (q : Rat) : Rat :=
  match rd with
  | none => q
  | some d => roundDec d q

/-! ## `MarginalRateTaxScale.calc` -/

/-- one entry of `thresholds1`: `(factor + ε) * threshold`, rounded if asked -/
def thrMap (ε f : Rat) (rd : Option Nat) (t : Rat) : Rat := rnd rd ((f + ε) * t)

/-- contribution of one bracket: `rate * a`, or `round(rate * round(a))` -/
def brTerm (rd : Option Nat) (r a : Rat) : Rat :=
  match rd with
  | none => r * a
  | some d => roundDec d (r * roundDec d a)

/-- `Σ rate_i * max(min(base, τ_{i+1}) - τ_i, 0)` on already transformed thresholds; the last
bracket is bounded by `(factor + ε) * inf`, which is `+inf` when `opn` and `-inf` otherwise -/
def clipSum (rd : Option Nat) (opn : Bool) : Scale → Rat → Rat
  | [], _ => 0
  | [(t, r)], x => if opn then brTerm rd r (max (x - t) 0) else brTerm rd r 0
  | (t, r) :: (t', r') :: rest, x =>
    brTerm rd r (max (min x t' - t) 0) + clipSum rd opn ((t', r') :: rest) x

def mapT (τ : Rat → Rat) (s : Scale) : Scale := s.map (fun b => (τ b.1, b.2))

/-- `MarginalRateTaxScale.calc` for one base -/
def calcMR (ε f : Rat) (rd : Option Nat) (s : Scale) (x : Rat) : Rat :=
  clipSum rd (decide (0 < f + ε)) (mapT (thrMap ε f rd) s) x

/-- the same computation organised like the code: one column of clipped amounts per bracket
(a vector over the bases), the columns being summed (`numpy.dot` / `.sum(axis=1)`) -/
def clipSumVec (rd : Option Nat) (opn : Bool) : Scale → List Rat → List Rat
  | [], xs => xs.map (fun _ => 0)
  | [(t, r)], xs => xs.map (fun x => if opn then brTerm rd r (max (x - t) 0) else brTerm rd r 0)
  | (t, r) :: (t', r') :: rest, xs =>
    List.zipWith (· + ·) (xs.map (fun x => brTerm rd r (max (min x t' - t) 0)))
      (clipSumVec rd opn ((t', r') :: rest) xs)

/-- `MarginalRateTaxScale.calc` on a vector of bases -/
def calcMRVec (ε f : Rat) (rd : Option Nat) (s : Scale) (xs : List Rat) : List Rat :=
  clipSumVec rd (decide (0 < f + ε)) (mapT (thrMap ε f rd) s) xs

/-! ## `bracket_indices`, `marginal_rates`, `threshold_from_tax_base`, `rate_from_tax_base` -/

/-- `(base - thresholds1 >= 0).sum() - 1` -/
def bracketIndex (ε f : Rat) (rd : Option Nat) (s : Scale) (x : Rat) : Int :=
  (s.countP (fun b => decide (0 ≤ x - thrMap ε f rd b.1)) : Int) - 1

/-- `bracket_indices` on a vector, with its two `EmptyArgumentError`s -/
def bracketIndices (ε f : Rat) (rd : Option Nat) (s : Scale) (xs : List Rat) : Except String (List Int) :=
  if s.isEmpty then .error "EmptyArgumentError: thresholds"
  else if xs.isEmpty then .error "EmptyArgumentError: tax_base"
  else .ok (xs.map (bracketIndex ε f rd s))

/-- `numpy.array(l)[i]` for one integer index: negative indices count from the end -/
def pyIndex (l : List Rat) (i : Int) : Except String Rat :=
  let n : Int := l.length
  if 0 ≤ i ∧ i < n then .ok (l.getD i.toNat 0)
  else if -n ≤ i ∧ i < 0 then .ok (l.getD (n + i).toNat 0)
  else .error "IndexError"

/-- `marginal_rates` for one base -/
def marginalRate (ε f : Rat) (rd : Option Nat) (s : Scale) (x : Rat) : Except String Rat :=
  pyIndex (rates s) (bracketIndex ε f rd s x)

/-- `marginal_rates(tax_base, factor, round_base_decimals)` -/
def marginalRates (ε f : Rat) (rd : Option Nat) (s : Scale) (xs : List Rat) : Except String (List Rat) := do
  let idx ← bracketIndices ε f rd s xs
  idx.mapM (pyIndex (rates s))

/-- `threshold_from_tax_base(tax_base)` -/
def thresholdFromTaxBase (ε : Rat) (s : Scale) (xs : List Rat) : Except String (List Rat) := do
  let idx ← bracketIndices ε 1 none s xs
  idx.mapM (pyIndex (thresholds s))

/-- `rate_from_bracket_indice(bracket_indice)` (`.max()` of an empty array raises) -/
def rateFromBracketIndice (s : Scale) (idx : List Int) : Except String (List Rat) :=
  if idx.isEmpty then .error "ValueError: zero-size array"
  else if idx.any (fun i => decide (i > (s.length : Int) - 1)) then .error "IndexError"
  else idx.mapM (pyIndex (rates s))

/-- `rate_from_tax_base(tax_base)` -/
def rateFromTaxBase (ε : Rat) (s : Scale) (xs : List Rat) : Except String (List Rat) := do
  let idx ← bracketIndices ε 1 none s xs
  rateFromBracketIndice s idx

/-! ### an array of factors (`numpy.ones(len(tax_base)) * factor`): row `j` of `thresholds1` is
scaled by `factor[j] + ε_j`, so element `j` is the scalar computation with its own factor -/

def calcMRVecF (efs : List (Rat × Rat)) (rd : Option Nat) (s : Scale) (xs : List Rat) : Except String (List Rat) :=
  if efs.length ≠ xs.length then .error "ValueError: operands could not be broadcast together"
  else .ok (List.zipWith (fun ef x => calcMR ef.1 ef.2 rd s x) efs xs)

def bracketIndicesF (efs : List (Rat × Rat)) (rd : Option Nat) (s : Scale) (xs : List Rat) : Except String (List Int) :=
  if s.isEmpty then .error "EmptyArgumentError: thresholds"
  else if xs.isEmpty then .error "EmptyArgumentError: tax_base"
  else if efs.length ≠ xs.length then .error "ValueError: operands could not be broadcast together"
  else .ok (List.zipWith (fun ef x => bracketIndex ef.1 ef.2 rd s x) efs xs)

def marginalRatesF (efs : List (Rat × Rat)) (rd : Option Nat) (s : Scale) (xs : List Rat) : Except String (List Rat) := do
  let idx ← bracketIndicesF efs rd s xs
  idx.mapM (pyIndex (rates s))

/-! ## amount scales and the linear average-rate scale -/

/-- `MarginalAmountTaxScale.calc`: `dot(amounts, a > 0)` with the same clipped amounts `a` -/
def calcMA : Scale → Rat → Rat
  | [], _ => 0
  | [(t, a)], x => if 0 < max (x - t) 0 then a else 0
  | (t, a) :: (t', a') :: rest, x =>
    (if 0 < max (min x t' - t) 0 then a else 0) + calcMA ((t', a') :: rest) x

/-- `numpy.digitize(base, [-inf, *thresholds, inf], right) - 1` on increasing thresholds:
the number of thresholds `<= base` (`< base` when `right`) -/
def digitize (right : Bool) (s : Scale) (x : Rat) : Nat :=
  s.countP (fun b => if right then decide (b.1 < x) else decide (b.1 ≤ x))

/-- `SingleAmountTaxScale.calc`: `[0, *amounts, 0][digitize - 1]` -/
def calcSA (right : Bool) (s : Scale) (x : Rat) : Rat :=
  match digitize right s x with
  | 0 => 0
  | k + 1 => (s.getD k (0, 0)).2

/-- the three dot products of `LinearAverageRateTaxScale.calc` with the 0/1 row
`bracket_dummy`: (slope, start rate, bracket threshold) -/
def laSums : Scale → Rat → Rat × Rat × Rat
  | (t, r) :: (t', r') :: rest, x =>
    let d : Rat := if t ≤ x ∧ x < t' then 1 else 0
    let (sl, st, th) := laSums ((t', r') :: rest) x
    (d * ((r' - r) / (t' - t)) + sl, d * r + st, d * t + th)
  | _, _ => (0, 0, 0)

/-- `LinearAverageRateTaxScale.calc` for one base -/
def calcLA (s : Scale) (x : Rat) : Except String Rat :=
  match s with
  | [] => .error "ValueError: negative dimensions are not allowed"
  | [(_, r)] => .ok (x * r)
  | _ =>
    let (sl, st, th) := laSums s x
    .ok (x * (st + (x - th) * sl))

/-! ## transformations of marginal-rate scales -/

/-- `self.rates[index] if index >= 0 else 0` with `index = bisect_right(thresholds, t) - 1`
(repair F-C09a: nothing is due below the first threshold) -/
def rateBelow (s : Scale) (t : Rat) : Rat :=
  match bisectRight s t with
  | 0 => 0
  | k + 1 => (s.getD k (0, 0)).2

/-- "insert the threshold without modifying rates" -/
def splitAt (s : Scale) (t : Rat) : Scale :=
  if hasT s t then s else addBracket s t (rateBelow s t)

/-- `while i <= j: self.add_bracket(self.thresholds[i], rate); i += 1` (`n = j - i + 1`) -/
def bumpLoop (rate : Rat) : Nat → Nat → Scale → Scale
  | 0, _, s => s
  | n + 1, i, s => bumpLoop rate n (i + 1) (addBracket s (s.getD i (0, 0)).1 rate)

/-- `combine_bracket(rate, threshold_low, threshold_high)`; `hi = none` is the default
`False`, and an upper threshold equal to 0 is falsy as well -/
def combineBracket (s : Scale) (rate lo : Rat) (hi : Option Rat) : Scale :=
  let s1 := splitAt s lo
  let hi' := hi.filter (fun h => h ≠ 0)
  let s2 := match hi' with
    | some h => splitAt s1 h
    | none => s1
  let i := indexT s2 lo
  let j1 := match hi' with
    | some h => indexT s2 h
    | none => s2.length
  bumpLoop rate (j1 - i) i s2

/-- the loop of `add_tax_scale` over `zip(thresholds[:-1], thresholds[1:], rates)` followed by
the call for the last threshold -/
def addTaxScaleGo : Scale → Scale → Scale
  | s, [] => s
  | s, [(t, r)] => combineBracket s r t none
  | s, (t, r) :: (t', r') :: rest => addTaxScaleGo (combineBracket s r t (some t')) ((t', r') :: rest)

/-- `self.add_tax_scale(tax_scale)` (the receiver after the call) -/
def addTaxScale (s other : Scale) : Scale := addTaxScaleGo s other

/-- one child of the node: added when it is a marginal-rate scale, skipped (`none`) otherwise -/
def addChild (acc : Scale) : Option Scale → Scale
  | some b => addTaxScale acc b
  | none => acc

/-- `helpers.combine_tax_scales(node, combined)`: children that are not marginal-rate scales
(`none`) are skipped; an empty node returns `combined` unchanged -/
def combineTaxScales (children : List (Option Scale)) (combined : Option Scale) : Option Scale :=
  match children with
  | [] => combined
  | _ =>
    let start := match combined with
      | some c => c
      | none => addBracket [] 0 0
    some (children.foldl addChild start)

/-- the loop of `inverse`; the state is `(previous_rate, theta)` once bound -/
def inverseGo : Option (Rat × Rat) → Scale → Scale → Except String Scale
  | _, [], acc => .ok acc
  | st, (t, r) :: rest, acc =>
    let st' := if t = 0 then some (0, 0) else st
    match st' with
    | none => .error "UnboundLocalError: previous_rate"
    | some (prev, theta) =>
      if r = 1 then .error "ZeroDivisionError"
      else
        let net := (1 - prev) * t + theta
        inverseGo (some (r, (r - prev) * t + theta)) rest (addBracket acc net (1 / (1 - r)))

/-- `MarginalRateTaxScale.inverse()` -/
def inverse (s : Scale) : Except String Scale := inverseGo none s []

/-- `multiply_thresholds(factor, decimals)` (in place or not: same brackets) -/
def multiplyThresholds (s : Scale) (k : Rat) (decimals : Option Nat) : Scale :=
  s.map (fun b => (rnd decimals (b.1 * k), b.2))

/-- `multiply_rates(factor)` -/
def multiplyRates (s : Scale) (k : Rat) : Scale := s.map (fun b => (b.1, b.2 * k))

/-- `TaxScaleLike.copy()` (deep copy: same brackets) -/
def copy (s : Scale) : Scale := s

/-- `scale_tax_scales(factor)` = `copy().multiply_thresholds(factor)` -/
def scaleTaxScales (s : Scale) (k : Rat) : Scale := multiplyThresholds (copy s) k none

/-- a linear average-rate scale produced by `to_average`: finite brackets and, when present,
the rate attached to the threshold `float("Inf")` (always last) -/
structure AvgScale where
  fin : Scale
  top : Option Rat
deriving Repr, DecidableEq

/-- the `for` loop of `to_average`: `i`, `previous_threshold`, `previous_rate`, scale so far -/
def toAverageGo : Scale → Rat → Rat → Rat → Scale → Except String AvgScale
  | [], _, _, pr, a => .ok ⟨a, some pr⟩
  | (t, r) :: rest, i, pt, pr, a =>
    let i' := i + pr * (t - pt)
    if t = 0 then .error "ZeroDivisionError"
    else toAverageGo rest i' t r (addBracket a t (i' / t))

/-- `MarginalRateTaxScale.to_average()` (repairs F-C09b, F-C09c) -/
def toAverage (s : Scale) : Except String AvgScale :=
  let a0 := addBracket [] 0 0
  match s with
  | [] => .ok ⟨a0, none⟩
  | (t0, r0) :: rest =>
    let a1 := if 0 < t0 then addBracket a0 t0 0 else a0
    toAverageGo rest 0 t0 r0 a1

/-- the `for` loop of `to_marginal` over the finite brackets after the first one:
`previous_i`, `previous_threshold`, last `rate` seen, scale so far -/
def toMarginalGo : Scale → Rat → Rat → Option Rat → Scale → Except String (Rat × Option Rat × Scale)
  | [], _, pt, last, m => .ok (pt, last, m)
  | (t, r) :: rest, pi, pt, _, m =>
    let i := r * t
    if t - pt = 0 then .error "ZeroDivisionError"
    else toMarginalGo rest i t (some r) (addBracket m pt ((i - pi) / (t - pt)))

/-- `LinearAverageRateTaxScale.to_marginal()`; the `Inf` bracket is skipped by the loop but,
being last, it is the one whose rate is still bound to `rate` after the loop -/
def toMarginal (a : AvgScale) : Except String Scale :=
  match a.fin with
  | [] => .error "UnboundLocalError: rate"
  | _ :: tl =>
    match toMarginalGo tl 0 0 none [] with
    | .error e => .error e
    | .ok (pt, last, m) =>
      match (match a.top with | some r => some r | none => last) with
      | none => .error "UnboundLocalError: rate"
      | some r => .ok (addBracket m pt r)

/-! ## `combine_bracket` called directly: defaults `threshold_low = 0`, `threshold_high = False` -/

/-- `combine_bracket(rate, threshold_low=0, threshold_high=False)` with either argument left out -/
def combineBracketD (s : Scale) (rate : Rat) (lo hi : Option Rat) : Scale :=
  combineBracket s rate (match lo with | some l => l | none => 0) hi

/-! ## `to_dict`: `{str(threshold): rate}` — a Python dict keeps the position of the first
insertion of a key and the value of the last one (thresholds made equal by a rounding
`multiply_thresholds` collapse) -/

def dictSet : List (Rat × Rat) → Rat → Rat → List (Rat × Rat)
  | [], k, v => [(k, v)]
  | (k', v') :: rest, k, v => if k' = k then (k', v) :: rest else (k', v') :: dictSet rest k v

def toDict (s : Scale) : List (Rat × Rat) := s.foldl (fun d b => dictSet d b.1 b.2) []

/-! ## `SingleAmountTaxScale.calc` with its guards: the bins are `[-inf, *thresholds, inf]`, the
amounts `[0, *amounts, 0]`; a base may be `±inf` -/

inductive EBase where
  | negInf
  | fin (q : Rat)
  | posInf
deriving Repr, DecidableEq

def EBase.ltB : EBase → EBase → Bool
  | .negInf, .negInf => false
  | .negInf, .fin _ => true
  | .negInf, .posInf => true
  | .fin _, .negInf => false
  | .fin a, .fin b => decide (a < b)
  | .fin _, .posInf => true
  | .posInf, .negInf => false
  | .posInf, .fin _ => false
  | .posInf, .posInf => false

def EBase.leB : EBase → EBase → Bool
  | .negInf, .negInf => true
  | .negInf, .fin _ => true
  | .negInf, .posInf => true
  | .fin _, .negInf => false
  | .fin a, .fin b => decide (a ≤ b)
  | .fin _, .posInf => true
  | .posInf, .negInf => false
  | .posInf, .fin _ => false
  | .posInf, .posInf => true

/-- `numpy.digitize(x, bins, right)` on increasing bins: the `i` with `bins[i-1] <= x < bins[i]`
(`bins[i-1] < x <= bins[i]` when `right`), i.e. the number of bins `<= x` (`< x`) -/
def digitizeE (right : Bool) (bins : List EBase) (x : EBase) : Nat :=
  bins.countP (fun b => if right then b.ltB x else b.leB x)

def guardedBins (s : Scale) : List EBase := EBase.negInf :: (s.map (fun b => EBase.fin b.1) ++ [EBase.posInf])
def guardedAmounts (s : Scale) : List Rat := (0 : Rat) :: (s.map (·.2) ++ [0])

/-- `guarded_amounts[numpy.digitize(tax_base, guarded_thresholds, right) - 1]` -/
def calcSAE (right : Bool) (s : Scale) (x : EBase) : Except String Rat :=
  pyIndex (guardedAmounts s) ((digitizeE right (guardedBins s) x : Int) - 1)

/-! ## descriptive attributes `name`, `option`, `unit` of a scale and what each operation makes of them -/

structure Meta where
  name : String
  option : Option String
  unit : Option String
deriving Repr, DecidableEq

/-- Python's `a or b` for an optional string: `None` and `""` are falsy -/
def strOr (a : Option String) (b : String) : String :=
  match a with
  | none => b
  | some t => if t = "" then b else t

/-- `TaxScaleLike.__init__(name, option, unit)`: `self.name = name or "Untitled TaxScale"` -/
def metaInit (name option unit : Option String) : Meta := ⟨strOr name "Untitled TaxScale", option, unit⟩

/-- `multiply_rates` / `multiply_thresholds`: in place `assert new_name is None; return self`, else
`self.__class__(new_name or self.name, option=self.option, unit=self.unit)` -/
def metaMultiply (m : Meta) (inplace : Bool) (newName : Option String) : Except String Meta :=
  if inplace then
    match newName with
    | none => .ok m
    | some _ => .error "AssertionError"
  else .ok (metaInit (some (strOr newName m.name)) m.option m.unit)

/-- `inverse()`: `name=str(self.name) + "'"` -/
def metaInverse (m : Meta) : Meta := metaInit (some (m.name ++ "'")) m.option m.unit

/-- `to_average()`, `to_marginal()`: `name=self.name, option=self.option, unit=self.unit` -/
def metaConvert (m : Meta) : Meta := metaInit (some m.name) m.option m.unit

/-- `copy()` (deep copy of `__dict__`) -/
def metaCopy (m : Meta) : Meta := m

/-- `scale_tax_scales(factor)` = `copy().multiply_thresholds(factor)` (in place on the copy) -/
def metaScaleTaxScales (m : Meta) : Except String Meta := metaMultiply (metaCopy m) true none

/-- `combine_tax_scales(node, combined)`: `name = next(iter(node or []), None)`; a new accumulator is
`MarginalRateTaxScale(name=name)` -/
def metaCombine (firstChild : Option String) (combined : Option Meta) : Option Meta :=
  match firstChild with
  | none => combined
  | some n =>
    match combined with
    | some c => some c
    | none => some (metaInit (some n) none none)

/-! ## `commons.formulas` / `commons.rates`: the small pure functions used with scales in formulas -/

/-- `numpy.select(condlist, choicelist)` for one element: the choice of the first condition
that holds, 0 when none does -/
def selectFirst : List (Bool × Rat) → Rat
  | [] => 0
  | (c, v) :: rest => if c then v else selectFirst rest

/-- `apply_thresholds(input, thresholds, choices)` for one input -/
def applyThresholds (x : Rat) (ths choices : List Rat) : Except String Rat :=
  let conds := ths.map (fun t => decide (x ≤ t))
  let conds := if conds.length + 1 = choices.length then conds ++ [true] else conds
  if conds.length ≠ choices.length then .error "AssertionError"
  else if conds.isEmpty then .error "ValueError: select with an empty condition list is not possible"
  else .ok (selectFirst (conds.zip choices))

/-- `switch(conditions, value_by_condition)` for one element -/
def switchSel (c : Rat) (table : List (Rat × Rat)) : Except String Rat :=
  if table.isEmpty then .error "AssertionError"
  else .ok (selectFirst (table.map (fun kv => (decide (c = kv.1), kv.2))))

/-- the two `numpy.where` of `average_rate` / `marginal_rate`: outside `[min(trim), max(trim)]`
the value becomes `nan` (`none`) -/
def trimRate (trim : Option (Rat × Rat)) (r : Rat) : Option Rat :=
  match trim with
  | none => some r
  | some (a, b) => if r ≤ max a b ∧ min a b ≤ r then some r else none

/-- `average_rate(target, varying, trim)` for one element (`varying ≠ 0`) -/
def averageRate (trim : Option (Rat × Rat)) (target varying : Rat) : Except String (Option Rat) :=
  if varying = 0 then .error "ZeroDivision" else .ok (trimRate trim (1 - target / varying))

/-- `marginal_rate(target, varying, trim)`: one value per pair of consecutive elements -/
def marginalRateFD (trim : Option (Rat × Rat)) : List Rat → List Rat → Except String (List (Option Rat))
  | t0 :: t1 :: ts, v0 :: v1 :: vs =>
    if v0 - v1 = 0 then .error "ZeroDivision"
    else
      match marginalRateFD trim (t1 :: ts) (v1 :: vs) with
      | .error e => .error e
      | .ok rest => .ok (trimRate trim (1 - (t0 - t1) / (v0 - v1)) :: rest)
  | [_], [_] => .ok []
  | [], [] => .ok []
  | _, _ => .error "ValueError: operands could not be broadcast together"

end OFCore.Sca
