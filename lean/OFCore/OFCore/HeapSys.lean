import OFCore.Param
import OFCore.Generated
/-!
# Object-identity model of tax-benefit systems, reforms and system copies — property C14

Python counterparts (the tree with the repairs F-C14a, F-C14b, F-C14d, F-C14e applied):

* `TaxBenefitSystem.__init__` (entity copies bound to the new system)   ↦ `copyEntities`
* `TaxBenefitSystem.clone`                                             ↦ `cloneSys`
* `Reform.__init__` + `apply()`                                        ↦ `reformSys`
* `load_variable` / `add_variable` / `update_variable` / `replace_variable` ↦ `loadVariable`, `applyMod`
* `neutralize_variable` / `variables.get_neutralized_variable`         ↦ `neutralizeVar`
* `annualize_variable` / `variables.get_annualized_variable`           ↦ `annualizeVar`
* `Reform.modify_parameters` / in-place `Parameter.update` on a copy   ↦ `modifyParams`
* `TaxBenefitSystem.load_extension` (variables added, parameters merged in place)  ↦ `loadExtension`
* `tools.test_runner._get_tax_benefit_system` (clone, reforms, extensions, cache)  ↦ `testRunnerDerive`,
                                                                         `Op.testRunner`, `State.memo`
* `Variable.__init__` (`set`, `set_formulas`), `Variable.clone`, `Variable.get_formula`
                                                                       ↦ `construct`, `getFormula`
* `TaxBenefitSystem.get_variable`, `CoreEntity.get_variable`           ↦ `resolve`, `resolveVia`
* `Holder.get_array` / `Holder.set_input` guards on `is_neutralized`   ↦ `holderGet`, `holderSetInput`
* `Simulation._calculate` / `_check_for_cycle` on an annualised variable ↦ `annCalc`

Objects live in a heap (`List Obj`, the identity of an object is its index; allocation appends).
A pure model would erase exactly what the property is about: which objects a derived system
shares with the system it derives from, and which it owns.

Abstractions, stated once:
* `variable.entity` is kept as the entity *key*: the engine reads nothing else of it
  (`Simulation.get_variable_population`, `check_variable_defined_for_entity`, `get_variables`).
* value types, definition periods, defaults, `set_input` helpers and the descriptive attributes
  (`label`, `reference`, `documentation`, `unit`, `cerfa_field`, `calculate_output`,
  `is_period_size_independent`, `max_length`) are opaque tokens: a class carries, for each attribute it
  declares, the value `Variable.__init__` makes of the declared one (`ClassDef.attrs`); what the model
  decides is declared / inherited from the baseline variable / default (`attrOf`), and the label of a
  neutralised variable. The `allowed_type` / `allowed_values` / setter checks of `Variable.set` are one
  bit: a class that declares a value they refuse is `invalid`, and instantiating it raises.
* formula start dates and `end` are proleptic ordinals; the code compares zero-padded ISO strings,
  which is the same order (`Lemmas/Calendar.lean`). `formula` (undated) starts at ordinal 1.
* formula functions are identities `Fml.base n`; the closure `annual_formula` built by
  `get_annualized_variable` around `f` is `Fml.annual f`.
* the parameter tree is a flat map leaf-path ↦ dated history (`Param.Entry`, model of C06).
-/
namespace OFCore.HeapSys
open OFCore.Param

/-- object identity: index in the heap (a notation, so that `omega` sees a `Nat`) -/
scoped notation "Oid" => Nat

/-- identity of a formula function -/
inductive Fml where
  | base (n : Nat)
  | annual (f : Fml)
deriving DecidableEq, Repr

/-- what a `class x(Variable)` statement declares (an undeclared attribute is `none`) -/
structure ClassDef where
  name      : String
  valueType : Option String
  default   : Option String
  entity    : Option String
  defPeriod : Option String
  endDate   : Option Int
  setInput  : Option String
  formulas  : List (Int × Nat)      -- `formula_YYYY_MM_DD` in class-dict order: start ↦ function
  /-- the other declared attributes (`label`, `reference`, `documentation`, `unit`, `cerfa_field`,
      `calculate_output`, `is_period_size_independent`, `max_length`): key ↦ the value `Variable.__init__`
      makes of the declared one, as an opaque token (`none` = `None`: `label = ""`, `documentation = ""`,
      a falsy `calculate_output`) -/
  attrs     : List (String × Option String) := []
  /-- some declared attribute has a value `Variable.set` refuses (`allowed_type`, `allowed_values`, a
      setter's own check): `__init__` raises -/
  invalid   : Bool := false
deriving DecidableEq, Repr

/-- a `Variable` instance -/
structure VarObj where
  cls           : ClassDef
  baseline      : Option Oid        -- `baseline_variable`
  valueType     : String
  default       : String
  entity        : String
  defPeriod     : String
  endDate       : Option Int
  setInput      : Option String
  formulas      : List (Int × Fml)  -- `SortedDict`: ascending start dates
  isNeutralized : Bool
  label         : Option String := none             -- `label` (an opaque token; `[Neutralized] …` = `N(…)`)
  attrs         : List (String × Option String) := []   -- the attributes of `metaKeys`, in that order
deriving DecidableEq, Repr

/-- what can be observed of a variable object (everything but how it was built) -/
structure VarView where
  name          : String
  valueType     : String
  default       : String
  entity        : String
  defPeriod     : String
  endDate       : Option Int
  setInput      : Option String
  formulas      : List (Int × Fml)
  isNeutralized : Bool
  label         : Option String := none
  attrs         : List (String × Option String) := []
deriving DecidableEq, Repr

def VarObj.view (v : VarObj) : VarView :=
  ⟨v.cls.name, v.valueType, v.default, v.entity, v.defPeriod, v.endDate, v.setInput, v.formulas,
   v.isNeutralized, v.label, v.attrs⟩

/-- `Variable.is_input_variable()`: `len(self.formulas) == 0` -/
def VarView.isInput (v : VarView) : Bool := v.formulas.isEmpty

structure SysObj where
  entities : List Oid
  vars     : Oid                    -- the `variables` dict
  params   : Oid                    -- the `parameters` tree
  baseline : Option Oid             -- `Reform.baseline`
deriving DecidableEq, Repr

structure EntObj where
  key    : String
  system : Option Oid               -- `_tax_benefit_system`
deriving DecidableEq, Repr

abbrev ParamTree := List (String × List (Entry String))

inductive Obj where
  | sys (s : SysObj)
  | ent (e : EntObj)
  | vmap (m : List (String × Oid))
  | var (v : VarObj)
  | par (p : ParamTree)
deriving Repr

structure Heap where
  objs : List Obj
deriving Repr

namespace Heap
def next (h : Heap) : Nat := h.objs.length
def look (h : Heap) (i : Oid) : Option Obj := h.objs[i]?
def alloc (h : Heap) (o : Obj) : Heap × Oid := (⟨h.objs ++ [o]⟩, h.objs.length)
def allocs (h : Heap) (os : List Obj) : Heap := ⟨h.objs ++ os⟩
def put (h : Heap) (i : Oid) (o : Obj) : Heap := ⟨h.objs.set i o⟩

def getSys (h : Heap) (i : Oid) : Option SysObj :=
  match h.look i with | some (.sys s) => some s | some (.ent _) => none | some (.vmap _) => none
                      | some (.var _) => none | some (.par _) => none | none => none
def getEnt (h : Heap) (i : Oid) : Option EntObj :=
  match h.look i with | some (.ent e) => some e | some (.sys _) => none | some (.vmap _) => none
                      | some (.var _) => none | some (.par _) => none | none => none
def getMap (h : Heap) (i : Oid) : Option (List (String × Oid)) :=
  match h.look i with | some (.vmap m) => some m | some (.sys _) => none | some (.ent _) => none
                      | some (.var _) => none | some (.par _) => none | none => none
def getVar (h : Heap) (i : Oid) : Option VarObj :=
  match h.look i with | some (.var v) => some v | some (.sys _) => none | some (.ent _) => none
                      | some (.vmap _) => none | some (.par _) => none | none => none
def getPar (h : Heap) (i : Oid) : Option ParamTree :=
  match h.look i with | some (.par p) => some p | some (.sys _) => none | some (.ent _) => none
                      | some (.vmap _) => none | some (.var _) => none | none => none
end Heap

/-! ## Python `dict` as an insertion-ordered association list -/

/-- `d[k] = v`: an existing key keeps its position, a new key goes last -/
def dictSet {α} (k : String) (v : α) : List (String × α) → List (String × α)
  | [] => [(k, v)]
  | (k', v') :: r => if k' = k then (k, v) :: r else (k', v') :: dictSet k v r

/-- `del d[k]` -/
def dictDel {α} (k : String) : List (String × α) → List (String × α)
  | [] => []
  | (k', v') :: r => if k' = k then r else (k', v') :: dictDel k r

/-- `d.get(k)` -/
def dictGet {α} (k : String) : List (String × α) → Option α
  | [] => none
  | (k', v') :: r => if k' = k then some v' else dictGet k r

/-- one descriptive attribute of a variable object (`None` when the object does not carry it) -/
def VarObj.attr (v : VarObj) (k : String) : Option String := (dictGet k v.attrs).join

/-! ## `Variable` -/

/-- `config.VALUE_TYPES[value_type].get("default")` as canonical tokens (`Enum` has none) -/
def typeDefault (vt : String) : String :=
  if vt = "bool" then "F" else if vt = "int" then "0" else if vt = "float" then "0"
  else if vt = "str" then "" else if vt = "date" then "d719163" else "-"

/-- `formulas[str(starting_date)] = formula` on a `SortedDict` -/
def insertF (d : Int) (f : Fml) : List (Int × Fml) → List (Int × Fml)
  | [] => [(d, f)]
  | (d', f') :: r =>
    if d < d' then (d, f) :: (d', f') :: r
    else if d = d' then (d, f) :: r
    else (d', f') :: insertF d f r

/-- the loop of `set_formulas` over the declared `formula_*` attributes; raises when a formula
    starts after the variable's `end` -/
def declaredFormulas (endDate : Option Int) : List (Int × Nat) → List (Int × Fml) →
    Except String (List (Int × Fml))
  | [], acc => .ok acc
  | (d, n) :: r, acc =>
    match endDate with
    | some e => if e < d then .error "ValueError: formula starts after end"
                else declaredFormulas endDate r (insertF d (.base n) acc)
    | none => declaredFormulas endDate r (insertF d (.base n) acc)

/-- the second half of `set_formulas`: the baseline's formulas that start strictly before the first
    new one are kept (all of them when the class declares none). `bf` is a `SortedDict`, so the
    kept ones come first in the result. -/
def mergeBaseline (declared bf : List (Int × Fml)) : List (Int × Fml) :=
  match declared with
  | [] => bf
  | (d0, _) :: _ => bf.filter (fun p => p.1 < d0) ++ declared

/-- the `end` attribute: a declared date wins; a class that declares `end = ""` (ordinal 0 in the
    protocol) REDEFINES it to "no end" (`set_end` returns `None`, and `Variable.set` inherits only
    when the attribute is absent); absent, it is inherited -/
def declaredEnd (declared inherited : Option Int) : Option Int :=
  match declared with
  | some e => if e = 0 then none else some e
  | none => inherited

/-- `required=True` attribute: declared, else inherited, else `ValueError` -/
def requiredAttr (what : String) (declared : Option String) (inherited : Option String) :
    Except String String :=
  match declared with
  | some x => .ok x
  | none =>
    match inherited with
    | some x => .ok x
    | none => .error ("ValueError: missing attribute " ++ what)

/-- the attributes other than `label` that `Variable.__init__` sets through `Variable.set` /
    `set_calculate_output`, in the order they are observed -/
def metaKeys : List String :=
  ["reference", "documentation", "unit", "cerfa_field", "calculate_output", "is_period_size_independent", "max_length"]

/-- `config.VALUE_TYPES[value_type]["is_period_size_independent"]` (tokens of `True` / `False`) -/
def typeIpsi (vt : String) : String := if vt = "int" then "j66616c7365" else if vt = "float" then "j66616c7365" else "j74727565"

/-- the `default=` of `Variable.set`: only `is_period_size_independent` has one -/
def attrDefault (k vt : String) : Option String :=
  if k = "is_period_size_independent" then some (typeIpsi vt) else none

/-- one attribute, as `Variable.set` decides it. `declared`: `none` = the class does not declare it,
    `some none` = declared and turned into `None` by the setter, `some (some x)` = declared value.
    `inherited`: `none` = no baseline variable, `some x` = the baseline's attribute.
    A declared value wins — also a declared `None` (`label = ""` clears the label), except for
    `calculate_output` (`set_calculate_output`: `if not calculate_output and baseline: inherit`);
    undeclared, the baseline's value is inherited; without a baseline the default applies. -/
def attrOf (k vt : String) (declared : Option (Option String)) (inherited : Option (Option String)) :
    Option String :=
  match declared with
  | some (some x) => some x
  | some none =>
    if k = "calculate_output" then (match inherited with | some x => x | none => none) else none
  | none =>
    match inherited with
    | some x => x
    | none => attrDefault k vt

/-- … `max_length` exists on string variables only -/
def metaAttr (k vt : String) (declared : Option (Option String)) (inherited : Option (Option String)) :
    Option String :=
  if k = "max_length" then (if vt = "str" then attrOf k vt declared inherited else none)
  else attrOf k vt declared inherited

/-- `Variable.__init__(baseline_variable=b)` for a class whose declared values pass the checks of
    `Variable.set`, `b` already dereferenced -/
def constructCore (cls : ClassDef) (bid : Option Oid) (b : Option VarObj) : Except String VarObj :=
  match requiredAttr "value_type" cls.valueType (b.map (·.valueType)) with
  | .error e => .error e
  | .ok vt =>
  let dflt : String :=
    match cls.default with
    | some x => x
    | none => match b with | some bv => bv.default | none => typeDefault vt
  match requiredAttr "entity" cls.entity (b.map (·.entity)) with
  | .error e => .error e
  | .ok ent =>
  match requiredAttr "definition_period" cls.defPeriod (b.map (·.defPeriod)) with
  | .error e => .error e
  | .ok dp =>
  let endDate : Option Int := declaredEnd cls.endDate (match b with | some bv => bv.endDate | none => none)
  let si : Option String :=
    match cls.setInput with
    | some s => some s
    | none => match b with | some bv => bv.setInput | none => none
  match declaredFormulas endDate cls.formulas [] with
  | .error e => .error e
  | .ok decl =>
  let fs := match b with | some bv => mergeBaseline decl bv.formulas | none => decl
  .ok { cls := cls, baseline := bid, valueType := vt, default := dflt, entity := ent, defPeriod := dp,
        endDate := endDate, setInput := si, formulas := fs, isNeutralized := false,
        label := attrOf "label" vt (dictGet "label" cls.attrs) (b.map (·.label)),
        attrs := metaKeys.map fun k =>
          (k, metaAttr k vt (dictGet k cls.attrs) (b.map fun bv => bv.attr k)) }

/-- `Variable.__init__(baseline_variable=b)`: a declared value of the wrong type (`allowed_type`), outside
    the allowed values, or refused by a setter raises `ValueError` / `TypeError` before anything is bound -/
def constructWith (cls : ClassDef) (bid : Option Oid) (b : Option VarObj) : Except String VarObj :=
  if cls.invalid then .error "ValueError: invalid value for an attribute" else constructCore cls bid b

/-- `variable_class(baseline_variable=…)`: the baseline is read through its identity -/
def construct (h : Heap) (cls : ClassDef) (bid : Option Oid) : Except String VarObj :=
  match bid with
  | none => constructWith cls none none
  | some i =>
    match h.getVar i with
    | some b => constructWith cls (some i) (some b)
    | none => .error "dangling baseline_variable"

/-- `Variable.clone` (repaired, F-C14b): `self.__class__(baseline_variable=self.baseline_variable)` -/
def cloneVar (h : Heap) (v : VarObj) : Except String VarObj := construct h v.cls v.baseline

/-- `for start_date in reversed(self.formulas): if start_date <= instant_str: return …` -/
def lastLE : List (Int × Fml) → Int → Option Fml
  | [], _ => none
  | (s, f) :: r, d =>
    match lastLE r d with
    | some g => some g
    | none => if s ≤ d then some f else none

/-- `Variable.get_formula(period)` at the date `d = period.start` -/
def getFormula (v : VarView) (d : Int) : Option Fml :=
  match v.endDate with
  | some e => if e < d then none else lastLE v.formulas d
  | none => lastLE v.formulas d

/-! ## Systems -/

/-- `[copy.copy(entity) for entity in entities]` then `entity.set_tax_benefit_system(owner)`:
    the new objects, in order -/
def entityCopies (h : Heap) (owner : Oid) : List Oid → Option (List Obj)
  | [] => some []
  | e :: r =>
    match h.getEnt e, entityCopies h owner r with
    | some eo, some rest => some (Obj.ent { key := eo.key, system := some owner } :: rest)
    | _, _ => none

/-- `copy.deepcopy` of one variable object: its `baseline_variable` chain is copied with it -/
def copyVar : Nat → Heap → Oid → Option (Heap × Oid)
  | 0, _, _ => none
  | fuel + 1, h, vid =>
    match h.getVar vid with
    | none => none
    | some v =>
      match v.baseline with
      | none => some (h.alloc (.var v))
      | some b =>
        match copyVar fuel h b with
        | none => none
        | some (h1, b') => some (h1.alloc (.var { v with baseline := some b' }))

/-- `copy.deepcopy(self.variables)`: entries in dict order -/
def copyVars : Heap → List (String × Oid) → Option (Heap × List (String × Oid))
  | h, [] => some (h, [])
  | h, (k, vid) :: r =>
    match copyVar (vid + 1) h vid with
    | none => none
    | some (h1, vid') =>
      match copyVars h1 r with
      | none => none
      | some (h2, r') => some (h2, (k, vid') :: r')

/-- `TaxBenefitSystem.clone` (repaired, F-C14a). Allocation order: the system, its entity copies,
    the parameter clone, the variable copies, the new dict. -/
def cloneSys (h : Heap) (src : Oid) : Except String (Heap × Oid) :=
  match h.getSys src with
  | none => .error "not a system"
  | some s =>
    let sid := h.next
    match entityCopies h sid s.entities, h.getPar s.params, h.getMap s.vars with
    | some ents, some p, some m =>
      let eids := (List.range ents.length).map (fun i => sid + 1 + i)
      let pid := sid + 1 + ents.length
      -- the system object is completed below; until then it points at itself
      let h1 := h.allocs (Obj.sys { entities := eids, vars := sid, params := pid, baseline := s.baseline }
                  :: ents ++ [Obj.par p])
      match copyVars h1 m with
      | none => .error "dangling variable"
      | some (h2, m') =>
        let (h3, mid) := h2.alloc (.vmap m')
        .ok (h3.put sid (.sys { entities := eids, vars := mid, params := pid, baseline := s.baseline }), sid)
    | _, _, _ => .error "ill-formed system"

/-- a parameter update declared by a modifier: `parameters.<name>.update(start=a, stop=b, value=v)` -/
structure PUpd where
  name : String
  a    : Int
  b    : Option Int
  v    : Option String
deriving DecidableEq, Repr

/-- an extension package: variable classes (`add_variables_from_directory`) and a `parameters/`
    directory whose top-level children are merged into the target's tree -/
structure Ext where
  name   : String
  vars   : List ClassDef
  params : ParamTree
deriving DecidableEq, Repr

/-- the modifications a derived system can receive -/
inductive Mod where
  | add (c : ClassDef)
  | update (c : ClassDef)
  | replace (c : ClassDef)
  | neutralize (name : String)
  | annualize (name : String)
  | params (us : List PUpd)
  | loadExt (e : Ext)                 -- `load_extension(package)`, directly or from a reform's `apply()`
deriving DecidableEq, Repr

/-- `TaxBenefitSystem.get_variable(name)` (`check_existence=False`): the identity found -/
def resolve (h : Heap) (sid : Oid) (name : String) : Option Oid :=
  match h.getSys sid with
  | none => none
  | some s =>
    match h.getMap s.vars with
    | none => none
    | some m => dictGet name m

/-- `entity.get_variable(name)`: through the entity's back-pointer -/
def resolveVia (h : Heap) (eid : Oid) (name : String) : Option Oid :=
  match h.getEnt eid with
  | none => none
  | some e =>
    match e.system with
    | none => none                      -- "You must set 'tax_benefit_system' before …"
    | some sid => resolve h sid name

/-- `self.variables[name] = <new object>` -/
def bindVar (h : Heap) (s : SysObj) (m : List (String × Oid)) (name : String) (v : VarObj) : Heap :=
  let (h1, vid) := h.alloc (.var v)
  h1.put s.vars (.vmap (dictSet name vid m))

/-- `load_variable(variable_class, update)` -/
def loadVariable (h : Heap) (sid : Oid) (cls : ClassDef) (update : Bool) : Heap × Except String Unit :=
  match h.getSys sid with
  | none => (h, .error "not a system")
  | some s =>
    match h.getMap s.vars with
    | none => (h, .error "ill-formed system")
    | some m =>
      let bid := dictGet cls.name m
      if bid.isSome && !update then (h, .error "VariableNameConflictError")
      else
        match construct h cls bid with
        | .error e => (h, .error e)
        | .ok v => (bindVar h s m cls.name v, .ok ())

/-- `replace_variable`: the old entry is deleted *before* the new class is instantiated -/
def replaceVariable (h : Heap) (sid : Oid) (cls : ClassDef) : Heap × Except String Unit :=
  match h.getSys sid with
  | none => (h, .error "not a system")
  | some s =>
    match h.getMap s.vars with
    | none => (h, .error "ill-formed system")
    | some m =>
      match dictGet cls.name m with
      | some _ => loadVariable (h.put s.vars (.vmap (dictDel cls.name m))) sid cls false
      | none => loadVariable h sid cls false

/-- the label `get_neutralized_variable` gives the clone: `[Neutralized]`, followed by the label of
    the variable it neutralises (the instance's, not the class's) when it has one -/
def neutralizedLabel (l : Option String) : String := "N(" ++ l.getD "-" ++ ")"

/-- `neutralize_variable(name)` -/
def neutralizeVar (h : Heap) (sid : Oid) (name : String) : Heap × Except String Unit :=
  match h.getSys sid with
  | none => (h, .error "not a system")
  | some s =>
    match h.getMap s.vars with
    | none => (h, .error "ill-formed system")
    | some m =>
      match dictGet name m with
      | none => (h, .error "AttributeError: 'NoneType' object has no attribute 'clone'")
      | some vid =>
        match h.getVar vid with
        | none => (h, .error "dangling variable")
        | some v =>
          match cloneVar h v with
          | .error e => (h, .error e)
          | .ok c => (bindVar h s m name { c with isNeutralized := true,
                                                   label := some (neutralizedLabel v.label) }, .ok ())

/-- `annualize_variable(name)` (repaired, F-C14d: the neutralised flag is carried over) -/
def annualizeVar (h : Heap) (sid : Oid) (name : String) : Heap × Except String Unit :=
  match h.getSys sid with
  | none => (h, .error "not a system")
  | some s =>
    match h.getMap s.vars with
    | none => (h, .error "ill-formed system")
    | some m =>
      match dictGet name m with
      | none => (h, .error "VariableNotFoundError")
      | some vid =>
        match h.getVar vid with
        | none => (h, .error "dangling variable")
        | some v =>
          match cloneVar h v with
          | .error e => (h, .error e)
          | .ok c =>
            (bindVar h s m name { c with formulas := v.formulas.map (fun p => (p.1, Fml.annual p.2)),
                                         isNeutralized := v.isNeutralized }, .ok ())

/-- the body of a modifier function: the updates in order. A missing leaf raises
    (`AttributeError`) after the earlier updates have been made: the tree reached is returned
    together with the verdict. -/
def applyUpds : ParamTree → List PUpd → ParamTree × Except String Unit
  | p, [] => (p, .ok ())
  | p, u :: r =>
    match dictGet u.name p with
    | none => (p, .error "AttributeError: no such parameter")
    | some l => applyUpds (dictSet u.name (update l u.a u.b u.v) p) r

/-- a parameter modifier. On a reform: `Reform.modify_parameters` (repaired, F-C14e: a deep copy
    of the reform's *current* tree is modified, then bound; nothing is bound when the modifier
    raises). On a plain system (a `clone()`): the tree the copy owns is updated in place, one
    update after the other. -/
def modifyParams (h : Heap) (sid : Oid) (us : List PUpd) : Heap × Except String Unit :=
  match h.getSys sid with
  | none => (h, .error "not a system")
  | some s =>
    match h.getPar s.params with
    | none => (h, .error "ill-formed system")
    | some p =>
      match s.baseline with
      | some _ =>
        match applyUpds p us with
        | (_, .error e) => (h, .error e)
        | (p', .ok ()) =>
          let (h1, pid) := h.alloc (.par p')
          (h1.put sid (.sys { s with params := pid }), .ok ())
      | none =>
        match applyUpds p us with
        | (p', r) => (h.put s.params (.par p'), r)

/-- `add_variables_from_directory`: `add_variable` for each class in turn; the first conflict raises
    (the classes already added stay) -/
def addVariables (h : Heap) (sid : Oid) : List ClassDef → Heap × Except String Unit
  | [] => (h, .ok ())
  | c :: r =>
    match loadVariable h sid c false with
    | (h1, .ok ()) => addVariables h1 sid r
    | (h1, .error e) => (h1, .error e)

/-- `ParameterNode.merge`: `add_child` for each child of the extension's tree; an existing name
    raises (the children already merged stay) -/
def mergeParams : ParamTree → ParamTree → ParamTree × Except String Unit
  | p, [] => (p, .ok ())
  | p, (k, l) :: r =>
    match dictGet k p with
    | some _ => (p, .error "ValueError: has already a child named …")
    | none => mergeParams (p ++ [(k, l)]) r

/-- `TaxBenefitSystem.load_extension`: the variables, then the parameters (an extension without a
    `parameters` directory merges nothing). A plain system merges them IN PLACE into the tree it
    owns; a system with a baseline — a reform, which may share its tree with any system down its
    baseline chain — first takes a deep copy of its tree (repair F-C14f) and merges into the copy. -/
def loadExtension (h : Heap) (sid : Oid) (e : Ext) : Heap × Except String Unit :=
  match addVariables h sid e.vars with
  | (h1, .error er) => (h1, .error er)
  | (h1, .ok ()) =>
    match e.params with
    | [] => (h1, .ok ())
    | q :: qs =>
      match h1.getSys sid with
      | none => (h1, .error "not a system")
      | some s =>
        match h1.getPar s.params with
        | none => (h1, .error "ill-formed system")
        | some p =>
          match s.baseline with
          | some _ =>
            match mergeParams p (q :: qs) with
            | (p', r) => ((h1.allocs [.par p']).put sid (.sys { s with params := h1.next }), r)
          | none =>
            match mergeParams p (q :: qs) with
            | (p', r) => (h1.put s.params (.par p'), r)

def loadExtensions (h : Heap) (sid : Oid) : List Ext → Heap × Except String Unit
  | [] => (h, .ok ())
  | e :: r =>
    match loadExtension h sid e with
    | (h1, .ok ()) => loadExtensions h1 sid r
    | (h1, .error er) => (h1, .error er)

def applyMod (h : Heap) (sid : Oid) : Mod → Heap × Except String Unit
  | .add c => loadVariable h sid c false
  | .update c => loadVariable h sid c true
  | .replace c => replaceVariable h sid c
  | .neutralize n => neutralizeVar h sid n
  | .annualize n => annualizeVar h sid n
  | .params us => modifyParams h sid us
  | .loadExt e => loadExtension h sid e

/-- `apply()`: the modifications in order; the first exception aborts -/
def applyMods (h : Heap) (sid : Oid) : List Mod → Heap × Except String Unit
  | [] => (h, .ok ())
  | m :: r =>
    match applyMod h sid m with
    | (h1, .ok ()) => applyMods h1 sid r
    | (h1, .error e) => (h1, .error e)

/-- `Reform.__init__(baseline)` before `apply()`: own entity copies, a shallow copy of the variable
    dict, the *same* parameter tree. -/
def reformInit (h : Heap) (src : Oid) : Except String (Heap × Oid) :=
  match h.getSys src with
  | none => .error "not a system"
  | some s =>
    let sid := h.next
    match entityCopies h sid s.entities, h.getMap s.vars with
    | some ents, some m =>
      let eids := (List.range ents.length).map (fun i => sid + 1 + i)
      let mid := sid + 1 + ents.length
      .ok (h.allocs (Obj.sys { entities := eids, vars := mid, params := s.params, baseline := some src }
              :: ents ++ [Obj.vmap m]), sid)
    | _, _ => .error "ill-formed system"

/-- `SomeReform(baseline)`: an exception in `apply()` leaves no system behind (only garbage) -/
def reformSys (h : Heap) (src : Oid) (mods : List Mod) : Heap × Except String Oid :=
  match reformInit h src with
  | .error e => (h, .error e)
  | .ok (h1, sid) =>
    match applyMods h1 sid mods with
    | (h2, .ok ()) => (h2, .ok sid)
    | (h2, .error e) => (h2, .error e)

/-! ## The YAML test runner's derivation -/

/-- `current = current.apply_reform(path)` for each reform in order -/
def applyReforms (h : Heap) (cur : Oid) : List (List Mod) → Heap × Except String Oid
  | [] => (h, .ok cur)
  | mods :: r =>
    match reformSys h cur mods with
    | (h1, .ok R) => applyReforms h1 R r
    | (h1, .error e) => (h1, .error e)

/-- `test_runner._get_tax_benefit_system(baseline, reforms, extensions)` on a cache miss: a
    `clone()` of the baseline, the reforms stacked on it, the extensions loaded into the last one.
    The intermediate systems are private to the derivation. -/
def testRunnerDerive (h : Heap) (src : Oid) (reforms : List (List Mod)) (exts : List Ext) :
    Heap × Except String Oid :=
  match cloneSys h src with
  | .error e => (h, .error e)
  | .ok (h1, N) =>
    match applyReforms h1 N reforms with
    | (h2, .error e) => (h2, .error e)
    | (h2, .ok R) =>
      match loadExtensions h2 R exts with
      | (h3, .ok ()) => (h3, .ok R)
      | (h3, .error e) => (h3, .error e)

/-- the cache key: `(id(baseline), ":".join(reforms), frozenset(extensions))` — reform paths in
    order, extension names as a set (sorted, without repetition) -/
abbrev TRKey := Nat × List String × List String

def insertName (s : String) : List String → List String
  | [] => [s]
  | t :: r => if s < t then s :: t :: r else if s = t then t :: r else t :: insertName s r

def nameSet (l : List String) : List String := l.foldr insertName []

def lookupMemo (k : TRKey) : List (TRKey × Oid) → Option Oid
  | [] => none
  | (k', v) :: r => if k' = k then some v else lookupMemo k r

/-! ## Histories -/

inductive Op where
  | clone (src : Nat)                    -- indices into the list of systems, in creation order
  | reform (src : Nat) (mods : List Mod)
  | modify (tgt : Nat) (m : Mod)
  /-- the YAML test runner deriving the system of a test: reforms by (path, what `apply()` does),
      extensions -/
  | testRunner (src : Nat) (reforms : List (String × List Mod)) (exts : List Ext)
deriving Repr

structure State where
  heap    : Heap
  systems : List Oid
  memo    : List (TRKey × Oid) := []      -- `_tax_benefit_system_cache`
deriving Repr

/-- one step; the flag says whether the call returned normally -/
def step (st : State) : Op → State × Bool
  | .clone src =>
    match st.systems[src]? with
    | none => (st, false)
    | some sid =>
      match cloneSys st.heap sid with
      | .ok (h, n) => ({ st with heap := h, systems := st.systems ++ [n] }, true)
      | .error _ => (st, false)
  | .reform src mods =>
    match st.systems[src]? with
    | none => (st, false)
    | some sid =>
      match reformSys st.heap sid mods with
      | (h, .ok n) => ({ st with heap := h, systems := st.systems ++ [n] }, true)
      | (h, .error _) => ({ st with heap := h }, false)
  | .modify tgt m =>
    match st.systems[tgt]? with
    | none => (st, false)
    | some sid =>
      match applyMod st.heap sid m with
      | (h, .ok ()) => ({ st with heap := h }, true)
      | (h, .error _) => ({ st with heap := h }, false)
  | .testRunner src reforms exts =>
    match st.systems[src]? with
    | none => (st, false)
    | some sid =>
      let key : TRKey := (sid, reforms.map (fun r => r.1), nameSet (exts.map (fun e => e.name)))
      match lookupMemo key st.memo with
      | some _ => (st, true)               -- cache hit: the system derived earlier, nothing new
      | none =>
        match testRunnerDerive st.heap sid (reforms.map (fun r => r.2)) exts with
        | (h, .ok R) => ({ heap := h, systems := st.systems ++ [R], memo := (key, R) :: st.memo }, true)
        | (h, .error _) => ({ st with heap := h }, false)

def run (st : State) : List Op → State
  | [] => st
  | op :: r => run (step st op).1 r

/-- the history only modifies systems it created itself (`k0` systems existed before) -/
def Op.targetsDerived (k0 : Nat) : Op → Prop
  | .clone _ => True
  | .reform _ _ => True
  | .modify tgt _ => k0 ≤ tgt
  | .testRunner _ _ _ => True

instance (k0 : Nat) (op : Op) : Decidable (op.targetsDerived k0) := by
  cases op <;> unfold Op.targetsDerived <;> infer_instance

/-! ## Observations -/

/-- a variable resolved by name in a system -/
def varObs (h : Heap) (sid : Oid) (name : String) : Option VarView :=
  match resolve h sid name with
  | none => none
  | some vid => (h.getVar vid).map (·.view)

/-- … and through one of the system's entities (what a population / holder gets) -/
def varObsVia (h : Heap) (eid : Oid) (name : String) : Option VarView :=
  match resolveVia h eid name with
  | none => none
  | some vid => (h.getVar vid).map (·.view)

/-- the names defined in a system, in dict order -/
def varNames (h : Heap) (sid : Oid) : List String :=
  match h.getSys sid with
  | none => []
  | some s =>
    match h.getMap s.vars with
    | none => []
    | some m => m.map (·.1)

/-- `system.parameters.<name>(date)` -/
def paramObs (h : Heap) (sid : Oid) (name : String) (d : Int) : Option String :=
  match h.getSys sid with
  | none => none
  | some s =>
    match h.getPar s.params with
    | none => none
    | some p =>
      match dictGet name p with
      | none => none
      | some l => pget l d

/-- `base_tax_benefit_system`: the end of the `baseline` chain -/
def rootOf : Nat → Heap → Oid → Oid
  | 0, _, sid => sid
  | fuel + 1, h, sid =>
    match h.getSys sid with
    | none => sid
    | some s =>
      match s.baseline with
      | none => sid
      | some b => rootOf fuel h b

/-- `get_variables(entity=e)`: the names defined for the entity key -/
def namesFor (h : Heap) (sid : Oid) (key : String) : List String :=
  (varNames h sid).filter fun n =>
    match resolve h sid n with
    | none => false
    | some vid => match h.getVar vid with | some v => v.entity == key | none => false

/-- the dated history of a parameter of a system -/
def paramHist (h : Heap) (sid : Oid) (name : String) : Option (List (Entry String)) :=
  match h.getSys sid with
  | none => none
  | some s =>
    match h.getPar s.params with
    | none => none
    | some p => dictGet name p

/-- a declared update as the update request of the parameter model (C06) -/
def PUpd.toUpd (u : PUpd) : Upd String := ⟨u.a, u.b, u.v⟩

/-- everything the property observes of a system -/
structure SysObs where
  names  : List String
  byName : String → Option VarView
  via    : List (String → Option VarView)        -- one per entity, in the system's order
  keys   : List (Option String)                  -- the entities' keys
  param  : String → Int → Option String

def sysObs (h : Heap) (sid : Oid) : SysObs :=
  { names := varNames h sid
    byName := varObs h sid
    via := match h.getSys sid with
           | none => []
           | some s => s.entities.map (fun e => varObsVia h e)
    keys := match h.getSys sid with
            | none => []
            | some s => s.entities.map (fun e => (h.getEnt e).map (·.key))
    param := paramObs h sid }

/-- the system object, its variable dict (whose entries are variable objects) and its parameter
    tree exist -/
def SysWF (h : Heap) (X : Oid) : Prop :=
  ∃ s m p, h.getSys X = some s ∧ h.getMap s.vars = some m ∧ h.getPar s.params = some p ∧
    ∀ e ∈ m, ∃ v, h.getVar e.2 = some v

/-- the variable names a modification declares a change for -/
def Mod.touched : Mod → List String
  | .add c => [c.name]
  | .update c => [c.name]
  | .replace c => [c.name]
  | .neutralize n => [n]
  | .annualize n => [n]
  | .params _ => []
  | .loadExt e => e.vars.map (fun c => c.name)

def Mod.isParams : Mod → Bool
  | .add _ => false
  | .update _ => false
  | .replace _ => false
  | .neutralize _ => false
  | .annualize _ => false
  | .params _ => true
  | .loadExt e => !e.params.isEmpty

/-- `TaxBenefitSystem(entities)`, a parameter tree, then `add_variable` for each class: the base
    systems of the correspondence. The entity objects handed to the constructor stay unbound; the
    system binds its own copies. -/
def baseSystem (keys : List String) (p : ParamTree) (cs : List ClassDef) : Option State :=
  let protos : List Obj := keys.map fun k => Obj.ent { key := k, system := none }
  let n := protos.length
  let sid := n
  let ents : List Obj := keys.map fun k => Obj.ent { key := k, system := some sid }
  let eids := (List.range n).map (fun i => sid + 1 + i)
  let mid := sid + 1 + n
  let pid := mid + 1
  let h : Heap := ⟨protos ++ (Obj.sys { entities := eids, vars := mid, params := pid, baseline := none }
                    :: ents ++ [Obj.vmap [], Obj.par p])⟩
  let rec addAll (h : Heap) : List ClassDef → Option Heap
    | [] => some h
    | c :: r =>
      match loadVariable h sid c false with
      | (h1, .ok ()) => addAll h1 r
      | (_, .error _) => none
  (addAll h cs).map fun h => { heap := h, systems := [sid] }

/-- the identities an observation follows out of an object -/
def Obj.ptrs : Obj → List Oid
  | .sys s => s.vars :: s.params :: s.entities
  | .ent e => match e.system with | some i => [i] | none => []
  | .vmap m => m.map (fun p => p.2)
  | .var _ => []
  | .par _ => []

/-- no dangling reference: what an allocation-built heap always satisfies -/
def Closed (h : Heap) : Prop := ∀ o ∈ h.objs, ∀ j ∈ o.ptrs, j < h.next

instance (h : Heap) : Decidable (Closed h) := by unfold Closed; infer_instance

/-! ## Holders and calculations, as far as the property speaks of them -/

/-- `Holder.get_array(period)`: the store is not even read for a neutralised variable -/
def holderGet {P : Type} (v : VarView) (store : P → Option String) (p : P) : Option String :=
  if v.isNeutralized then some v.default else store p

/-- `Holder.set_input(period, value)`: ignored (a warning) for a neutralised variable -/
def holderSetInput {P : Type} [DecidableEq P] (v : VarView) (store : P → Option String) (p : P)
    (x : String) : P → Option String :=
  if v.isNeutralized then store else fun q => if q = p then some x else store q

/-- `Simulation._calculate` for one request on a non-recursive formula environment: a known value
    wins, else the formula in force at the period's start runs (`runF`), else the default -/
def calcVal {P : Type} (v : VarView) (store : P → Option String) (start : P → Int)
    (runF : Fml → P → String) (p : P) : String :=
  match holderGet v store p with
  | some a => a
  | none =>
    match getFormula v (start p) with
    | some f => runF f p
    | none => v.default

/-- a frame of the tracer's stack -/
structure Frame where
  name   : String
  year   : Int
  month  : Nat
deriving DecidableEq, Repr

inductive CalcRes where
  | val (x : String)
  | cycle                         -- `CycleError` (propagates)
  | fuel
deriving DecidableEq, Repr

/-- `Simulation.calculate(name, year-month)` on an annualised monthly variable whose wrapped
    formula is a leaf (`orig`, it requests nothing). `stack` = the frames *above* the current one
    (`tracer.stack[:-1]`), `L = max_spiral_loops`, `cache` = the values already known,
    `inForce` = a formula is in force at that month (`get_formula`).
    `_check_for_cycle`: same (name, period) above ⇒ `CycleError`; `L` or more frames of the same
    variable above ⇒ `SpiralError`, caught by `_calculate`, which returns the default.
    `annual_formula`: not January ⇒ `population(name, period.this_year.first_month)`. -/
def annCalc (L : Nat) (dflt : String) (orig : Int → Nat → String) (inForce : Int → Nat → Bool)
    (cache : Int → Nat → Option String) (name : String) :
    Nat → List Frame → Int → Nat → CalcRes
  | 0, _, _, _ => .fuel
  | fuel + 1, stack, y, m =>
    match cache y m with
    | some a => .val a
    | none =>
      let previous := stack.filter (fun f => f.name = name)
      if previous.any (fun f => f.year = y ∧ f.month = m) then .cycle
      else if L ≤ previous.length then .val dflt
      else if inForce y m = false then .val dflt
      else if m ≠ 1 then annCalc L dflt orig inForce cache name fuel (stack ++ [⟨name, y, m⟩]) y 1
      else .val (orig y m)

end OFCore.HeapSys
