import OFCore.Period
/-!
# Spreading long-period inputs over definition periods (import-free apart from the period model)

Transcription of the REPAIRED code (fixes C16a, C16b applied):

* `openfisca_core/holders/helpers.py` : `set_input_dispatch_by_period`, `set_input_divide_by_period`
* `openfisca_core/holders/holder.py`  : `Holder.set_input`, `_to_array`, `_set`, `get_array`
* `openfisca_core/simulations/simulation.py` : `Simulation.set_input` (the `end` test), `calculate` and
  `calculate_add` on a variable without formula (a sub-period that is not known evaluates to the
  default `0` **and is cached**).
* `openfisca_core/simulations/simulation_builder.py` : `finalize_variables_init` (the buffered inputs of a
  situation document are consumed small periods first: `builderFeed`), `_build_from_variables.py` :
  `add_dated_values` (the short form is consumed in document order: `feedAll`).

A holder's store maps a period (the key is the `Period` triple itself) to a vector with one
exact value per entity. Values are `Rat`; an `int`-typed variable truncates towards zero
whenever an array is converted to the variable's dtype (`ndarray.astype(int32)`).

Python `while sub.start < after: …; sub = sub.offset(1)` is `walkFrom` with explicit fuel (the
number of days between the two instants plus one: every step advances by at least one day).
`holder._set(sub_period, array)` inside the two loops cannot raise (the sub-period has the
variable's definition unit and size 1, the length was checked on entry, the second dtype
conversion is idempotent), so the loops are written with the pure `sput`; the loop as the code has
it is `fillLoop`, and `fillLoop_eq` / `C16_loops_with_set` prove the two equal on every walk.
Not mirrored (outside the claim domain, never generated): when `sub.offset(1)` overflows year 9999
in the middle of the dispatch loop the code has already written some pieces; the model refuses the
whole input and leaves the store unchanged. On-disk storage is not modelled (it is not observable:
the harness runs part of the histories with every array forced to disk); string inputs are
evaluated by the harness' token syntax (the model receives the number).
-/
namespace OFCore

abbrev Vec := List Rat

/-- store of a holder: association list, the first entry for a key is the current one -/
abbrev Store := List (Period × Vec)

/-- `storage.get(period)` : `none` is Python's `None` -/
def sget : Store → Period → Option Vec
  | [], _ => none
  | (q, v) :: r, p => if q = p then some v else sget r p

/-- `storage.put(value, period)` -/
def sput (s : Store) (p : Period) (v : Vec) : Store := (p, v) :: s

/-- known periods, each once, most recent first (`dict` keys) -/
def skeys : Store → List Period
  | [] => []
  | (q, _) :: r => q :: (skeys r).filter (· ≠ q)

inductive SRule | absent | dispatch | divide
deriving DecidableEq, Repr, Inhabited

/-- `num` float variable, `int` integer variable, `opaque` any other value type (bool, date, str,
enum): the items are only copied, the driver encodes them as numbers -/
inductive VKind | num | int | opaque
deriving DecidableEq, Repr, Inhabited

/-- what the spreading code reads of a variable and its population -/
structure VarSpec where
  defUnit : DUnit
  rule : SRule
  kind : VKind
  count : Nat
  /-- `variable.is_neutralized` (`TaxBenefitSystem.neutralize_variable`) -/
  neutralized : Bool := false
  /-- `variable.end` -/
  endDate : Option Date := none
deriving Repr, Inhabited

/-- float → int32 conversion: truncation towards zero -/
def truncR (x : Rat) : Rat := ((Int.tdiv x.num (x.den : Int) : Int) : Rat)

def castVec (k : VKind) (v : Vec) : Vec :=
  match k with
  | .num => v
  | .int => v.map truncR
  | .opaque => v

def vsub (a b : Vec) : Vec := List.zipWith (· - ·) a b
def vadd (a b : Vec) : Vec := List.zipWith (· + ·) a b
def vzero (n : Nat) : Vec := List.replicate n 0
def vdivn (a : Vec) (n : Nat) : Vec := a.map (· / (n : Rat))

/-- `Holder._to_array` : length check, conversion to the variable's dtype -/
def toArray (var : VarSpec) (v : Vec) : Except String Vec :=
  if v.length ≠ var.count then .error "length" else .ok (castVec var.kind v)

/-- storage key: an eternal holder keeps everything under `ETERNITY` -/
def skey (var : VarSpec) (p : Period) : Period :=
  if var.defUnit = .eternity then Period.eternity else p

/-- `Holder.get_array` : a neutralised variable always answers its default (here `0`: only
numeric variables are neutralised by the harness) -/
def getArray (var : VarSpec) (s : Store) (p : Period) : Option Vec :=
  if var.neutralized then some (vzero var.count) else sget s (skey var p)

/-- `Holder._set` -/
def holderSet (var : VarSpec) (s : Store) (p : Period) (v : Vec) : Except String Store := do
  let a ← toArray var v
  if var.defUnit ≠ .eternity then
    if var.defUnit ≠ p.unit ∨ p.size > 1 then .error "mismatch"
    else .ok (sput s p a)
  else .ok (sput s Period.eternity a)

/-- `while sub.start < after: yield sub; sub = sub.offset(1)` -/
def walkFrom (after : Date) : Nat → Period → Except String (List Period)
  | 0, _ => .error "fuel"
  | fuel + 1, sub =>
    if sub.start.lt after then do
      let nxt ← sub.offset (.n 1) none
      let rest ← walkFrom after fuel nxt
      .ok (sub :: rest)
    else .ok []

/-- the definition-period-long pieces visited for an input on `p` -/
def walk (defU : DUnit) (p : Period) : Except String (List Period) := do
  match ← instOffset p.start (.n p.size) p.unit with
  | none => .error "notimpl"
  | some after => walkFrom after ((ord after - ord p.start).toNat + 1) ⟨defU, p.start, 1⟩

/-- `if holder.get_array(sub) is None: holder._set(sub, a)` -/
def fillStep (a : Vec) (s : Store) (q : Period) : Store :=
  match sget s q with
  | none => sput s q a
  | some _ => s

/-- the writing loop of both helpers: every piece still unknown receives `a` -/
def dispatchOn (s : Store) (subs : List Period) (a : Vec) : Store := subs.foldl (fillStep a) s

/-- `remaining_array -= existing_array` / `sub_periods_count += 1` -/
def tallyStep (s : Store) (acc : Vec × Nat) (q : Period) : Vec × Nat :=
  match sget s q with
  | some e => (vsub acc.1 e, acc.2)
  | none => (acc.1, acc.2 + 1)

/-- first loop of `divide`: (amount − Σ known, number of unknown pieces) -/
def tally (s : Store) (subs : List Period) (a : Vec) : Vec × Nat := subs.foldl (tallyStep s) (a, 0)

def divideOn (k : VKind) (s : Store) (subs : List Period) (a : Vec) : Except String Store :=
  let t := tally s subs a
  if t.2 > 0 then .ok (dispatchOn s subs (castVec k (vdivn t.1 t.2)))
  else if t.1.all (fun x => x == 0) then .ok s
  else .error "inconsistent"

/-- `set_input_dispatch_by_period` -/
def dispatchByPeriod (var : VarSpec) (s : Store) (p : Period) (v : Vec) : Except String Store := do
  let a ← toArray var v
  if var.defUnit = .eternity then .error "eternal" else
  let subs ← walk var.defUnit p
  .ok (dispatchOn s subs a)

/-- `set_input_divide_by_period` -/
def divideByPeriod (var : VarSpec) (s : Store) (p : Period) (v : Vec) : Except String Store := do
  let a ← toArray var v
  if var.defUnit = .eternity then .error "eternal" else
  let subs ← walk var.defUnit p
  divideOn var.kind s subs a

/-- `Holder.set_input` (a string value has already been evaluated to its number): an input on a
neutralised variable is ignored with a warning -/
def setInput (var : VarSpec) (s : Store) (p : Period) (v : Vec) : Except String Store :=
  if p.unit = .eternity ∧ var.defUnit ≠ .eternity then .error "mismatch" else
  if var.neutralized then .ok s else
  match var.rule with
  | .dispatch => dispatchByPeriod var s p v
  | .divide => divideByPeriod var s p v
  | .absent => holderSet var s p v

/-- `Simulation.set_input` (and the same test in `SimulationBuilder.finalize_variables_init`): an
input whose period starts after the variable's `end` is silently ignored; `period.start.date` is
a pendulum date, so with an `end` the start must be a real date -/
def simSetInput (var : VarSpec) (s : Store) (p : Period) (v : Vec) : Except String Store :=
  match var.endDate with
  | none => setInput var s p v
  | some e =>
    if !dateOk p.start then .error "date"
    else if e.lt p.start then .ok s
    else setInput var s p v

/-- `calculate(v, q)` on a variable without formula, added to the running sum: a piece that is
not known evaluates to the default and is cached -/
def sumStep (n : Nat) (acc : Vec × Store) (q : Period) : Vec × Store :=
  match sget acc.2 q with
  | some v => (vadd acc.1 v, acc.2)
  | none => (vadd acc.1 (vzero n), sput acc.2 q (vzero n))

/-- `sum(calculate(v, q) for q in subs)` : the sum and the store afterwards -/
def sumOver (n : Nat) (s : Store) (subs : List Period) : Vec × Store :=
  subs.foldl (sumStep n) (vzero n, s)

/-- `Simulation.calculate_add` (with fix F-C03a: an `ETERNITY` period is refused after the
eternal-variable guard); `ok (none, _)` is the integer `0` Python's `sum` returns on an empty list of
pieces (sizes ≤ 0). `calculate`'s `_check_period_consistency` (fix F-C03b included) never fires
here: every piece has the definition unit and size 1. -/
def calcAdd (var : VarSpec) (s : Store) (p : Period) : Except String (Option Vec × Store) :=
  if unitWeight var.defUnit > unitWeight p.unit then .error "value"
  else if var.defUnit = .eternity then .error "eternal"
  else if p.unit = .eternity then .error "eternal-period"
  else do
    let subs ← p.subperiods var.defUnit
    if subs.isEmpty then .ok (none, s)
    else if var.neutralized then .ok (some (vzero var.count), s) else
    let r := sumOver var.count s subs
    .ok (some r.1, r.2)

/-! ### the writing loop with `holder._set`, as the code has it (`fillLoop_eq`: it is `dispatchOn`) -/

/-- `if holder.get_array(sub) is None: holder._set(sub, w)` as the code has it: `_set` converts the
array again and checks the period -/
def fillStepSet (var : VarSpec) (w : Vec) (s : Store) (q : Period) : Except String Store :=
  match getArray var s q with
  | none => holderSet var s q w
  | some _ => .ok s

/-- the writing loop of both helpers, with `holder._set` -/
def fillLoop (var : VarSpec) (w : Vec) : Store → List Period → Except String Store
  | s, [] => .ok s
  | s, q :: r =>
    match fillStepSet var w s q with
    | .ok s' => fillLoop var w s' r
    | .error e => .error e

/-- `Simulation.calculate(v, q)` on a variable without formula (`_check_period_consistency`, then the
cached value, else the default — which `put_in_cache` stores) -/
def calcOne (var : VarSpec) (s : Store) (q : Period) : Except String (Vec × Store) :=
  if var.defUnit ≠ .eternity ∧ (q.unit ≠ var.defUnit ∨ q.size ≠ 1) then .error "consistency" else
  match getArray var s q with
  | some v => .ok (v, s)
  | none => .ok (vzero var.count, sput s (skey var q) (vzero var.count))

/-! ### inputs given at once: situation documents

`SimulationBuilder.build_from_entities` buffers the inputs of a document per variable and period and
`finalize_variables_init` consumes the buffer "small periods first": a stable sort by
`(inf if ETERNITY else size_in_days, unit_weight)`, then the `end` test, then `Holder.set_input`.
`build_from_variables` (the short form `{variable: {period: values}}`, also what a YAML test's `input:`
becomes when no entity is named) hands the inputs to `Simulation.set_input` in DOCUMENT order. -/

/-- sort key of `finalize_variables_init`; `none` is `float("inf")` -/
def feedKey (p : Period) : Except String (Option Int × Int) :=
  if p.unit = .eternity then .ok (none, unitWeight p.unit)
  else match p.sizeInDays with
    | .ok d => .ok (some d, unitWeight p.unit)
    | .error e => .error e

/-- `<=` on the key tuples -/
def keyLe (a b : Option Int × Int) : Bool :=
  match a.1, b.1 with
  | some x, some y => decide (x < y) || (decide (x = y) && decide (a.2 ≤ b.2))
  | some _, none => true
  | none, some _ => false
  | none, none => decide (a.2 ≤ b.2)

abbrev Keyed := (Option Int × Int) × (Period × Vec)

/-- `x` goes in front of the first entry whose key is not smaller (Python's `sorted` is stable: `x` comes
from further up in the document than everything already in the list) -/
def insertKeyed (x : Keyed) : List Keyed → List Keyed
  | [] => [x]
  | y :: r => if keyLe x.1 y.1 then x :: y :: r else y :: insertKeyed x r

def sortKeyed : List Keyed → List Keyed
  | [] => []
  | x :: r => insertKeyed x (sortKeyed r)

/-- the keys are computed for the whole buffer before anything is set -/
def keyAll : List (Period × Vec) → Except String (List Keyed)
  | [] => .ok []
  | pv :: r =>
    match feedKey pv.1 with
    | .error e => .error e
    | .ok k =>
      match keyAll r with
      | .error e => .error e
      | .ok ks => .ok ((k, pv) :: ks)

/-- inputs consumed one after the other through `Simulation.set_input` (or the builder's copy of its
`end` test followed by `Holder.set_input`); the first refusal aborts the construction -/
def feedAll (var : VarSpec) : Store → List (Period × Vec) → Except String Store
  | s, [] => .ok s
  | s, (p, v) :: r =>
    match simSetInput var s p v with
    | .ok s' => feedAll var s' r
    | .error e => .error e

/-- `finalize_variables_init` on the buffer of one variable (document order in, shortest first consumed) -/
def builderFeed (var : VarSpec) (s : Store) (doc : List (Period × Vec)) : Except String Store :=
  match keyAll doc with
  | .error e => .error e
  | .ok ks => feedAll var s ((sortKeyed ks).map (·.2))

end OFCore
