import OFCore.Engine
import OFCore.Period
/-!
# Declarative rule systems and their elaboration to node level (import-free)

A declarative system lists variables (entity, value type, definition period, default, dated
formulas, end date, neutralisation) over a population (persons in groups).  `elabSys` computes the
node-level system of `Engine.lean`: the formula in force at a period's start
(`Variable.get_formula`), period transforms, `_check_period_consistency` for every read, the
ADD option (`calculate_add` = sum over `get_subperiods`), defaults and casts.

Python counterparts: `Variable.get_formula`, `Simulation._check_period_consistency`,
`Simulation.calculate_add`, `Simulation._cast_formula_result`, `Variable.default_array`,
`Holder.get_array` (neutralised variables), `Simulation.set_input` (inputs past `end` ignored).
-/
namespace OFCore.RuleSys
open OFCore OFCore.Engine

inductive VType | int | float | bool | enum | date | str
deriving DecidableEq, Repr, Inhabited

/-- period transforms available to a formula -/
inductive PTrans
  | same | thisYear | firstMonth | lastMonth | lastYear | offset (n : Int) (u : DUnit)
  | fixed (p : Period)       -- a period that does not depend on the formula's own period
deriving DecidableEq, Repr, Inhabited

/-- declarative formula expressions -/
inductive DExpr where
  | const (k : Int)                          -- scalar, broadcast to the entity's size
  | var (w : Nat) (pt : PTrans) (add : Bool) -- `population(w, pt(period)[, options=[ADD]])`
  | op1 (o : Nat) (a : DExpr)
  | op2 (o : Nat) (a b : DExpr)
  | fail (id : Nat) (a : DExpr)
deriving Repr, Inhabited

structure Var where
  entity : Nat                 -- 0 = person, 1 = group
  vtype : VType
  unit : DUnit                 -- definition period
  dflt : Int
  neutralized : Bool
  endOrd : Option Int          -- `end` attribute, as an ordinal
  noStore : Bool
  formulas : List (Int × DExpr)   -- (start ordinal, formula), any order
deriving Repr, Inhabited

structure Decl where
  nP : Nat
  nG : Nat
  mem : List Nat               -- group of each person
  msl : Nat
  vars : List Var
  inputs : List (Nat × Period × Val)
  roles : List Nat := []       -- role of each person in its group (missing entries: role 0)
deriving Repr, Inhabited

def Decl.size (d : Decl) (entity : Nat) : Nat := if entity = 0 then d.nP else d.nG

def applyPT (p : Period) : PTrans → Except String Period
  | .same => .ok p
  | .thisYear => p.thisYear
  | .firstMonth => p.firstMonth
  | .lastMonth => p.lastMonth
  | .lastYear => p.lastYear
  | .offset n u => p.offset (.n n) (some u)
  | .fixed q => .ok q

/-- `_check_period_consistency` (with the DAY / WEEKDAY branches): the period a request for a
    variable of definition unit `u` is served under, or an error -/
def servedPeriod (u : DUnit) (q : Period) : Except String Period :=
  if u = .eternity then .ok q          -- every period is accepted; the value is STORED under ETERNITY
  else if q.unit ≠ u then .error "unit"
  else if q.size ≠ 1 then .error "size"
  else .ok q

/-- one step of the scan of `Variable.get_formula`: keep the admissible formula with the
    greatest start date (the later declaration wins a tie) -/
def pickStep (o : Int) (best : Option (Int × DExpr)) (f : Int × DExpr) : Option (Int × DExpr) :=
  if f.1 ≤ o then
    match best with
    | none => some f
    | some b => if b.1 ≤ f.1 then some f else some b
  else best

def pickFormula (v : Var) (startOrd : Int) : Option DExpr :=
  (v.formulas.foldl (pickStep startOrd) none).map (·.2)

/-- `Variable.get_formula(period)`: the formula with the greatest start ≤ the period's start,
    none past the `end` date (or for a variable without formulas) -/
def formulaInForce (v : Var) (startOrd : Int) : Option DExpr :=
  match v.endOrd with
  | some e => if startOrd > e then none else pickFormula v startOrd
  | none => pickFormula v startOrd

def vecAdd (a b : Val) : Val := List.zipWith (· + ·) a b

/-- does a person holding flattened role `ρ` match the role digit `r` of an operation
    (`Population.has_role`)?  `r = 9`: no role filter, everybody matches; `r = 8`: the first
    top-level role of an entity whose first role has two sub-roles — flattened roles 0 and 1 match
    (`has_role` of a role with sub-roles is the disjunction over its sub-roles); any other digit:
    the flattened role `r` itself -/
def roleMatch (r ρ : Nat) : Bool := decide (r = 9 ∨ ρ = r ∨ (r = 8 ∧ ρ < 2))

/-- sum of `x` over the members of group `g` that hold role `r` (`GroupPopulation.sum(x, role)`);
    it does not depend on the order in which persons are stored -/
def roleSum (d : Decl) (r : Nat) (x : Val) (g : Nat) : Int :=
  (((List.range d.mem.length).filter (fun i => d.mem.getD i 0 = g ∧ roleMatch r (d.roles.getD i 0) = true)).map
    (fun i => x.getD i 0)).foldl (· + ·) 0

/-- the values of `x` at the members of group `g` that hold role `r` (`r = 9`: at every member,
    no role filter), in storage order -/
def holderVals (d : Decl) (r : Nat) (x : Val) (g : Nat) : List Int :=
  ((List.range d.mem.length).filter (fun i => d.mem.getD i 0 = g ∧ roleMatch r (d.roles.getD i 0) = true)).map
    (fun i => x.getD i 0)

/-- total reductions on integers: the greatest / least element (0 for no element: the ±∞ that
    `GroupPopulation.max` / `min` return for a group without holder is replaced by 0), and "every
    element is non-zero" (1 for no element, like `GroupPopulation.all`) -/
def listMax : List Int → Int
  | [] => 0
  | a :: t => t.foldl max a
def listMin : List Int → Int
  | [] => 0
  | a :: t => t.foldl min a
def listAll (l : List Int) : Int := if l.all (fun a => a ≠ 0) then 1 else 0

/-- role-based operations (operation codes 10–79, role `r = o % 10`, `r = 9` = no role filter for
    the reductions 50–79): every one is a function of the SET (multiset of values) of role holders
    of each group.  The order-dependent operations of `GroupPopulation` (`value_nth_person`,
    `first_person`, `get_rank`) are deliberately NOT in the language: their result is defined by
    storage order. -/
def isRoleOp (o : Nat) : Bool := decide (10 ≤ o ∧ o < 80)

/-- projections with a role filter (codes 80–89, `GroupPopulation.project(x, role)`): the group's
    value for the members that match the role digit, 0 for the others -/
def isProjOp (o : Nat) : Bool := decide (80 ≤ o ∧ o < 90)

/-- unary operations on vectors -/
def f1 (d : Decl) (o : Nat) (x : Val) : Val :=
  if o = 0 then x.map (fun a => -a)
  else if o = 1 then          -- sum over the members of each group
    (List.range d.nG).map (fun g => ((d.mem.zip x).filter (fun m => m.1 = g)).foldl (fun acc m => acc + m.2) 0)
  else if o = 2 then          -- projection of a group vector onto persons
    d.mem.map (fun g => x.getD g 0)
  else if o = 3 then x.map (fun a => if a ≠ 0 then 1 else 0)
  else if 10 ≤ o ∧ o < 20 then    -- `sum(x, role=r)`
    (List.range d.nG).map (roleSum d (o - 10) x)
  else if 20 ≤ o ∧ o < 30 then    -- `value_from_person(x, role=r)`, `r` a unique role: the holder's
                                   -- value, 0 (the default) for a group without holder
    (List.range d.nG).map (roleSum d (o - 20) x)
  else if 30 ≤ o ∧ o < 40 then    -- `nb_persons(role=r)` (the operand's values are not used)
    (List.range d.nG).map (roleSum d (o - 30) (List.replicate d.mem.length 1))
  else if 40 ≤ o ∧ o < 50 then    -- `any(x, role=r)` = `sum(x, role=r) > 0`
    (List.range d.nG).map (fun g => if roleSum d (o - 40) x g > 0 then 1 else 0)
  else if 50 ≤ o ∧ o < 60 then    -- `max(x, role=r)` (`r = 9`: `max(x)`), 0 for a group without holder
    (List.range d.nG).map (fun g => listMax (holderVals d (o - 50) x g))
  else if 60 ≤ o ∧ o < 70 then    -- `min(x, role=r)`, 0 for a group without holder
    (List.range d.nG).map (fun g => listMin (holderVals d (o - 60) x g))
  else if 70 ≤ o ∧ o < 80 then    -- `all(x, role=r)`, 1 for a group without holder
    (List.range d.nG).map (fun g => listAll (holderVals d (o - 70) x g))
  else if 80 ≤ o ∧ o < 90 then    -- `project(x, role=r)`: a group vector onto the persons holding role r
    (List.range d.mem.length).map (fun i =>
      if roleMatch (o - 80) (d.roles.getD i 0) = true then x.getD (d.mem.getD i 0) 0 else 0)
  else if 100 ≤ o then x.map (fun a => a * ((o : Int) - 150))
  else x

def f2 (o : Nat) (x y : Val) : Val :=
  let z (f : Int → Int → Int) := List.zipWith f x y
  if o = 0 then z (· + ·)
  else if o = 1 then z (· - ·)
  else if o = 2 then z min
  else if o = 3 then z max
  else if o = 4 then z (fun a b => if a < b then 1 else 0)
  else if o = 5 then z (fun a b => if a ≤ b then 1 else 0)
  else if o = 6 then z (fun a b => if a = b then 1 else 0)
  else if o = 7 then z (fun c a => if c ≠ 0 then a else 0)
  else if o = 8 then z (fun c b => if c ≠ 0 then 0 else b)
  else x

def castTo (t : VType) (x : Val) : Val :=
  match t with
  | .bool => x.map (fun a => if a ≠ 0 then 1 else 0)
  | .int => x
  | .float => x
  | .enum => x
  | .date => x
  | .str => x

/-- one read `population(w, q, options)` elaborated to node level -/
def elabRead (d : Decl) (w : Nat) (q : Except String Period) (add : Bool) : Expr Period :=
  match d.vars[w]?, q with
  | none, _ => .bad
  | _, .error _ => .bad
  | some wv, .ok q =>
    if add then
      -- `calculate_add`
      if unitWeight wv.unit > unitWeight q.unit then .bad
      else if wv.unit = .eternity then .bad
      else if q.unit = .eternity then .bad
      else match q.subperiods wv.unit with
        | .error _ => .bad
        | .ok [] => .bad
        | .ok (s :: ss) =>
          -- every sub-period is requested through `calculate`, which re-checks consistency
          let node (s : Period) : Expr Period := match servedPeriod wv.unit s with
            | .ok s' => .ref w s'
            | .error _ => .bad
          ss.foldl (fun acc s => .op2 0 acc (node s)) (node s)
    else
      match servedPeriod wv.unit q with
      | .ok q' => .ref w q'
      | .error _ => .bad

/-- elaboration of a formula expression; `ent` is the entity the sub-expression lives on
    (`op1 1` and the role operations `op1 10..79` turn a person-level operand into a group
    vector, `op1 2` and `op1 80..89` project a group-level operand onto persons) -/
def elabExpr (d : Decl) (ent : Nat) (p : Period) : DExpr → Expr Period
  | .const k => .const (List.replicate (d.size ent) k)
  | .var w pt add =>
    match d.vars[w]? with
    | none => .bad
    | some wv => if wv.entity = ent then elabRead d w (applyPT p pt) add else .bad
  | .op1 o a => .op1 o (elabExpr d (if o = 1 ∨ isRoleOp o = true then 0 else if o = 2 ∨ isProjOp o = true then 1 else ent) p a)
  | .op2 o a b => .op2 o (elabExpr d ent p a) (elabExpr d ent p b)
  | .fail id a => .fail id (elabExpr d ent p a)

/-- start ordinal used to select the formula: the period's start (never below day 1: the code
    cannot build an `Instant.date` before 0001-01-01; the ETERNITY period itself has no date) -/
def startOrdOf (p : Period) : Int := if p.unit = .eternity then 1 else max 1 (ord p.start)

/-- the period a value of variable `v` requested for `p` is stored under -/
def storageKey (d : Decl) (v : Nat) (p : Period) : Period :=
  match d.vars[v]? with
  | some vv => if vv.unit = .eternity then Period.eternity else p
  | none => p

def inputLookup (d : Decl) (v : Nat) (p : Period) : Option Val :=
  (d.inputs.find? (fun i => i.1 = v ∧ storageKey d v i.2.1 = storageKey d v p)).map (·.2.2)

/-- the node-level system -/
def elabSys (d : Decl) (armed : List Nat) : Sys Period where
  formula v p := match d.vars[v]? with
    | none => none
    | some vv => (formulaInForce vv (startOrdOf p)).map (elabExpr d vv.entity p)
  input v p := match d.vars[v]? with
    | none => none
    | some vv =>
      if vv.neutralized then some (List.replicate (d.size vv.entity) vv.dflt)
      else match vv.endOrd with
        | some e => if p.unit ≠ .eternity ∧ ord p.start > e then none else inputLookup d v p
        | none => inputLookup d v p
  dflt v := match d.vars[v]? with
    | none => []
    | some vv => List.replicate (d.size vv.entity) vv.dflt
  post v x := match d.vars[v]? with
    | none => x
    | some vv => castTo vv.vtype x
  f1 := f1 d
  f2 := f2
  armed id := armed.contains id
  msl := d.msl
  noStore v := match d.vars[v]? with
    | none => false
    | some vv => vv.noStore
  ckey := storageKey d

/-- a top-level `Simulation.calculate(v, q)`: the node it is served under -/
def requestNode (d : Decl) (v : Nat) (q : Period) : Except String (Node Period) :=
  match d.vars[v]? with
  | none => .error "unknown"
  | some vv => do let q' ← servedPeriod vv.unit q; .ok (v, q')

/-- a top-level `Simulation.calculate_add(v, q)`: the nodes requested, in order -/
def requestAddNodes (d : Decl) (v : Nat) (q : Period) : Except String (List (Except String (Node Period))) :=
  match d.vars[v]? with
  | none => .error "unknown"
  | some vv =>
    if unitWeight vv.unit > unitWeight q.unit then .error "weight"
    else if vv.unit = .eternity then .error "eternal"
    else if q.unit = .eternity then .error "eternal-period"
    else do
      let subs ← q.subperiods vv.unit
      .ok (subs.map (fun s => requestNode d v s))


/-! ## The extended formula language: DIVIDE reads and parameters

`Simulation.calculate_divide` / `population(w, q, options=[DIVIDE])` and `parameters(instant).a.b`
are added WITHOUT touching the definitions above (the household-equivariance proofs of C11 are
about them): the concrete syntax stays `DExpr`, two reserved unary codes carry the new forms,

* `op1 900 (var w pt _)`  — `floor(population(w, pt(period), options=[DIVIDE]))`
* `op1 901 (var i pt _)`  — `parameters(pt(period)).<i-th parameter>` (a scalar, broadcast)

and `xelabExpr` elaborates them (`elabDivide`, `elabParam`); every other expression elaborates as
before (`xelabExpr_plain` in `Lemmas/RuleSysCoherent.lean`).

DIVIDE on integers: the code returns `calculate(w, c) / n` with `c` the definition-period-long
period around the start of `q` and `n` the size of `c` in units of `q` (12 for a yearly variable
asked for a month, 365/366 for a day, 28–31 for a monthly variable asked for a day, 1 when the
units agree).  Formulas of the language consume the share through `floor`, so that values stay
integers: node-level code `XDIV + n` is the floor division by `n`.  (Exactness of the float
computation: for an integer |x| < 2²² and 1 ≤ n ≤ 366 the float32 quotient differs from x/n by
at most 2⁻²⁴·|x|/n < 1/(4n), while x/n is either an integer — then the quotient is exact — or at
least 1/n away from every integer: the computed quotient never crosses an integer and its floor
is ⌊x/n⌋.  The harness generates on that lattice; a top-level `calculate_divide` is compared
exactly, as numerators over the denominator.)
-/

/-- a declarative system with dated parameters: `params[i]` lists `(start ordinal, value)` -/
structure XDecl extends Decl where
  params : List (List (Int × Int)) := []
  outputs : List Nat := []       -- `calculate_output` attribute of each variable: 1 = calculate_output_add,
                                 -- 2 = calculate_output_divide, anything else / missing = none
deriving Repr, Inhabited

/-- `calculate_divide`: the period the variable is computed for (`calculation_period`) -/
def divPeriod (u : DUnit) (q : Period) : Except String Period :=
  match u with
  | .year => q.thisYear
  | .month => q.firstMonth
  | .day => .ok q.firstDay
  | .week => q.firstWeek
  | .weekday => .ok q.firstWeekday
  | .eternity => .error "eternal"

/-- `calculate_divide`: the denominator, the size of that period in units of the requested one -/
def divDenominator (u : DUnit) (c : Period) : Except String Int :=
  match u with
  | .year => c.sizeInYears
  | .month => c.sizeInMonths
  | .day => c.sizeInDays
  | .week => c.sizeInWeeks
  | .weekday => c.sizeInWeekdays
  | .eternity => .error "eternal"

/-- node-level unary codes `XDIV + n`: floor division by `n` -/
def XDIV : Nat := 1000000

/-- the guards of `calculate_divide`, then the served node and the denominator -/
def divideTarget (d : Decl) (w : Nat) (q : Period) : Except String (Node Period × Nat) :=
  match d.vars[w]? with
  | none => .error "unknown"
  | some wv =>
    if unitWeight wv.unit < unitWeight q.unit ∨ q.size > 1 then .error "weight"
    else if wv.unit = .eternity then .error "eternal"
    else if q.unit = .eternity ∨ q.size ≠ 1 then .error "eternal-period"
    else match divPeriod wv.unit q with
      | .error e => .error e
      | .ok c =>
        match divDenominator q.unit c with
        | .error e => .error e
        | .ok n =>
          if n ≤ 0 then .error "denominator"
          else match servedPeriod wv.unit c with
            | .error e => .error e
            | .ok c' => .ok ((w, c'), n.toNat)

/-- `floor(population(w, q, options=[DIVIDE]))` elaborated to node level -/
def elabDivide (d : Decl) (w : Nat) (q : Except String Period) : Expr Period :=
  match q with
  | .error _ => .bad
  | .ok q =>
    match divideTarget d w q with
    | .error _ => .bad
    | .ok (k, n) => .op1 (XDIV + n) (.ref k.1 k.2)

/-- one step of the scan for the latest dated value on or before `o` -/
def latestStep (o : Int) (best : Option (Int × Int)) (f : Int × Int) : Option (Int × Int) :=
  if f.1 ≤ o then
    match best with
    | none => some f
    | some b => if b.1 ≤ f.1 then some f else some b
  else best

/-- `Parameter.get_at_instant`: the value with the greatest start on or before the instant -/
def paramAt (tbl : List (Int × Int)) (o : Int) : Option Int :=
  (tbl.foldl (latestStep o) none).map (·.2)

/-- the value `parameters(q).<i>` reads: at the START of `q`; none for an unknown parameter, an
    instant that cannot be built, or a parameter with no value yet at that instant
    (`ParameterNotFoundError`) -/
def paramValue (x : XDecl) (i : Nat) (q : Except String Period) : Option Int :=
  match x.params[i]?, q with
  | none, _ => none
  | _, .error _ => none
  | some tbl, .ok q => if q.unit = .eternity then none else paramAt tbl (ord q.start)

def elabParam (x : XDecl) (ent : Nat) (i : Nat) (q : Except String Period) : Expr Period :=
  match paramValue x i q with
  | none => .bad
  | some k => .const (List.replicate (x.size ent) k)

def OP_DIVIDE : Nat := 900
def OP_PARAM : Nat := 901

/-- the two reserved forms -/
def specialOp (x : XDecl) (ent : Nat) (p : Period) (o : Nat) : DExpr → Option (Expr Period)
  | .var w pt _ =>
    if o = OP_DIVIDE then
      some (match x.vars[w]? with
        | none => .bad
        | some wv => if wv.entity = ent then elabDivide x.toDecl w (applyPT p pt) else .bad)
    else if o = OP_PARAM then some (elabParam x ent w (applyPT p pt))
    else none
  | .const _ => none
  | .op1 _ _ => none
  | .op2 _ _ _ => none
  | .fail _ _ => none

/-- elaboration of the extended language -/
def xelabExpr (x : XDecl) (ent : Nat) (p : Period) : DExpr → Expr Period
  | .const k => .const (List.replicate (x.size ent) k)
  | .var w pt add =>
    match x.vars[w]? with
    | none => .bad
    | some wv => if wv.entity = ent then elabRead x.toDecl w (applyPT p pt) add else .bad
  | .op1 o a =>
    match specialOp x ent p o a with
    | some e => e
    | none => .op1 o (xelabExpr x (if o = 1 ∨ isRoleOp o = true then 0 else if o = 2 ∨ isProjOp o = true then 1 else ent) p a)
  | .op2 o a b => .op2 o (xelabExpr x ent p a) (xelabExpr x ent p b)
  | .fail id a => .fail id (xelabExpr x ent p a)

/-- unary operations of the extended language -/
def xf1 (d : Decl) (o : Nat) (v : Val) : Val :=
  if XDIV < o then v.map (fun a => a / ((o - XDIV : Nat) : Int)) else f1 d o v

/-- the node-level system of an extended declaration -/
def xelabSys (x : XDecl) (armed : List Nat) : Sys Period :=
  { elabSys x.toDecl armed with
    formula := fun v p => match x.vars[v]? with
      | none => none
      | some vv => (formulaInForce vv (startOrdOf p)).map (xelabExpr x vv.entity p)
    f1 := xf1 x.toDecl }

/-- which request `Simulation.calculate_output(v, q)` forwards to -/
inductive OutKind | plain | add | divide
deriving DecidableEq, Repr

def outputKind (x : XDecl) (v : Nat) : OutKind :=
  match x.outputs[v]? with
  | some 1 => .add
  | some 2 => .divide
  | _ => .plain

/-- a top-level `Simulation.calculate_divide(v, q)`: the node requested and the denominator -/
def requestDivNode (d : Decl) (v : Nat) (q : Period) : Except String (Node Period × Nat) := divideTarget d v q

/-- the parameters the formula in force at a node reads, in evaluation order, with the instant
    (as an ordinal) and the value read — what the full tracer records in `TraceNode.parameters`;
    a read that raises ends the list (the formula stops there) -/
def paramReadsE (x : XDecl) (p : Period) : DExpr → List (Nat × Int × Int) × Bool
  | .const _ => ([], true)
  | .var _ _ _ => ([], true)
  | .op1 o a =>
    match a with
    | .var i pt _ =>
      if o = OP_PARAM then
        match paramValue x i (applyPT p pt), applyPT p pt with
        | some k, .ok q => ([(i, ord q.start, k)], true)
        | _, _ => ([], false)
      else ([], true)
    | .const _ => ([], true)
    | .op1 _ _ => paramReadsE x p a
    | .op2 _ _ _ => paramReadsE x p a
    | .fail _ _ => paramReadsE x p a
  | .op2 _ a b =>
    let (ra, oka) := paramReadsE x p a
    if oka then let (rb, okb) := paramReadsE x p b; (ra ++ rb, okb) else (ra, false)
  | .fail _ a => paramReadsE x p a

/-! ## operations on the stored values between requests

`Simulation.get_array`, `Simulation.delete_arrays`, `Simulation.set_input` act on the holder's
store.  In the model the store is the cache plus the declared inputs. -/

/-- `Simulation.get_array(v, q)`: the stored value, if any (no calculation) -/
def getArray (sys : Sys Period) (s : St Period) (k : Node Period) : Option Val :=
  match lookup s.cache (sys.slot k) with
  | some (x, _) => some x
  | none => sys.input k.1 k.2

/-- is the stored period `k` deleted by `delete_arrays(q)`?  (`q.contains(k)`; an eternal
    variable has one slot, deleted by any period) -/
def deletes (eternal : Bool) (q k : Period) : Bool :=
  eternal || (match q.contains k with | .ok b => b | .error _ => false)

def isEternalVar (d : Decl) (v : Nat) : Bool :=
  match d.vars[v]? with
  | some vv => decide (vv.unit = .eternity)
  | none => false

/-- `Simulation.delete_arrays(v, q)` (`q = none`: every period) on the computed values -/
def deleteCached (d : Decl) (v : Nat) (q : Option Period) (c : Cache Period) : Cache Period :=
  c.filter (fun e => !(e.1.1 = v && (match q with | none => true | some q => deletes (isEternalVar d v) q e.1.2)))

/-- … and on the inputs -/
def deleteInputs (d : Decl) (v : Nat) (q : Option Period) : List (Nat × Period × Val) :=
  d.inputs.filter (fun i => !(i.1 = v && (match q with | none => true | some q => deletes (isEternalVar d v) q i.2.1)))

/-- `Simulation.set_input(v, q, x)`: refused for a period that is not one definition period long
    (`PeriodMismatchError`), ignored past the variable's end and for a neutralised variable;
    otherwise the value replaces whatever was stored under the slot -/
inductive SetOutcome | refused | ignored | stored
deriving DecidableEq, Repr

def setInputOutcome (d : Decl) (v : Nat) (q : Period) : SetOutcome :=
  match d.vars[v]? with
  | none => .refused
  | some vv =>
    if (match vv.endOrd with | some e => decide (q.unit ≠ DUnit.eternity ∧ ord q.start > e) | none => false) then .ignored
    else if q.unit = DUnit.eternity ∧ vv.unit ≠ DUnit.eternity then .refused
    else if vv.neutralized then .ignored
    else if vv.unit ≠ DUnit.eternity ∧ (vv.unit ≠ q.unit ∨ q.size > 1) then .refused
    else .stored

end OFCore.RuleSys
