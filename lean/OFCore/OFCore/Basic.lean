def hello := "world"
