import OFCore.Calendar
import OFCore.Generated
/-!
# Period model (import-free apart from the calendar and the generated tables)

Transcription of `openfisca_core/periods/{period_,instant_,helpers}.py`. Every method that
can raise returns `Except String _`; `none` inside the `Except` is Python's `None`.
-/
namespace OFCore

inductive DUnit | weekday | week | day | month | year | eternity
deriving DecidableEq, Repr, Inhabited

def DUnit.name : DUnit → String
  | .weekday => "weekday" | .week => "week" | .day => "day"
  | .month => "month" | .year => "year" | .eternity => "eternity"

def DUnit.all : List DUnit := [.weekday, .week, .day, .month, .year, .eternity]

def DUnit.ofName (s : String) : Option DUnit := DUnit.all.find? (fun u => u.name == s)

/-- `helpers.unit_weight`, from the table extracted from the source -/
def unitWeight (u : DUnit) : Int := (Generated.unitWeightTable.lookup u.name).getD 0

structure Period where
  unit : DUnit
  start : Date
  size : Int
deriving DecidableEq, Repr, Inhabited

def eternityDate : Date := ⟨-1, -1, -1⟩
def Period.eternity : Period := ⟨.eternity, eternityDate, -1⟩

/-- what `pendulum.date(y, m, d)` accepts -/
def dateOk (c : Date) : Bool := decide (c.Valid ∧ c.y ≤ 9999)

/-- a date produced by pendulum arithmetic: out of range raises -/
def chk (c : Date) : Except String Date :=
  if 1 ≤ c.y ∧ c.y ≤ 9999 then .ok c else .error "range"

inductive Off | firstOf | lastOf | n (k : Int)
deriving DecidableEq, Repr

/-- `Instant.offset`: `ok none` is Python's `None` -/
def instOffset (c : Date) (off : Off) (u : DUnit) : Except String (Option Date) :=
  if u = .eternity then .error "assert" else
  match off with
  | .firstOf =>
    match u with
    | .year => .ok (some ⟨c.y, 1, 1⟩)
    | .month => .ok (some ⟨c.y, c.m, 1⟩)
    | .week => if dateOk c then (chk (startOfWeek c)).map some else .error "date"
    | _ => .ok none
  | .lastOf =>
    match u with
    | .year => .ok (some ⟨c.y, 12, 31⟩)
    | .month => if dateOk c then .ok (some (endOfMonth c)) else .error "date"
    | .week => if dateOk c then (chk (endOfWeek c)).map some else .error "date"
    | _ => .ok none
  | .n k =>
    if !dateOk c then .error "date" else
    match u with
    | .year => (chk (addMonths c (12 * k))).map some
    | .month => (chk (addMonths c k)).map some
    | .week => (chk (addDays c (7 * k))).map some
    | .day => (chk (addDays c k)).map some
    | .weekday => (chk (addDays c k)).map some
    | .eternity => .ok none

/-- `Period.offset(offset, unit=None)` -/
def Period.offset (p : Period) (off : Off) (u : Option DUnit) : Except String Period := do
  match ← instOffset p.start off (u.getD p.unit) with
  | none => .error "notimpl"
  | some s => .ok ⟨p.unit, s, p.size⟩

/-- first day after the period: `start.add(<size units>)` -/
def Period.after (p : Period) : Except String Date :=
  match p.unit with
  | .year => .ok (addMonths p.start (12 * p.size))
  | .month => .ok (addMonths p.start p.size)
  | .week => .ok (addDays p.start (7 * p.size))
  | .day => .ok (addDays p.start p.size)
  | .weekday => .ok (addDays p.start p.size)
  | .eternity => .error "eternity"

/-- `Period.stop` -/
def Period.stop (p : Period) : Except String Date :=
  match p.unit with
  | .eternity => .ok eternityDate
  | .year => if dateOk p.start then do chk (addDays (← chk (addMonths p.start (12 * p.size))) (-1)) else .error "date"
  | .month => if dateOk p.start then do chk (addDays (← chk (addMonths p.start p.size)) (-1)) else .error "date"
  | .week => if dateOk p.start then chk (addDays p.start (7 * p.size - 1)) else .error "date"
  | .day => if dateOk p.start then chk (addDays p.start (p.size - 1)) else .error "date"
  | .weekday => if dateOk p.start then chk (addDays p.start (p.size - 1)) else .error "date"

def Period.sizeInYears (p : Period) : Except String Int :=
  if p.unit = .year then .ok p.size else .error "value"

def Period.sizeInMonths (p : Period) : Except String Int :=
  if p.unit = .year then .ok (p.size * 12)
  else if p.unit = .month then .ok p.size else .error "value"

/-- the `(last_day.date - start.date).days + 1` computation shared by two properties -/
def Period.spanDays (p : Period) : Except String Int := do
  match ← instOffset p.start (.n p.size) p.unit with
  | none => .error "notimpl"
  | some last =>
    match ← instOffset last (.n (-1)) .day with
    | none => .error "notimpl"
    | some lastDay => .ok (ord lastDay - ord p.start + 1)

def Period.sizeInDays (p : Period) : Except String Int :=
  match p.unit with
  | .year => p.spanDays
  | .month => p.spanDays
  | .week => .ok (p.size * 7)
  | .day => .ok p.size
  | .weekday => .ok p.size
  | .eternity => .error "value"

/-- pendulum `start.diff(cease).in_weeks()` -/
def inWeeks (a b : Date) : Int :=
  let days := ord b - ord a
  if days < 0 then -((-days) / 7) else days / 7

def Period.sizeInWeeks (p : Period) : Except String Int :=
  match p.unit with
  | .year => if dateOk p.start then do
      let c ← chk (addMonths p.start (12 * p.size)); .ok (inWeeks p.start c) else .error "date"
  | .month => if dateOk p.start then do
      let c ← chk (addMonths p.start p.size); .ok (inWeeks p.start c) else .error "date"
  | .week => .ok p.size
  | _ => .error "value"

def Period.sizeInWeekdays (p : Period) : Except String Int :=
  match p.unit with
  | .year => do let w ← p.sizeInWeeks; .ok (w * 7)
  | .month => p.spanDays
  | .week => .ok (p.size * 7)
  | .day => .ok p.size
  | .weekday => .ok p.size
  | .eternity => .error "value"

/-- `Period.days` -/
def Period.days (p : Period) : Except String Int := do
  let s ← p.stop
  if dateOk s ∧ dateOk p.start then .ok (ord s - ord p.start + 1) else .error "date"

def Period.thisYear (p : Period) : Except String Period := do
  match ← instOffset p.start .firstOf .year with
  | none => .error "notimpl"
  | some s => .ok ⟨.year, s, 1⟩

def Period.firstMonth (p : Period) : Except String Period := do
  match ← instOffset p.start .firstOf .month with
  | none => .error "notimpl"
  | some s => .ok ⟨.month, s, 1⟩

def Period.firstDay (p : Period) : Period := ⟨.day, p.start, 1⟩
def Period.firstWeekday (p : Period) : Period := ⟨.weekday, p.start, 1⟩

def Period.firstWeek (p : Period) : Except String Period := do
  match ← instOffset p.start .firstOf .week with
  | none => .error "notimpl"
  | some s => .ok ⟨.week, s, 1⟩

def Period.lastMonth (p : Period) : Except String Period := do
  (← p.firstMonth).offset (.n (-1)) none
def Period.last3Months (p : Period) : Except String Period := do
  let fm ← p.firstMonth
  (Period.mk .month fm.start 3).offset (.n (-3)) none
def Period.lastYear (p : Period) : Except String Period := do
  (← p.thisYear).offset (.n (-1)) none
def Period.n2 (p : Period) : Except String Period := do
  (← p.thisYear).offset (.n (-2)) none
def Period.lastWeek (p : Period) : Except String Period := do
  (← p.firstWeek).offset (.n (-1)) none
def Period.lastNWeeks (p : Period) (size back : Int) : Except String Period := do
  let fw ← p.firstWeek
  (Period.mk .week fw.start size).offset (.n (-back)) none

/-- `[base.offset(i, unit) for i in range(n)]` -/
def offsetsFrom (base : Period) (u : DUnit) (n : Int) : Except String (List Period) :=
  (List.range n.toNat).mapM (fun (i : Nat) => base.offset (.n (Int.ofNat i)) (some u))

/-- `Period.get_subperiods` -/
def Period.subperiods (p : Period) (u : DUnit) : Except String (List Period) :=
  if unitWeight p.unit < unitWeight u then .error "value" else
  match u with
  | .year => do offsetsFrom (← p.thisYear) .year p.size
  | .month => do offsetsFrom (← p.firstMonth) .month (← p.sizeInMonths)
  | .day => do offsetsFrom p.firstDay .day (← p.sizeInDays)
  | .week => do offsetsFrom (← p.firstWeek) .week (← p.sizeInWeeks)
  | .weekday => do offsetsFrom p.firstWeekday .weekday (← p.sizeInWeekdays)
  | .eternity => .error "value"

/-- `Period.contains` (tuple comparison of instants; `and` short-circuits) -/
def Period.contains (p q : Period) : Except String Bool :=
  if p.start.le q.start then do
    let ps ← p.stop
    let qs ← q.stop
    .ok (decide (qs.le ps))
  else .ok false

def Date.max' (a b : Date) : Date := if a.lt b then b else a
def Date.min' (a b : Date) : Date := if b.lt a then b else a

/-- `Period.intersection(start, stop)`; `ok none` is Python's `None` -/
def Period.intersection (p : Period) (a b : Option Date) : Except String (Option Period) :=
  if a.isNone ∧ b.isNone then .ok (some p) else do
  let pstart := p.start
  let pstop ← p.stop
  let a := a.getD pstart
  let b := b.getD pstop
  if b.lt pstart ∨ pstop.lt a then .ok none else
  let is := Date.max' pstart a
  let ie := Date.min' pstop b
  if is = pstart ∧ ie = pstop then .ok (some p)
  else if is.d = 1 ∧ is.m = 1 ∧ ie.d = 31 ∧ ie.m = 12 then
    .ok (some ⟨.year, is, ie.y - is.y + 1⟩)
  else if !(1 ≤ ie.m ∧ ie.m ≤ 12 ∧ 1 ≤ ie.y ∧ ie.y ≤ 9999) ∧ is.d = 1 then .error "monthrange"
  else if is.d = 1 ∧ ie.d = dim ie.y ie.m then
    .ok (some ⟨.month, is, (ie.y - is.y) * 12 + ie.m - is.m + 1⟩)
  else if dateOk is ∧ dateOk ie then
    .ok (some ⟨.day, is, ord ie - ord is + 1⟩)
  else .error "date"

/-- `Period.date`: the start date of a period of size one -/
def Period.date (p : Period) : Except String Date :=
  if p.size ≠ 1 then .error "value"
  else if dateOk p.start then .ok p.start else .error "date"

/-- `Period.is_eternal`, `Instant.is_eternal` -/
def Period.isEternal (p : Period) : Bool := decide (p = Period.eternity)
def Date.isEternal (c : Date) : Bool := decide (c = eternityDate)

/-- `helpers.instant_date`: `none` is Python's `None`, otherwise `pendulum.date(*instant)` -/
def instantDate : Option Date → Except String (Option Date)
  | none => .ok none
  | some c => if dateOk c then .ok (some c) else .error "date"

/-- the denotation: closed interval of ordinals `[lo, hi]` -/
def Period.lo (p : Period) : Int := ord p.start
def Period.hi (p : Period) : Int :=
  match p.unit with
  | .year => ord (addMonths p.start (12 * p.size)) - 1
  | .month => ord (addMonths p.start p.size) - 1
  | .week => ord p.start + 7 * p.size - 1
  | .day => ord p.start + p.size - 1
  | .weekday => ord p.start + p.size - 1
  | .eternity => 0

end OFCore
