import OFCore.RuleSys
import OFCore.Group
/-!
# Vocabulary of C11: selections, restriction of a declaration to a part, permutation (import-free)

A declaration `d : Decl` describes ONE population: `nP` persons, `nG` groups, the group of each
person (`mem`), the variables and the input vectors.  "Two unrelated situations simulated together"
is a declaration in which the persons (and the groups) of the situations appear in some interleaved
order; each situation is then a **closed selection** of it:

* a *selection* is a pair of index lists `sel` (persons kept, in the order they have in the part)
  and `gsel` (groups kept, in the order they have in the part);
* it is *closed* when the kept groups contain exactly the kept persons: a person is kept iff its
  group is kept (nobody in the part belongs to a household outside the part and conversely);
* `restrict d sel gsel` is the part **simulated alone**: `sel.length` persons, `gsel.length`
  groups, every kept person attached to the position its group has in `gsel` with the role it
  has, the same variables, and every input vector read at the kept indices (`reindex`).

An order-preserving selection (`sel`, `gsel` increasing) is one situation of a merged population;
a selection that lists *all* persons and *all* groups in another order is a permutation of the
population (`IsPerm`); both are closed selections, and so is a permuted part.

Python counterparts: the index assignment of `SimulationBuilder.add_person_entity /
add_group_entity` (position of an id in the document = index in every array),
`add_variable_value` (input arrays filled per entity index), `GroupPopulation.members_entity_id`.
-/
namespace OFCore.Equivariance
open OFCore OFCore.Engine OFCore.RuleSys

/-- the vector `x` read at the indices `l` (in the order of `l`) -/
def reindex (l : List Nat) (x : Val) : Val := l.map (fun i => x.getD i 0)

/-- a transformation of value vectors applied to a result (errors are kept as they are) -/
def mapRes (f : Val → Val) : Res → Res
  | .ok x => .ok (f x)
  | .error e => .error e

/-- position of `g` in `l` (`l.length` when absent) -/
def posIn : List Nat → Nat → Nat
  | [], _ => 0
  | a :: r, g => if a = g then 0 else posIn r g + 1

/-- the index list that applies to an entity: persons (`0`) or groups (anything else) -/
def idxFor (sel gsel : List Nat) (ent : Nat) : List Nat := if ent = 0 then sel else gsel

/-- what happens to a vector of variable `v` under the selection (unknown variable: nothing) -/
def selVar (d : Decl) (sel gsel : List Nat) (v : Nat) (x : Val) : Val :=
  match d.vars[v]? with
  | none => x
  | some vv => reindex (idxFor sel gsel vv.entity) x

/-- the part of `d` made of the persons `sel` and the groups `gsel`, simulated alone -/
def restrict (d : Decl) (sel gsel : List Nat) : Decl where
  nP := sel.length
  nG := gsel.length
  mem := sel.map (fun i => posIn gsel (d.mem.getD i 0))
  msl := d.msl
  vars := d.vars
  inputs := d.inputs.map (fun i => (i.1, i.2.1, selVar d sel gsel i.1 i.2.2))
  roles := sel.map (fun i => d.roles.getD i 0)

/-- closed selection: valid, duplicate-free indices; a person is kept iff its group is kept -/
def Closed (d : Decl) (sel gsel : List Nat) : Prop :=
  (∀ i ∈ sel, i < d.nP) ∧ (∀ g ∈ gsel, g < d.nG) ∧ sel.Nodup ∧ gsel.Nodup ∧
  ∀ i, i < d.nP → (i ∈ sel ↔ d.mem.getD i 0 ∈ gsel)

instance (d : Decl) (sel gsel : List Nat) : Decidable (Closed d sel gsel) := by
  unfold Closed; infer_instance

/-- order-preserving selection: the part keeps the relative order the merged population has -/
def Increasing (l : List Nat) : Prop := l.Pairwise (· < ·)

instance (l : List Nat) : Decidable (Increasing l) := by unfold Increasing; infer_instance

/-- `sel` lists all persons and `gsel` all groups, each exactly once, in any order -/
def IsPerm (d : Decl) (sel gsel : List Nat) : Prop :=
  sel.Perm (List.range d.nP) ∧ gsel.Perm (List.range d.nG)

instance (d : Decl) (sel gsel : List Nat) : Decidable (IsPerm d sel gsel) := by
  unfold IsPerm; infer_instance

/-- the declaration with persons and groups listed in the order `sel` / `gsel` -/
abbrev permute (d : Decl) (sel gsel : List Nat) : Decl := restrict d sel gsel

/-- entity discipline of a formula expression living on entity `ent`: a sum over members
    (`op1 1`) and the role operations (`op1 10..79`: role-filtered sum, value of the unique-role
    member, number of role holders, any, max, min, all) yield a group vector from a person vector, a projection
    (`op1 2`, and `op1 80..89` with a role filter) a person vector from a group vector; every other operation stays on its entity.  (Real formulas that break
    this discipline raise a numpy shape error or broadcast.) -/
def WT : Nat → DExpr → Bool
  | _, .const _ => true
  | _, .var _ _ _ => true
  | ent, .op1 o a =>
    if o = 1 ∨ isRoleOp o = true then (ent != 0) && WT 0 a
    else if o = 2 ∨ isProjOp o = true then (ent == 0) && WT 1 a else WT ent a
  | ent, .op2 _ a b => WT ent a && WT ent b
  | ent, .fail _ a => WT ent a

/-- well-formed declaration: one group index per person, all below `nG`; every formula respects
    the entity discipline; every input vector has its entity's size -/
def WF (d : Decl) : Prop :=
  d.mem.length = d.nP ∧ (∀ g ∈ d.mem, g < d.nG) ∧
  (∀ vv ∈ d.vars, ∀ f ∈ vv.formulas, WT vv.entity f.2 = true) ∧
  (∀ i ∈ d.inputs, ∀ vv ∈ d.vars[i.1]?, i.2.2.length = d.size vv.entity)

instance (d : Decl) : Decidable (WF d) := by unfold WF; infer_instance

/-! ## The tie between the two models of the group operations

`RuleSys.f1` states the group operations of the expression language over index sets; `Group.lean`
transcribes the code of `GroupPopulation` (bincount, position loop, masks) and is tied to the real
code by C10's correspondence.  `declPop` is the population of a declaration as `GroupPopulation`
holds it; `C11_group_ops_are_the_group_model` says the two agree. -/

/-- the population of a declaration as `GroupPopulation` holds it: one `(group, role)` per person -/
def declPop (d : Decl) : Grp.Pop :=
  ⟨d.nG, (List.range d.mem.length).map fun i => ⟨d.mem.getD i 0, d.roles.getD i 0⟩⟩

/-- the `role` argument a role digit of the expression language stands for: 9 = no role,
    8 = the first role with its two sub-roles, otherwise the flattened role of that index -/
def roleOfDigit (r : Nat) : Option Grp.Role :=
  if r = 9 then none else if r = 8 then some ⟨1000000, [0, 1], some 2⟩ else some ⟨r, [], some 1⟩

/-- `±inf` (a group without holder) read as 0: `numpy.where(nb_persons > 0, reduction, 0)` -/
def eint0 : Grp.EInt → Int
  | .fin v => v
  | .negInf => 0
  | .posInf => 0

/-! ## Parts of a group population (the order-dependent operations)

`value_nth_person`, `value_from_first_person` and `get_rank` are defined by the storage order of
the persons: they are outside the expression language and outside the permutation clause, but the
MERGE clause covers them — a situation keeps its internal person order inside a merged population.
`restrictPop p sel gsel` is the part made of the persons `sel` (increasing: merged order) and the
groups `gsel`, as a population of its own. -/

/-- the part of a group population, simulated alone -/
def restrictPop (p : Grp.Pop) (sel gsel : List Nat) : Grp.Pop :=
  ⟨gsel.length, sel.map fun i => ⟨posIn gsel (p.ms.getD i default).group, (p.ms.getD i default).role⟩⟩

/-- closed, person-order-preserving selection of a group population -/
def ClosedPop (p : Grp.Pop) (sel gsel : List Nat) : Prop :=
  (∀ i ∈ sel, i < p.ms.length) ∧ (∀ g ∈ gsel, g < p.n) ∧ sel.Pairwise (· < ·) ∧ gsel.Nodup ∧
  ∀ i, i < p.ms.length → (i ∈ sel ↔ (p.ms.getD i default).group ∈ gsel)

instance (p : Grp.Pop) (sel gsel : List Nat) : Decidable (ClosedPop p sel gsel) := by
  unfold ClosedPop; infer_instance

/-- a person-level array read at the persons of the part -/
def selArr {α} (l : List Nat) (a : List α) (d : α) : List α := l.map fun i => a.getD i d

/-- the complement of a selection, in population order -/
def complement (n : Nat) (l : List Nat) : List Nat := (List.range n).filter (fun i => !l.contains i)

end OFCore.Equivariance
