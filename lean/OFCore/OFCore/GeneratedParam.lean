-- REGENERATED from the tree under test by harness/ofverif/translate.py on every run. Do not edit.
import OFCore.Param
namespace OFCore.Generated.Param
open OFCore

/-- `Parameter._get_at_instant` (openfisca_core/parameters/parameter.py): first element of `values_list` passing the test, else None -/
def parameter_get_at_instant {V : Type} (l : List (OFCore.Param.Entry V)) (d : Int) : Option V :=
  match l.find? (fun e => ((decide (e.date ≤ d)))) with
  | some e => e.val
  | none => none

def translated : List (String × Bool) := [("parameter_get_at_instant", true)]
end OFCore.Generated.Param
