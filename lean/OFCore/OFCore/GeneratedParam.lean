-- REGENERATED from the tree under test by harness/ofverif/translate.py on every run. Do not edit.
import OFCore.Param
namespace OFCore.Generated.Param
open OFCore

/-- `Parameter._get_at_instant` (openfisca_core/parameters/parameter.py): first element of `values_list` passing the test, else None -/
def parameter_get_at_instant {V : Type} (l : List (OFCore.Param.Entry V)) (d : Int) : Option V :=
  match l.find? (fun e => ((decide (e.date ≤ d)))) with
  | some e => e.val
  | none => none

/-- `ParameterNodeAtInstant.__init__` (openfisca_core/parameters/parameter_node_at_instant.py): the loop over `node.children.items()` — each child read with `_get_at_instant` (`atI`), kept under its name when the result is not None, in dict order -/
def node_at_instant_children {C S : Type} (atI : C → Int → Option S) (cs : List (String × C)) (d : Int) : List (String × S) :=
  cs.filterMap (fun kc => match atI kc.2 d with
    | some s => some (kc.1, s)
    | none => none)

def translated : List (String × Bool) := [("parameter_get_at_instant", true), ("node_at_instant_children", true)]
end OFCore.Generated.Param
