-- REGENERATED from the tree under test by harness/ofverif/translate.py on every run. Do not edit.
import OFCore.TaxScale
namespace OFCore.Generated.Scale
open OFCore OFCore.Sca

/-- `RateTaxScaleLike.add_bracket` (openfisca_core/taxscales/rate_tax_scale_like.py): the updates of the parallel lists `thresholds` / `rates` translated statement by statement to the paired list of the model -/
def rate_add_bracket (s : OFCore.Sca.Scale) (t x : Rat) : OFCore.Sca.Scale :=
  if hasT s t then (bumpAt s (indexT s t) x) else (insertAt s (bisectLeft s t) (t, x))

/-- `AmountTaxScaleLike.add_bracket` (openfisca_core/taxscales/amount_tax_scale_like.py): the updates of the parallel lists `thresholds` / `amounts` translated statement by statement to the paired list of the model -/
def amount_add_bracket (s : OFCore.Sca.Scale) (t x : Rat) : OFCore.Sca.Scale :=
  if hasT s t then (bumpAt s (indexT s t) x) else (insertAt s (bisectLeft s t) (t, x))

def translated : List (String × Bool) := [("rate_add_bracket", true), ("amount_add_bracket", true)]
end OFCore.Generated.Scale
