import OFCore.PeriodText
/-!
# Dump / restore of a simulation (import-free apart from the period text model)

Transcription of `openfisca_core/tools/simulation_dumper.py` (`dump_simulation`,
`restore_simulation`, `_dump_holder`, `_dump_entity`, `_restore_entity`, `_restore_holder`), of
the part of `data_storage/on_disk_storage.py` they use (`put`, `get`, `restore`,
`_decode_file`; file names are `str(period) + ".npy"`), of `InMemoryStorage.get/put`, and of
`Holder.get_array / get_known_periods / put_in_cache / _set / _to_array`, **with the repairs
F-C19a (restored group count = `len(ids)`), F-C17/F-C19b (`numpy.load(allow_pickle=True)` for
`str` arrays), F-C19c (person count = length of the persons' own ids) and F-C19d (an entity
without roles leaves `members_role` unset) applied**.

What is abstracted:

* a directory is a *tree of association lists* (`FS`): `__entities__/<entity>/<file>` and
  `<variable>/<file>`; an association list is insertion ordered and has unique keys, like a
  directory. `os.listdir` order is the insertion order here; no theorem depends on it.
* `numpy.save` / `numpy.load` are the identity on the typed array `Arr` (numeric width is not
  modelled; an `EnumArray` is saved as its plain index array, `value.view(numpy.ndarray)`).
* a role object is `{key, uid}`; `uid` stands for the identity of the Python object.
* in the holder's `_to_array` the dtype cast of an array of *another* family
  (`value.astype(variable.dtype)`) is not modelled: the model answers `.error`. Such arrays
  cannot be in a dumped holder, because every write goes through the same `_to_array`.
-/
namespace OFCore.Dump
open OFCore

/-! ## association lists (Python `dict`, a directory) -/

def alookup {κ α : Type} [DecidableEq κ] (k : κ) : List (κ × α) → Option α
  | [] => none
  | e :: r => if e.1 = k then some e.2 else alookup k r

/-- `d[k] = v`: replaces in place, or appends -/
def upsert {κ α : Type} [DecidableEq κ] (m : List (κ × α)) (k : κ) (v : α) : List (κ × α) :=
  match m with
  | [] => [(k, v)]
  | e :: r => if e.1 = k then (k, v) :: r else e :: upsert r k v

def keys {κ α : Type} (m : List (κ × α)) : List κ := m.map (·.1)

/-- `for k, v in l: m[k] = v` -/
def upsertAll {κ α : Type} [DecidableEq κ] (m l : List (κ × α)) : List (κ × α) :=
  l.foldl (fun m kv => upsert m kv.1 kv.2) m

/-- monadic map, stops at the first error (a Python loop that raises) -/
def mapE {α β : Type} (f : α → Except String β) : List α → Except String (List β)
  | [] => .ok []
  | a :: r =>
    match f a with
    | .error e => .error e
    | .ok b =>
      match mapE f r with
      | .error e => .error e
      | .ok bs => .ok (b :: bs)

/-- monadic left fold, stops at the first error -/
def foldE {α σ : Type} (f : σ → α → Except String σ) : σ → List α → Except String σ
  | s, [] => .ok s
  | s, a :: r =>
    match f s a with
    | .error e => .error e
    | .ok s' => foldE f s' r

/-! ## values -/

/-- an enumeration class: its name and the names of its members, in index order -/
structure EnumT where
  name : String
  items : List String
deriving DecidableEq, Repr

/-- a plain `numpy.ndarray` (what a `.npy` file holds) -/
inductive Arr
  | ints (l : List Int)
  | floats (l : List Rat)
  | bools (l : List Bool)
  | strs (l : List String)                 -- dtype object, Python `str` elements
  | bytes (w : Nat) (l : List String)      -- dtype `|S<w>` (a `str` variable with `max_length`)
  | dates (l : List Int)                   -- datetime64[D], as proleptic ordinals
deriving DecidableEq, Repr

/-- the array of a holder: a plain array, or an `EnumArray` (indices + its enumeration) -/
inductive Vec
  | plain (a : Arr)
  | enum (e : EnumT) (idx : List Int)
deriving DecidableEq, Repr

/-- value type of a variable = dtype family of its arrays -/
inductive VType
  | int | float | bool | str | bytes (w : Nat) | date | enum (e : EnumT)
deriving DecidableEq, Repr

def Arr.vtype : Arr → VType
  | .ints _ => .int | .floats _ => .float | .bools _ => .bool | .strs _ => .str
  | .bytes w _ => .bytes w | .dates _ => .date

def Arr.length : Arr → Nat
  | .ints l => l.length | .floats l => l.length | .bools l => l.length | .strs l => l.length
  | .bytes _ l => l.length | .dates l => l.length

def Vec.vtype : Vec → VType
  | .plain a => a.vtype
  | .enum e _ => .enum e

def Vec.length : Vec → Nat
  | .plain a => a.length
  | .enum _ idx => idx.length

/-- `OnDiskStorage.put`: `value.view(numpy.ndarray)` for an `EnumArray`, the array otherwise -/
def Vec.strip : Vec → Arr
  | .plain a => a
  | .enum _ idx => .ints idx

/-- `OnDiskStorage._decode_file` as configured by `_restore_holder`: a variable of type Enum
    re-wraps the loaded index array with the variable's `possible_values` -/
def decodeFile (vt : VType) (a : Arr) : Except String Vec :=
  match vt with
  | .enum e =>
    match a with
    | .ints l => .ok (.enum e l)
    | .floats _ => .error "unmodelled: EnumArray view of a non-integer array"
    | .bools _ => .error "unmodelled: EnumArray view of a non-integer array"
    | .strs _ => .error "unmodelled: EnumArray view of a non-integer array"
    | .bytes _ _ => .error "unmodelled: EnumArray view of a non-integer array"
    | .dates _ => .error "unmodelled: EnumArray view of a non-integer array"
  | .int => .ok (.plain a)
  | .float => .ok (.plain a)
  | .bool => .ok (.plain a)
  | .str => .ok (.plain a)
  | .bytes _ => .ok (.plain a)
  | .date => .ok (.plain a)

/-- a default value -/
inductive Val
  | int (i : Int) | float (q : Rat) | bool (b : Bool) | str (s : String)
  | bytes (w : Nat) (s : String) | date (d : Int) | enum (e : EnumT) (i : Int)
deriving DecidableEq, Repr

/-- `Variable.default_array(count)` -/
def Val.fill (v : Val) (n : Nat) : Vec :=
  match v with
  | .int i => .plain (.ints (List.replicate n i))
  | .float q => .plain (.floats (List.replicate n q))
  | .bool b => .plain (.bools (List.replicate n b))
  | .str s => .plain (.strs (List.replicate n s))
  | .bytes w s => .plain (.bytes w (List.replicate n s))
  | .date d => .plain (.dates (List.replicate n d))
  | .enum e i => .enum e (List.replicate n i)

/-! ## the rule system, as far as dump / restore look at it -/

structure Role where
  key : String
  uid : Nat
deriving DecidableEq, Repr

/-- an element of `members_role`: a role object, or anything else (`None`, `0`) -/
inductive RoleVal
  | role (r : Role)
  | other
deriving DecidableEq, Repr

structure EntityDecl where
  key : String
  isPerson : Bool
  roles : List Role          -- `entity.flattened_roles`
deriving DecidableEq, Repr

structure VarDecl where
  name : String
  entity : String            -- key of the variable's entity
  vtype : VType
  defUnit : DUnit            -- `definition_period`
  neutralized : Bool
  default : Val
deriving DecidableEq, Repr

def VarDecl.eternal (v : VarDecl) : Bool := decide (v.defUnit = .eternity)

/-- `InMemoryStorage` / `OnDiskStorage`: `if self.is_eternal: period = ETERNITY` -/
def VarDecl.key (v : VarDecl) (p : Period) : Period :=
  if v.defUnit = .eternity then Period.eternity else p

structure System where
  person : EntityDecl
  groups : List EntityDecl
  vars : List VarDecl
deriving Repr

def System.var? (sys : System) (name : String) : Option VarDecl :=
  sys.vars.find? (fun v => v.name = name)

/-! ## the simulation state -/

structure Pop where
  entity : EntityDecl
  ids : List String
  count : Nat
  membersEntityId : List Int := []
  membersRole : List RoleVal := []
  membersPosition : List Int := []
deriving DecidableEq, Repr

/-- the lazy `GroupPopulation.members_position` property, used only while no position has been
    assigned: the rank of each person among the members of its group, in order of appearance.
    Positions are a settable component of the entity structure (a survey's own ranking need not
    list the reference person first): `Pop.membersPosition` is *not* defined by this function,
    and neither `dump` nor `restore` calls it. -/
def defaultPositionsFrom (seen : List Int) : List Int → List Int
  | [] => []
  | g :: r => (seen.count g : Int) :: defaultPositionsFrom (g :: seen) r

def defaultPositions (mei : List Int) : List Int := defaultPositionsFrom [] mei

abbrev Store := List (Period × Vec)

/-- a holder: its variable, the memory store, the disk store when the simulation has a
    `memory_config` and the variable is not a priority variable -/
structure Holder where
  var : VarDecl
  mem : Store := []
  disk : Option Store := none
deriving DecidableEq, Repr

/-- `Holder.get_known_periods` -/
def Holder.known (h : Holder) : List Period :=
  keys h.mem ++ (match h.disk with | some d => keys d | none => [])

/-- what the two stores hold under a key (memory first) -/
def Holder.raw (h : Holder) (k : Period) : Option Vec :=
  match alookup k h.mem with
  | some v => some v
  | none =>
    match h.disk with
    | some d => alookup k d
    | none => none

/-- `Holder.get_array` in a population of `count` members -/
def Holder.getArray (h : Holder) (count : Nat) (p : Period) : Option Vec :=
  if h.var.neutralized then some (h.var.default.fill count) else h.raw (h.var.key p)

/-- populations (person first, then the group entities) and the holders (each belongs to the
    population of its variable's entity, `Population._holders`) -/
structure Sim where
  pops : List Pop
  holders : List Holder
deriving DecidableEq, Repr

def Sim.pop? (s : Sim) (key : String) : Option Pop := s.pops.find? (fun p => p.entity.key = key)

def Sim.holder? (s : Sim) (name : String) : Option Holder :=
  s.holders.find? (fun h => h.var.name = name)

/-- the count of the population a holder belongs to -/
def Sim.countOf (s : Sim) (h : Holder) : Nat :=
  match s.pop? h.var.entity with
  | some pop => pop.count
  | none => 0

def setHolderIn (hs : List Holder) (h : Holder) : List Holder :=
  match hs with
  | [] => [h]
  | h' :: r => if h'.var.name = h.var.name then h :: r else h' :: setHolderIn r h

/-- `_holders[name] = holder` -/
def Sim.setHolder (s : Sim) (h : Holder) : Sim := { s with holders := setHolderIn s.holders h }

/-! ## the directory -/

inductive Node
  | ids (l : List String)
  | ints (l : List Int)
  | roleKeys (l : List String)
  | int16zero                         -- `numpy.int16(0)`: the entity has no role
deriving DecidableEq, Repr

/-- `ents`: `__entities__/<entity key>/<file>`; `vars`: every other top-level directory,
    `<variable name>/<file>` (a file holds a plain array) -/
structure FS where
  ents : List (String × List (String × Node)) := []
  vars : List (String × List (List Char × Arr)) := []
deriving DecidableEq, Repr

def FS.isEmpty (fs : FS) : Bool := fs.ents.isEmpty && fs.vars.isEmpty

/-! ## dump -/

/-- `numpy.select([members_role == role for role in flattened_roles], [role.key …])`:
    the key of the first equal role, the default `0` (rendered `'0'`) otherwise -/
def encodeRole (roles : List Role) (rv : RoleVal) : String :=
  match rv with
  | .other => "0"
  | .role r =>
    match roles.find? (fun r' => r' = r) with
    | some r' => r'.key
    | none => "0"

/-- the files `_dump_entity` writes into `__entities__/<key>/` -/
def entityFiles (pop : Pop) : List (String × Node) :=
  if pop.entity.isPerson then [("id.npy", .ids pop.ids)]
  else
    [("id.npy", .ids pop.ids),
     ("members_position.npy", .ints pop.membersPosition),
     ("members_entity_id.npy", .ints pop.membersEntityId),
     ("members_role.npy",
        if pop.entity.roles.isEmpty then .int16zero
        else .roleKeys (pop.membersRole.map (encodeRole pop.entity.roles)))]

/-- `_dump_entity`: `os.mkdir(__entities__/<key>)` raises when the directory exists -/
def dumpEntityStep (ents : List (String × List (String × Node))) (pop : Pop) :
    Except String (List (String × List (String × Node))) :=
  match alookup pop.entity.key ents with
  | some _ => .error "FileExistsError"
  | none => .ok (ents ++ [(pop.entity.key, entityFiles pop)])

/-- `_dump_entity` for every population -/
def dumpEntities (pops : List Pop) : Except String (List (String × List (String × Node))) :=
  foldE dumpEntityStep [] pops

/-- `OnDiskStorage.put`: the file name is the text of the period -/
def fileName (p : Period) : List Char := p.text ++ ".npy".toList

/-- what `_dump_holder` saves for one known period: `disk_storage.put(holder.get_array(period),
    period)`. (`get_array` of a known period is never `None`; that case saves nothing.) -/
def Holder.saved (h : Holder) (count : Nat) (p : Period) : Option (List Char × Arr) :=
  match h.getArray count p with
  | some v => some (fileName (h.var.key p), v.strip)
  | none => none

/-- the loop of `_dump_holder` over `holder.get_known_periods()`, on the directory `dir` -/
def Holder.files (h : Holder) (count : Nat) (dir : List (List Char × Arr)) :
    List (List Char × Arr) :=
  upsertAll dir (h.known.filterMap (h.saved count))

/-- `_dump_holder`: `create_disk_storage(directory, preserve=True)` makes `<name>/` unless it
    exists, then the loop. A variable called `__entities__` would write into the entities
    directory, where `restore_simulation` never looks: nothing visible is written. -/
def dumpHolder (vars : List (String × List (List Char × Arr))) (count : Nat) (h : Holder) :
    List (String × List (List Char × Arr)) :=
  if h.var.name = "__entities__" then vars
  else upsert vars h.var.name (h.files count ((alookup h.var.name vars).getD []))

/-- every `_dump_holder` of `dump_simulation`. The Python loop visits the populations and, for
    each, its holders; here the holders are visited in their own order, each with the count of
    the population of its variable's entity (a holder without population is never visited).
    Only the order in which the variable directories are created differs, and nothing observes
    it (`os.listdir` promises no order). -/
def dumpVars (s : Sim) : List (String × List (List Char × Arr)) :=
  (s.holders.filter (fun h => (s.pop? h.var.entity).isSome)).foldl
    (fun vars h => dumpHolder vars (s.countOf h) h) []

/-- `dump_simulation` into an empty directory. `_dump_entity` and `_dump_holder` write into
    disjoint sub-trees, so the entity part and the variable part are computed separately (an
    error of the entity part aborts the whole call in both formulations). -/
def dump (s : Sim) : Except String FS :=
  match dumpEntities s.pops with
  | .error e => .error e
  | .ok ents => .ok { ents := ents, vars := dumpVars s }

/-- `dump_simulation(simulation, directory)`: refuses a directory that is not empty -/
def dumpInto (target : FS) (s : Sim) : Except String FS :=
  if target.isEmpty then dump s else .error "ValueError: directory is not empty"

/-! ## restore -/

/-- `numpy.select([encoded_roles == role.key for role in flattened_roles], flattened_roles)`:
    the first role with that key, the default `0` otherwise -/
def decodeRole (roles : List Role) (k : String) : RoleVal :=
  match roles.find? (fun r => r.key = k) with
  | some r => .role r
  | none => .other

def readIds (d : List (String × Node)) (f : String) : Except String (List String) :=
  match alookup f d with
  | some (.ids l) => .ok l
  | some (.ints _) => .error "not an id file"
  | some (.roleKeys _) => .error "not an id file"
  | some .int16zero => .error "not an id file"
  | none => .error "FileNotFoundError"

def readInts (d : List (String × Node)) (f : String) : Except String (List Int) :=
  match alookup f d with
  | some (.ints l) => .ok l
  | some (.ids _) => .error "not an integer file"
  | some (.roleKeys _) => .error "not an integer file"
  | some .int16zero => .error "not an integer file"
  | none => .error "FileNotFoundError"

def readNode (d : List (String × Node)) (f : String) : Except String Node :=
  match alookup f d with
  | some n => .ok n
  | none => .error "FileNotFoundError"

/-- `_restore_entity`. Repaired count: `len(population.ids)` (was `max(members_entity_id) + 1`,
    F-C19a). An entity without roles leaves `members_role` unset (`[]` here; repaired F-C19d:
    was `numpy.int16(0)`, which the setter cannot iterate). -/
def restoreEntity (fs : FS) (e : EntityDecl) : Except String Pop :=
  match alookup e.key fs.ents with
  | none => .error "FileNotFoundError"
  | some d =>
    match readIds d "id.npy" with
    | .error err => .error err
    | .ok ids =>
      if e.isPerson then .ok { entity := e, ids := ids, count := ids.length }
      else
        match readInts d "members_position.npy" with
        | .error err => .error err
        | .ok pos =>
          match readInts d "members_entity_id.npy" with
          | .error err => .error err
          | .ok mei =>
            match readNode d "members_role.npy" with
            | .error err => .error err
            | .ok node =>
              if e.roles.isEmpty then
                .ok { entity := e, ids := ids, count := ids.length, membersEntityId := mei,
                      membersRole := [], membersPosition := pos }
              else
                match node with
                | .roleKeys ks =>
                  .ok { entity := e, ids := ids, count := ids.length, membersEntityId := mei,
                        membersRole := ks.map (decodeRole e.roles), membersPosition := pos }
                | .ids _ => .error "not a role file"
                | .ints _ => .error "not a role file"
                | .int16zero => .error "TypeError: iteration over a 0-d array"

/-- `filename.endswith(".npy")` and `filename.rsplit(".", 1)[0]` -/
def stripNpy (f : List Char) : Option (List Char) :=
  if f.reverse.take 4 = ['y', 'p', 'n', '.'] then some (f.reverse.drop 4).reverse else none

/-- one step of `OnDiskStorage.restore`: `none` = `continue` -/
def parseName (f : List Char) : Except String (Option (Period × List Char)) :=
  match stripNpy f with
  | none => .ok none
  | some core =>
    match parsePeriod core with
    | .error e => .error e
    | .ok p => .ok (some (p, f))

/-- `OnDiskStorage.restore`: `_files[period] = path` for every `*.npy` of the directory -/
def parseDir (dir : List (List Char × Arr)) : Except String (List (Period × List Char)) :=
  match mapE parseName (keys dir) with
  | .error e => .error e
  | .ok es => .ok (upsertAll [] (es.filterMap id))

/-- one iteration of the loop of `_restore_holder`: `value = disk_storage.get(period)` then
    `holder.put_in_cache(value, period)` (→ `_set` → `_to_array`, period check, memory `put`):
    the key and the array that end up in the memory store. -/
def loadOne (var : VarDecl) (count : Nat) (dir : List (List Char × Arr))
    (files : List (Period × List Char)) (p : Period) : Except String (Period × Vec) :=
  match alookup (var.key p) files with
  | none => .error "get() returned None"
  | some f =>
    match alookup f dir with
    | none => .error "FileNotFoundError"
    | some a =>
      match decodeFile var.vtype a with
      | .error e => .error e
      | .ok v =>
        if v.length ≠ count then .error "ValueError: length"
        else if v.vtype ≠ var.vtype then .error "unmodelled: dtype cast"
        else if var.defUnit ≠ .eternity ∧ (var.defUnit ≠ p.unit ∨ p.size > 1) then
          .error "PeriodMismatchError"
        else .ok (var.key p, v)

/-- `disk_storage.restore()` and the loop over its known periods, on the memory store `mem`
    (a restored simulation has no `memory_config`: everything goes to memory). None of the
    checks of an iteration looks at the store, so the arrays are read first and stored after. -/
def loadStore (var : VarDecl) (count : Nat) (dir : List (List Char × Arr)) (mem : Store) :
    Except String Store :=
  match parseDir dir with
  | .error e => .error e
  | .ok files =>
    match mapE (loadOne var count dir files) (keys files) with
    | .error e => .error e
    | .ok kvs => .ok (upsertAll mem kvs)

/-- `_restore_holder(simulation, name, directory)` -/
def restoreHolder (sys : System) (fs : FS) (s : Sim) (name : String) : Except String Sim :=
  match sys.var? name with
  | none => .error "VariableNotFoundError"
  | some var =>
    match s.pop? var.entity with
    | none => .error "no population for the entity"
    | some pop =>
      -- `simulation.get_holder(name)`: the existing holder, or a new one
      let h0 : Holder := (s.holder? name).getD { var := var }
      match loadStore var pop.count ((alookup name fs.vars).getD []) h0.mem with
      | .error e => .error e
      | .ok mem => .ok (s.setHolder { h0 with mem := mem })

/-- `restore_simulation(directory, tax_benefit_system)`: the group populations, then the
    person population, whose count is the length of its own identifiers (repaired F-C19c: was
    the `person_count` of the last group entity, unbound in a system without group entity);
    then one `_restore_holder` per top-level directory other than `__entities__`. -/
def restore (sys : System) (fs : FS) : Except String Sim :=
  match mapE (restoreEntity fs) sys.groups with
  | .error e => .error e
  | .ok gs =>
    match restoreEntity fs sys.person with
    | .error e => .error e
    | .ok pp => foldE (restoreHolder sys fs) { pops := pp :: gs, holders := [] } (keys fs.vars)

/-! ## what can be observed of a simulation -/

/-- identifiers, count, memberships, roles, positions of a population (the person population
    has no membership arrays) -/
structure PopView where
  key : String
  ids : List String
  count : Nat
  membersEntityId : List Int
  membersRole : List RoleVal
  membersPosition : List Int
deriving DecidableEq, Repr

def Pop.view (p : Pop) : PopView :=
  if p.entity.isPerson then ⟨p.entity.key, p.ids, p.count, [], [], []⟩
  else ⟨p.entity.key, p.ids, p.count, p.membersEntityId, p.membersRole, p.membersPosition⟩

/-- the state as the engine can see it: entity structure; which variables have a holder;
    which periods each knows (`get_known_periods`, as a set); `get_array` -/
structure View where
  pops : List PopView
  has : String → Bool
  knows : String → Period → Bool
  read : String → Period → Option Vec

def Sim.knows (s : Sim) (v : String) (p : Period) : Bool :=
  match s.holder? v with
  | some h => decide (p ∈ h.known)
  | none => false

def Sim.read (s : Sim) (v : String) (p : Period) : Option Vec :=
  match s.holder? v with
  | some h => h.getArray (s.countOf h) p
  | none => none

def Sim.view (s : Sim) : View :=
  { pops := s.pops.map Pop.view
    has := fun v => (s.holder? v).isSome
    knows := s.knows
    read := s.read }

end OFCore.Dump
