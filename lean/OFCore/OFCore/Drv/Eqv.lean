import OFCore.Equivariance
import OFCore.Drv.Sim
import OFCore.Drv.Grp
/-!
Line protocol for the `eqv` domain (C11): one merged population plus selections, one line.

```
eqv <case as in the `sim` protocol: P … G … M … MSL … V … I … R …>
    S <k> { <n> <person index …> <m> <group index …> }
```
The case is the MERGED simulation.  Every selection `(sel, gsel)` names a part (one of the
situations, in merged order; or a reordering of the whole population; or a reordered part).
Answer: `<results of the merged simulation>~<results of part 1 simulated alone>~…`, each a
`;`-separated list with one entry per request, as in the `sim` protocol (`ok:<v,…>` | `CYCLE` |
`ERR` | `FUEL` | `-`, `#STATE` appended when the stack or the invalidated set is left non-empty).
The part simulated alone is `restrict decl sel gsel` run by the same machine on the same requests.
A selection that is not closed (a kept household names a person that is not kept, or conversely)
is not a situation: its answer is `ERR`.  `BAD` for a malformed line.

Group-level stream (the order-dependent operations, which the expression language does not have):
```
eqv G <roles> <count> <members> <op> <role> <args…> S <k> { <n> <person index …> <m> <group index …> }
```
the part before `S` is a line of the `grp` protocol (operations nth first rank sum min max any all nb
from project hasrole, and `chain …` of them) on the MERGED population; every selection keeps the
persons in merged order.  Answer: `<answer of the grp line>~<answer of the same operation on
restrictPop with the arrays read at the part's persons / groups>~…`; `ERR` for a selection that is
not closed or does not keep the persons in merged order.
-/
namespace OFCore.Drv
open OFCore OFCore.Engine OFCore.RuleSys OFCore.Equivariance

def pSel : Parser (List Nat × List Nat) := fun ts => do
  let (n, ts) ← pNat ts
  let (sel, ts) ← pMany pNat n ts
  let (m, ts) ← pNat ts
  let (gsel, ts) ← pMany pNat m ts
  pure ((sel, gsel), ts)

/-- the per-request results of a case (the cache listing after `|` is not part of this protocol) -/
def resultsOf (c : SimCase) : String := ((runCase c).splitOn "|").headD ""

def partAnswer (c : SimCase) (s : List Nat × List Nat) : String :=
  if decide (Closed c.decl s.1 s.2) then resultsOf { c with decl := restrict c.decl s.1 s.2 } else "ERR"

/-! ### group-level stream -/

def showValsTok : Vals → String
  | .ints l => "i:" ++ ",".intercalate (l.map toString)
  | .bools l => "b:" ++ String.ofList (l.map fun b => if b then 'T' else 'F')

def showMembersTok (ms : List Grp.Member) : String :=
  if ms.isEmpty then "-" else ",".intercalate (ms.map fun m => s!"{m.group}.{m.role}")

def reindexVals (l : List Nat) : Vals → Vals
  | .ints v => .ints (selArr l v 0)
  | .bools v => .bools (selArr l v false)

def reTok (l : List Nat) (tok : String) : Option String := (parseVals tok).map fun v => showValsTok (reindexVals l v)

/-- the arguments of an operation of the `grp` protocol, read at the part -/
def restrictArgs (sel gsel : List Nat) : String → List String → Option (List String)
  | "nth", [k, d, v] => do pure [k, d, ← reTok sel v]
  | "first", [v] => do pure [← reTok sel v]
  | "rank", [c, b] => do pure [← reTok sel c, ← reTok sel b]
  | "sum", [v] => do pure [← reTok sel v]
  | "min", [v] => do pure [← reTok sel v]
  | "max", [v] => do pure [← reTok sel v]
  | "any", [v] => do pure [← reTok sel v]
  | "all", [v] => do pure [← reTok sel v]
  | "nb", [] => some []
  | "hasrole", [] => some []
  | "from", [d, v] => do pure [d, ← reTok sel v]
  | "project", [v] => do pure [← reTok gsel v]
  | _, _ => none

def grpPart (rt : String) (p : Grp.Pop) (op role : String) (rest : List String) (s : List Nat × List Nat) : String :=
  if decide (ClosedPop p s.1 s.2) then
    let q := restrictPop p s.1 s.2
    let rest' := match op, rest with
      | "chain", start :: sc :: op2 :: rest2 => (restrictArgs s.1 s.2 op2 rest2).map fun r => start :: sc :: op2 :: r
      | _, _ => restrictArgs s.1 s.2 op rest
    match rest' with
    | some r => handleGrp (rt :: toString q.n :: showMembersTok q.ms :: op :: role :: r)
    | none => "BAD"
  else "ERR"

def splitAtS : List String → List String → Option (List String × List String)
  | _, [] => none
  | acc, "S" :: rest => some (acc.reverse, rest)
  | acc, t :: rest => splitAtS (t :: acc) rest

def handleEqvG (args : List String) : String :=
  match splitAtS [] args with
  | some (rt :: cnt :: mem :: op :: role :: rest, selToks) =>
    match cnt.toNat?, parseMembers mem, pNat selToks with
    | some n, some ms, some (k, selRest) =>
      match pMany pSel k selRest with
      | some (sels, []) =>
        "~".intercalate (handleGrp (rt :: cnt :: mem :: op :: role :: rest) :: sels.map (grpPart rt ⟨n, ms⟩ op role rest))
      | _ => "BAD"
    | _, _, _ => "BAD"
  | _ => "BAD"

def handleEqv (args : List String) : String :=
  match args with
  | "G" :: rest => handleEqvG rest
  | _ =>
  match pCase args with
  | some (c, "S" :: rest) =>
    match pNat rest with
    | some (k, rest) =>
      match pMany pSel k rest with
      | some (sels, []) => "~".intercalate (resultsOf c :: sels.map (partAnswer c))
      | _ => "BAD"
    | none => "BAD"
  | _ => "BAD"

end OFCore.Drv
