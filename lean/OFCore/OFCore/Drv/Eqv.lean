/-! Line protocol handler for the `eqv` domain (stub until the model exists). -/
namespace OFCore.Drv
def handleEqv (_args : List String) : String := "BAD"
end OFCore.Drv
