import OFCore.Equivariance
import OFCore.Drv.Sim
/-!
Line protocol for the `eqv` domain (C11): one merged population plus selections, one line.

```
eqv <case as in the `sim` protocol: P … G … M … MSL … V … I … R …>
    S <k> { <n> <person index …> <m> <group index …> }
```
The case is the MERGED simulation.  Every selection `(sel, gsel)` names a part (one of the
situations, in merged order; or a reordering of the whole population; or a reordered part).
Answer: `<results of the merged simulation>~<results of part 1 simulated alone>~…`, each a
`;`-separated list with one entry per request, as in the `sim` protocol (`ok:<v,…>` | `CYCLE` |
`ERR` | `FUEL` | `-`, `#STATE` appended when the stack or the invalidated set is left non-empty).
The part simulated alone is `restrict decl sel gsel` run by the same machine on the same requests.
A selection that is not closed (a kept household names a person that is not kept, or conversely)
is not a situation: its answer is `ERR`.  `BAD` for a malformed line.
-/
namespace OFCore.Drv
open OFCore OFCore.Engine OFCore.RuleSys OFCore.Equivariance

def pSel : Parser (List Nat × List Nat) := fun ts => do
  let (n, ts) ← pNat ts
  let (sel, ts) ← pMany pNat n ts
  let (m, ts) ← pNat ts
  let (gsel, ts) ← pMany pNat m ts
  pure ((sel, gsel), ts)

/-- the per-request results of a case (the cache listing after `|` is not part of this protocol) -/
def resultsOf (c : SimCase) : String := ((runCase c).splitOn "|").headD ""

def partAnswer (c : SimCase) (s : List Nat × List Nat) : String :=
  if decide (Closed c.decl s.1 s.2) then resultsOf { c with decl := restrict c.decl s.1 s.2 } else "ERR"

def handleEqv (args : List String) : String :=
  match pCase args with
  | some (c, "S" :: rest) =>
    match pNat rest with
    | some (k, rest) =>
      match pMany pSel k rest with
      | some (sels, []) => "~".intercalate (resultsOf c :: sels.map (partAnswer c))
      | _ => "BAD"
    | none => "BAD"
  | _ => "BAD"

end OFCore.Drv
