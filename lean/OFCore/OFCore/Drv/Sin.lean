import OFCore.SetInput
import OFCore.Drv.Per
/-!
Line protocol handler for the `sin` domain (spreading of long-period inputs, C16).

```
sin <defUnit> <absent|dispatch|divide> <kind>[:<opt>…] <count> <op> <op> …
   kind = num | int | bool | date | str | enum      (the last four: items only copied, `VKind.opaque`)
   opt  = n            the variable is neutralised
          e<Y,M,D>     the variable's `end`
          d | h | u    harness only (arrays forced to disk / the variable belongs to a group entity whose
                       count differs from the number of persons / a one-entry document written without period,
                       the period being the builder's default period)
          b            the leading S ops are ONE situation document given to `SimulationBuilder.build_from_entities`:
                       consumed by `finalize_variables_init` in ITS order (`builderFeed`); all answer ok, or all ERR
                       (the construction failed: the history continues on a fresh simulation)
          v            the leading S ops are ONE short-form document `{variable: {period: values}}` given to
                       `build_from_dict` -> `build_from_variables`: consumed in document order (`feedAll`)
   op = S|<period>|<mode>|<v1;v2;…>   Simulation.set_input (checks `end`)   -> ok | ERR
        H|<period>|<mode>|<v1;v2;…>   Holder.set_input directly             -> ok | ERR
        G|<period>[|<spelling>]       get_array            -> v1;v2;… | none
        A|<period>[|<spelling>]       calculate_add        -> v1;v2;… | empty | ERR
        C|<period>[|<spelling>]       calculate (one period; an unknown value is cached) -> v1;v2;… | ERR
        X                             the simulation is replaced by its `clone()`       -> ok
        Z|<period>[|<spelling>]       calculate_add, then the caller overwrites the array it got back in place
                                      (the answer is the value before that)              -> as A
        M|<k>                         the caller overwrites ITS OWN object number `k` in place, after the calls
                                      that received it: an argument is an input, the store does not follow  -> ok
        K                             all known periods    -> [p=v1;v2&p=…]   (sorted)
```
One case per line (a fresh holder), the answers of the ops separated by one blank. `<mode>` says
how the harness passes the values to the real code (Python floats, ints, tuples, numpy arrays,
scalars, expression strings; `<mode>@<k>` = the caller's object number `k`, the same object passed
again; `~<spelling>` = the period given as Period / str / int); the model ignores it: an argument is
an input whose value is the one written in the token, never scratch space. The one exception is the
container `z` (items that are no values of the variable's type, e.g. the text "abc" for a float
variable): `_to_array` refuses it exactly where it refuses a vector of the wrong length, and that is
how the driver presents it to the model. Values are exact rationals `p/q` in lowest terms (`p` when
`q = 1`); items of the opaque kinds travel as integer codes.
-/
namespace OFCore.Drv

def parseRat? (s : String) : Option Rat :=
  match s.splitOn "/" with
  | [p] => p.toInt?.map (fun (n : Int) => (n : Rat))
  | [p, q] => do
    let n ← p.toInt?
    let d ← q.toNat?
    if d = 0 then none else pure (mkRat n d)
  | _ => none

def parseVec? (s : String) : Option Vec := (s.splitOn ";").mapM parseRat?

def showRat (x : Rat) : String := if x.den = 1 then toString x.num else s!"{x.num}/{x.den}"

def showVec (v : Vec) : String := ";".intercalate (v.map showRat)

def unitIdx : DUnit → Nat
  | .weekday => 0 | .week => 1 | .day => 2 | .month => 3 | .year => 4 | .eternity => 5

/-- strict order on keys used to print a store canonically -/
def keyLt (a b : Period) : Bool :=
  let ka : List Int := [unitIdx a.unit, a.start.y, a.start.m, a.start.d, a.size]
  let kb : List Int := [unitIdx b.unit, b.start.y, b.start.m, b.start.d, b.size]
  decide (ka < kb)

def insertKey (p : Period) : List Period → List Period
  | [] => [p]
  | q :: r => if keyLt p q then p :: q :: r else q :: insertKey p r

def sortKeys (ps : List Period) : List Period := ps.foldr insertKey []

def showStore (s : Store) : String :=
  "[" ++ "&".intercalate ((sortKeys (skeys s)).map fun q =>
    showPeriod q ++ "=" ++ showVec ((sget s q).getD [])) ++ "]"

def parseRule? : String → Option SRule
  | "absent" => some .absent | "dispatch" => some .dispatch | "divide" => some .divide | _ => none

def parseKind? : String → Option VKind
  | "num" => some .num | "int" => some .int
  | "bool" => some .opaque | "date" => some .opaque | "str" => some .opaque | "enum" => some .opaque
  | _ => none

/-- how the leading inputs reach the simulation -/
inductive Route | calls | builder | vars
deriving DecidableEq

/-- `<kind>[:<opt>…]` -> (kind, neutralised, end, route) -/
def parseKindOpts? (tok : String) : Option (VKind × Bool × Option Date × Route) :=
  match tok.splitOn ":" with
  | [] => none
  | k :: opts => do
    let kind ← parseKind? k
    let rec go (neut : Bool) (e : Option Date) (rt : Route) : List String → Option (Bool × Option Date × Route)
      | [] => some (neut, e, rt)
      | o :: r =>
        if o = "n" then go true e rt r
        else if o = "d" ∨ o = "h" ∨ o = "u" then go neut e rt r
        else if o = "b" then go neut e .builder r
        else if o = "v" then go neut e .vars r
        else if o.startsWith "e" then
          match parseDate? ((o.drop 1).toString) with
          | some d => go neut (some d) rt r
          | none => none
        else none
    let (neut, e, rt) ← go false none .calls opts
    pure (kind, neut, e, rt)

inductive SinOp
  | set (p : Period) (v : Vec)
  | hset (p : Period) (v : Vec)
  | get (p : Period)
  | add (p : Period)
  | one (p : Period)
  | clone
  | known

def parseOp? (tok : String) : Option SinOp :=
  match tok.splitOn "|" with
  | ["S", p, mode, vs] => do
    let v ← parseVec? vs
    pure (.set (← parsePeriod? p) (if mode.startsWith "z" then [] else v))
  | ["H", p, mode, vs] => do
    let v ← parseVec? vs
    pure (.hset (← parsePeriod? p) (if mode.startsWith "z" then [] else v))
  | ["G", p] => do pure (.get (← parsePeriod? p))
  | ["G", p, _] => do pure (.get (← parsePeriod? p))
  | ["A", p] => do pure (.add (← parsePeriod? p))
  | ["A", p, _] => do pure (.add (← parsePeriod? p))
  | ["C", p] => do pure (.one (← parsePeriod? p))
  | ["C", p, _] => do pure (.one (← parsePeriod? p))
  | ["X"] => some .clone
  | ["M", k] => if k ≠ "" ∧ k.all Char.isDigit then some .clone else none
  | ["Z", p] => do pure (.add (← parsePeriod? p))
  | ["Z", p, _] => do pure (.add (← parsePeriod? p))
  | ["K"] => some .known
  | _ => none

def runOps (var : VarSpec) : Store → List SinOp → List String
  | _, [] => []
  | s, .set p v :: r =>
    match simSetInput var s p v with
    | .ok s' => "ok" :: runOps var s' r
    | .error _ => "ERR" :: runOps var s r
  | s, .hset p v :: r =>
    match setInput var s p v with
    | .ok s' => "ok" :: runOps var s' r
    | .error _ => "ERR" :: runOps var s r
  | s, .get p :: r =>
    (match getArray var s p with | some v => showVec v | none => "none") :: runOps var s r
  | s, .add p :: r =>
    match calcAdd var s p with
    | .ok (some v, s') => showVec v :: runOps var s' r
    | .ok (none, s') => "empty" :: runOps var s' r
    | .error _ => "ERR" :: runOps var s r
  | s, .one p :: r =>
    match calcOne var s p with
    | .ok (v, s') => showVec v :: runOps var s' r
    | .error _ => "ERR" :: runOps var s r
  | s, .clone :: r => "ok" :: runOps var s r
  | s, .known :: r => showStore s :: runOps var s r

/-- the leading `S` ops (the document) and the rest -/
def splitDoc : List SinOp → List (Period × Vec) × List SinOp
  | .set p v :: r => let (d, rest) := splitDoc r; ((p, v) :: d, rest)
  | ops => ([], ops)

def runCase (var : VarSpec) (rt : Route) (ops : List SinOp) : List String :=
  match rt with
  | .calls => runOps var [] ops
  | .builder =>
    let (doc, rest) := splitDoc ops
    match builderFeed var [] doc with
    | .ok s => doc.map (fun _ => "ok") ++ runOps var s rest
    | .error _ => doc.map (fun _ => "ERR") ++ runOps var [] rest
  | .vars =>
    let (doc, rest) := splitDoc ops
    match feedAll var [] doc with
    | .ok s => doc.map (fun _ => "ok") ++ runOps var s rest
    | .error _ => doc.map (fun _ => "ERR") ++ runOps var [] rest

def handleSin (args : List String) : String :=
  match args with
  | du :: rule :: kind :: cnt :: ops =>
    match DUnit.ofName du, parseRule? rule, parseKindOpts? kind, cnt.toNat?, ops.mapM parseOp? with
    | some du, some rule, some (kind, neut, e, rt), some cnt, some ops =>
      if ops.isEmpty then "BAD"
      else " ".intercalate (runCase { defUnit := du, rule := rule, kind := kind, count := cnt,
                                      neutralized := neut, endDate := e } rt ops)
    | _, _, _, _, _ => "BAD"
  | _ => "BAD"

end OFCore.Drv
