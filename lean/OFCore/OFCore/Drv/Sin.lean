/-! Line protocol handler for the `sin` domain (stub until the model exists). -/
namespace OFCore.Drv
def handleSin (_args : List String) : String := "BAD"
end OFCore.Drv
