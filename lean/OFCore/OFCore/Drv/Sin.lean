import OFCore.SetInput
import OFCore.Drv.Per
/-!
Line protocol handler for the `sin` domain (spreading of long-period inputs, C16).

```
sin <defUnit> <absent|dispatch|divide> <kind>[:<opt>…] <count> <op> <op> …
   kind = num | int | bool | date | str | enum      (the last four: items only copied, `VKind.opaque`)
   opt  = n            the variable is neutralised
          e<Y,M,D>     the variable's `end`
          d | b        harness only (arrays forced to disk / inputs fed through SimulationBuilder)
   op = S|<period>|<mode>|<v1;v2;…>   Simulation.set_input (checks `end`)   -> ok | ERR
        H|<period>|<mode>|<v1;v2;…>   Holder.set_input directly             -> ok | ERR
        G|<period>[|<spelling>]       get_array            -> v1;v2;… | none
        A|<period>[|<spelling>]       calculate_add        -> v1;v2;… | empty | ERR
        K                             all known periods    -> [p=v1;v2&p=…]   (sorted)
```
One case per line (a fresh holder), the answers of the ops separated by one blank. `<mode>` says
how the harness passes the values to the real code (Python floats, ints, tuples, numpy arrays,
scalars, expression strings; `<mode>@<k>` = the caller's object number `k`, the same object passed
again; `~<spelling>` = the period given as Period / str / int); the model ignores it: an argument is
an input whose value is the one written in the token, never scratch space. The one exception is the
container `z` (items that are no values of the variable's type, e.g. the text "abc" for a float
variable): `_to_array` refuses it exactly where it refuses a vector of the wrong length, and that is
how the driver presents it to the model. Values are exact rationals `p/q` in lowest terms (`p` when
`q = 1`); items of the opaque kinds travel as integer codes.
-/
namespace OFCore.Drv

def parseRat? (s : String) : Option Rat :=
  match s.splitOn "/" with
  | [p] => p.toInt?.map (fun (n : Int) => (n : Rat))
  | [p, q] => do
    let n ← p.toInt?
    let d ← q.toNat?
    if d = 0 then none else pure (mkRat n d)
  | _ => none

def parseVec? (s : String) : Option Vec := (s.splitOn ";").mapM parseRat?

def showRat (x : Rat) : String := if x.den = 1 then toString x.num else s!"{x.num}/{x.den}"

def showVec (v : Vec) : String := ";".intercalate (v.map showRat)

def unitIdx : DUnit → Nat
  | .weekday => 0 | .week => 1 | .day => 2 | .month => 3 | .year => 4 | .eternity => 5

/-- strict order on keys used to print a store canonically -/
def keyLt (a b : Period) : Bool :=
  let ka : List Int := [unitIdx a.unit, a.start.y, a.start.m, a.start.d, a.size]
  let kb : List Int := [unitIdx b.unit, b.start.y, b.start.m, b.start.d, b.size]
  decide (ka < kb)

def insertKey (p : Period) : List Period → List Period
  | [] => [p]
  | q :: r => if keyLt p q then p :: q :: r else q :: insertKey p r

def sortKeys (ps : List Period) : List Period := ps.foldr insertKey []

def showStore (s : Store) : String :=
  "[" ++ "&".intercalate ((sortKeys (skeys s)).map fun q =>
    showPeriod q ++ "=" ++ showVec ((sget s q).getD [])) ++ "]"

def parseRule? : String → Option SRule
  | "absent" => some .absent | "dispatch" => some .dispatch | "divide" => some .divide | _ => none

def parseKind? : String → Option VKind
  | "num" => some .num | "int" => some .int
  | "bool" => some .opaque | "date" => some .opaque | "str" => some .opaque | "enum" => some .opaque
  | _ => none

/-- `<kind>[:<opt>…]` -> (kind, neutralised, end) -/
def parseKindOpts? (tok : String) : Option (VKind × Bool × Option Date) :=
  match tok.splitOn ":" with
  | [] => none
  | k :: opts => do
    let kind ← parseKind? k
    let rec go (neut : Bool) (e : Option Date) : List String → Option (Bool × Option Date)
      | [] => some (neut, e)
      | o :: r =>
        if o = "n" then go true e r
        else if o = "d" ∨ o = "b" then go neut e r
        else if o.startsWith "e" then
          match parseDate? ((o.drop 1).toString) with
          | some d => go neut (some d) r
          | none => none
        else none
    let (neut, e) ← go false none opts
    pure (kind, neut, e)

inductive SinOp
  | set (p : Period) (v : Vec)
  | hset (p : Period) (v : Vec)
  | get (p : Period)
  | add (p : Period)
  | known

def parseOp? (tok : String) : Option SinOp :=
  match tok.splitOn "|" with
  | ["S", p, mode, vs] => do
    let v ← parseVec? vs
    pure (.set (← parsePeriod? p) (if mode.startsWith "z" then [] else v))
  | ["H", p, mode, vs] => do
    let v ← parseVec? vs
    pure (.hset (← parsePeriod? p) (if mode.startsWith "z" then [] else v))
  | ["G", p] => do pure (.get (← parsePeriod? p))
  | ["G", p, _] => do pure (.get (← parsePeriod? p))
  | ["A", p] => do pure (.add (← parsePeriod? p))
  | ["A", p, _] => do pure (.add (← parsePeriod? p))
  | ["K"] => some .known
  | _ => none

def runOps (var : VarSpec) : Store → List SinOp → List String
  | _, [] => []
  | s, .set p v :: r =>
    match simSetInput var s p v with
    | .ok s' => "ok" :: runOps var s' r
    | .error _ => "ERR" :: runOps var s r
  | s, .hset p v :: r =>
    match setInput var s p v with
    | .ok s' => "ok" :: runOps var s' r
    | .error _ => "ERR" :: runOps var s r
  | s, .get p :: r =>
    (match getArray var s p with | some v => showVec v | none => "none") :: runOps var s r
  | s, .add p :: r =>
    match calcAdd var s p with
    | .ok (some v, s') => showVec v :: runOps var s' r
    | .ok (none, s') => "empty" :: runOps var s' r
    | .error _ => "ERR" :: runOps var s r
  | s, .known :: r => showStore s :: runOps var s r

def handleSin (args : List String) : String :=
  match args with
  | du :: rule :: kind :: cnt :: ops =>
    match DUnit.ofName du, parseRule? rule, parseKindOpts? kind, cnt.toNat?, ops.mapM parseOp? with
    | some du, some rule, some (kind, neut, e), some cnt, some ops =>
      if ops.isEmpty then "BAD"
      else " ".intercalate (runOps { defUnit := du, rule := rule, kind := kind, count := cnt,
                                     neutralized := neut, endDate := e } [] ops)
    | _, _, _, _, _ => "BAD"
  | _ => "BAD"

end OFCore.Drv
