import OFCore.EnumCodec
import OFCore.Drv.Util
/-!
Line protocol handler for the `enm` domain (property C15). One self-contained case per line:

```
enm enc <names> <container> <items>               -> OK <owner> <idx> <dec> <str> <re> <reraw> | ERR
enm sel <names> <container> <items> <how> <positions> -> OK <idx> <dec> <str> | ERR
enm dec <names> <indices> [<dtype/shape>]          -> <dec> <str>
enm cmp <names> <container> <items> <op> <other>  -> V:<T/F…> | S:<T/F> | R:<list> | RAISE | ERR
```

`cmp`: encode, then apply an operator of `EnumArray` to the result: `<op>` = `eq` `ne` (the two
allowed ones), `add` `mul` `lt` `le` `gt` `ge` `and` `or` (forbidden: raise), `repr` `str` (the
members / names the text shows; `<other>` = `-`).  `<other>`: `N` (None), `C.own` `C.twin`
`C.foreign` (an enumeration class), `x:<item>` (one object, items as below), `L[.<container>]:<ints>`
(list / tuple / array of integers), `B[.<what>]:<len>` (a list of `<len>` strings / members / …),
`E.own:<indices>` `E.foreign:<indices>` (an `EnumArray`).  Answer: `ERR` when `encode` raises,
`RAISE` when the operator raises, `V:` a boolean array (`-` when empty), `S:` a scalar.

`sel`: encode, then select `<positions>` (comma separated, non-negative) from the result through
the ndarray API (`<how>` names the numpy spelling — slice, mask, fancy, take, rev, copy, view,
repeat, astype — and only matters to the implementation adapter), then decode the selection.

* `<names>`: the names of the class body in declaration order, comma separated; a name is the
  dot-joined hex code points of its characters (`61.62` = "ab"); `-` = no name; `<name>~<j>` is an
  ALIAS: a name bound to the value of the j-th member declared before it (it creates no member;
  indices and the names table only count the canonical members: `EnumCodec.declare`).
* `<container>`: `seq[.list|.tuple|.deque|.array]`, `int[.<dtype>[.strided]]`,
  `str[.arr|.wide|.strided]`, `obj[.arr]`, `oth[.<dtype>]`, `zd[.<dtype>]` (0-dimensional array,
  exactly one item), `enc.own[.<dtype>]`, `enc.foreign` (apart from own/foreign the text after
  the first `.` only matters to the implementation adapter).
* `<items>`: comma separated, `-` = empty. `i<int>[.b]` an integer, `s<name>` a string,
  `S<name>` a `numpy.str_` scalar (a `str`),
  `m<k>` the k-th member of the enumeration, `g<k>` the k-th member of a *different*
  enumeration declared under the same class name (the class test `cls == item.__class__`
  compares classes by name, so it is an instance of "the class" carrying index k),
  `f<k>` the k-th member of an enumeration with another class name, `o[.<what>]` anything else.
  For `enc.*` the items are `i<k>`: the indices held by the `EnumArray`.
* answer: `<owner>` = `own|foreign`; `<idx>` the encoded indices; `<dec>` the positions of the
  members returned by `decode()`; `<str>` the names returned by `decode_to_str()`; `<re>` the
  indices of `encode(result)`; `<reraw>` the indices of `encode(numpy.asarray(result))`. Lists
  are comma separated, `-` when empty, `ERR` when that step raises, `~` when not observed
  (decode of an array owned by the other enumeration).
-/
namespace OFCore.Drv
open OFCore.EnumCodec

def hexNat? (s : String) : Option Nat :=
  if s.isEmpty then none
  else s.toList.foldl (fun acc c => do let a ← acc; let d ← hexVal c; pure (a * 16 + d)) (some 0)

def enmName? (tok : String) : Option String :=
  if tok.isEmpty then some ""
  else (tok.splitOn ".").mapM (fun h => (hexNat? h).map Char.ofNat) |>.map String.ofList

def enmShowName (s : String) : String :=
  ".".intercalate (s.toList.map (fun c => String.ofList (Nat.toDigits 16 c.toNat)))

def enmList (tok : String) : List String :=
  if tok = "-" then [] else tok.splitOn ","

def enmShowList (xs : List String) : String :=
  if xs.isEmpty then "-" else ",".intercalate xs

/-- the bindings of a `<names>` field: `<name>` declares a new member (bound to a fresh value),
`<name>~<j>` binds the name to the value of the j-th canonical member declared so far (an alias) -/
def enmBindings? (tok : String) : Option (List (String × Nat)) :=
  let rec go (toks : List String) (c : Nat) (acc : List (String × Nat)) : Option (List (String × Nat)) :=
    match toks with
    | [] => some acc.reverse
    | t :: rest =>
      match t.splitOn "~" with
      | [nm] => match enmName? nm with
        | some s => go rest (c + 1) ((s, c) :: acc)
        | none => none
      | [nm, j] => match enmName? nm, j.toNat? with
        | some s, some j => if j < c then go rest c ((s, j) :: acc) else none
        | _, _ => none
      | _ => none
  go (enmList tok) 0 []

/-- the names table (`_member_names_`) of the declared enumeration: `declare` on the bindings -/
def enmNames? (tok : String) : Option (List String) :=
  (enmBindings? tok).map fun bs => (declare bs).names

def enmHead (tok : String) : String := (tok.splitOn ".").headD ""

def enmElem? (tok : String) : Option Elem :=
  match tok.toList with
  | 'i' :: r => ((enmHead (String.ofList r)).toInt?).map Elem.int
  | 's' :: r => (enmName? (String.ofList r)).map Elem.str
  | 'S' :: r => (enmName? (String.ofList r)).map Elem.str
  | 'm' :: r => ((String.ofList r).toNat?).map (Elem.member 0)
  | 'g' :: r => ((String.ofList r).toNat?).map (Elem.member 0)
  | 'f' :: r => ((String.ofList r).toNat?).map (Elem.member 1)
  | 'o' :: _ => some Elem.other
  | _ => none

def enmInput? (container : String) (items : List String) : Option Input := do
  let xs ← items.mapM enmElem?
  match enmHead container with
  | "seq" => pure (.seq xs)
  | "obj" => pure (.objArr xs)
  | "int" => if xs.all Elem.isInt then pure (.intArr (xs.map Elem.intVal)) else none
  | "str" => if xs.all Elem.isStr then pure (.strArr (xs.map Elem.strVal)) else none
  | "oth" => if xs.all (· == Elem.other) then pure (.otherArr xs.length) else none
  | "zd" => match xs with
    | [x] => pure (.scalarArr x)
    | _ => none
  | "enc" =>
    if xs.all (fun x => x.isInt && decide (0 ≤ x.intVal)) then
      let owner := if (container.splitOn ".").getD 1 "" = "own" then 0 else 1
      pure (.encoded ⟨owner, xs.map (fun x => x.intVal.toNat)⟩)
    else none
  | _ => none

def enmShowIdx (r : Except String EnumArray) : String :=
  match r with
  | .ok a => enmShowList (a.idx.map toString)
  | .error _ => "ERR"

def enmShowDec (e : Enumeration) (a : EnumArray) : String :=
  match decode e a with
  | .ok ms => enmShowList (ms.map (fun m => toString m.indexAttr))
  | .error _ => "ERR"

def enmShowStr (e : Enumeration) (a : EnumArray) : String :=
  match decodeToStr e a with
  | .ok ss => enmShowList (ss.map enmShowName)
  | .error _ => "ERR"

/-- right operand of a comparison: `N` | `C.own` `C.twin` `C.foreign` | `x:<item>` |
`L[.<container>]:<ints>` | `B[.<what>]:<len>` | `E.own:<indices>` `E.foreign:<indices>` -/
def enmOperand? (n : Nat) (tok : String) : Option Operand :=
  match tok.splitOn ":" with
  | ["N"] => some .none_
  | ["C.own"] => some (.cls 0 n)
  | ["C.twin"] => some (.cls 0 (n + 2))
  | ["C.foreign"] => some (.cls 1 (n + 2))
  | ["x", item] => (enmElem? item).map .elem
  | [h, body] =>
    match enmHead h with
    | "L" => ((enmList body).mapM String.toInt?).map .ints
    | "B" => body.toNat?.map .blind
    | "E" =>
      let owner := if h = "E.own" then 0 else 1
      ((enmList body).mapM String.toNat?).map fun is => .arr ⟨owner, is⟩
    | _ => none
  | _ => none

def enmShowCmp : Except String CmpRes → String
  | .error _ => "RAISE"
  | .ok (.scalar b) => if b then "S:T" else "S:F"
  | .ok (.vec bs) => "V:" ++ (if bs.isEmpty then "-" else String.ofList (bs.map fun b => if b then 'T' else 'F'))

def enmForbidden? : String → Option ForbiddenOp
  | "add" => some .add | "mul" => some .mul | "lt" => some .lt | "le" => some .le
  | "gt" => some .gt | "ge" => some .ge | "and" => some .and_ | "or" => some .or_
  | _ => none

def handleEnm (args : List String) : String :=
  match args with
  | ["cmp", names, container, items, op, other] =>
    match enmNames? names, enmInput? container (enmList items) with
    | some ns, some x =>
      let e : Enumeration := ⟨0, ns⟩
      match encode e x with
      | .error _ => "ERR"
      | .ok a =>
        -- the array's own enumeration: `e`, or the foreign one (n + 2 members)
        let n := if a.owner == e.cid then e.size else e.size + 2
        if op = "repr" then
          (if a.owner == e.cid then "R:" ++ enmShowDec e a else "R:~")
        else if op = "str" then
          (if a.owner == e.cid then "R:" ++ enmShowStr e a else "R:~")
        else
          match enmOperand? e.size other with
          | none => "BAD"
          | some o =>
            if op = "eq" then enmShowCmp (eqOp n a o)
            else if op = "ne" then enmShowCmp (neOp n a o)
            else match enmForbidden? op with
              | some f => enmShowCmp (forbiddenOp f a o)
              | none => "BAD"
    | _, _ => "BAD"
  | ["enc", names, container, items] =>
    match enmNames? names, enmInput? container (enmList items) with
    | some ns, some x =>
      let e : Enumeration := ⟨0, ns⟩
      match encode e x with
      | .error _ => "ERR"
      | .ok a =>
        let own := a.owner == e.cid
        let dec := if own then enmShowDec e a else "~"
        let str := if own then enmShowStr e a else "~"
        let re := enmShowIdx (encode e (.encoded a))
        let reraw := enmShowIdx (encode e (.intArr (a.idx.map Int.ofNat)))
        s!"OK {if own then "own" else "foreign"} {enmShowList (a.idx.map toString)} {dec} {str} {re} {reraw}"
    | _, _ => "BAD"
  | ["sel", names, container, items, _how, positions] =>
    match enmNames? names, enmInput? container (enmList items),
        (enmList positions).mapM String.toNat? with
    | some ns, some x, some ps =>
      let e : Enumeration := ⟨0, ns⟩
      match encode e x with
      | .error _ => "ERR"
      | .ok a =>
        match a.take ps with
        | .error _ => "ERR"
        | .ok b => s!"OK {enmShowList (b.idx.map toString)} {enmShowDec e b} {enmShowStr e b}"
    | _, _, _ => "BAD"
  | "dec" :: names :: idx :: rest =>
    if rest.length > 1 then "BAD" else
    match enmNames? names, (enmList idx).mapM String.toNat? with
    | some ns, some is =>
      let e : Enumeration := ⟨0, ns⟩
      s!"{enmShowDec e ⟨0, is⟩} {enmShowStr e ⟨0, is⟩}"
    | _, _ => "BAD"
  | _ => "BAD"

end OFCore.Drv
