/-! Line protocol handler for the `enm` domain (stub until the model exists). -/
namespace OFCore.Drv
def handleEnm (_args : List String) : String := "BAD"
end OFCore.Drv
