import OFCore.Builder
import OFCore.Drv.Util
/-!
Line protocol handler for the `doc` domain (C12).

    doc build    <sys> <default period | -> <document>   ->  OK <entities> <store> | SITUATION | ERR | UNMODELLED | BAD
    doc entities <sys> <default period | -> <document>   (`build_from_entities` called directly)
    doc manual   <sys> <default period | -> <document>   (the builder's steps called one by one; same model)
    doc default  <sys> <count>                           (`build_default_simulation`)
    doc join     <sys> {persons:[id…], groups:[{kind, ids:[id…], of:[id…], roles:[key|index…]}]}
                                                         (`declare_person_entity` / `declare_entity` / `join_with_persons`)

`<sys>` and `<document>` are trees in a blank-free prefix notation (every item is self-delimiting):

    n | t | f | i<int>; | r<num>/<den>; | s<hex of ASCII>; | d<date ordinal>; | [ item* ] | { (key item)* }      key = s<hex>; | i<int>;

`<sys>` = {pk, pp, groups:[{key, plural, roles:[{key, plural|n, max|n, sub:[…]}]}],
           vars:[{name, entity, type: "int"|"float"|"bool"|"str"|"date"|[enum names], unit, default, rule, end: "YYYY-MM-DD"|n}]}

`<entities>` = `key:ids:count:members_entity_id:members_role:members_position` joined by `;`
(ids and role keys in hex, `-` = empty list); `<store>` = `var(hex)@period text=v,v,…` joined by
`;`, sorted; values `i<int>` `n<p>/<q>` `T` `F` `s<hex>` `d<ordinal>` `e<index>`.
-/
namespace OFCore.Drv
open OFCore.Bld

/-! ### reading trees -/

def takeUntil (stop : Char) : List Char → Option (List Char × List Char)
  | [] => none
  | c :: cs => if c = stop then some ([], cs) else (takeUntil stop cs).map (fun (a, r) => (c :: a, r))

def readInt (cs : List Char) : Option Int := (String.ofList cs).toInt?

def readKey : List Char → Option (DKey × List Char)
  | 's' :: cs => do
    let (h, r) ← takeUntil ';' cs
    let t ← unhex (String.ofList h)
    pure (.s (String.ofList t), r)
  | 'i' :: cs => do
    let (h, r) ← takeUntil ';' cs
    pure (.i (← readInt h), r)
  | _ => none

mutual
partial def readDoc : List Char → Option (Doc × List Char)
  | 'n' :: r => some (.null, r)
  | 't' :: r => some (.bool true, r)
  | 'f' :: r => some (.bool false, r)
  | 'i' :: cs => do
    let (h, r) ← takeUntil ';' cs
    pure (.int (← readInt h), r)
  | 'r' :: cs => do
    let (h, r) ← takeUntil ';' cs
    match (String.ofList h).splitOn "/" with
    | [p, q] =>
      let p ← p.toInt?; let q ← q.toNat?
      if q = 0 then none else pure (.num ((p : Rat) / (q : Rat)), r)
    | _ => none
  | 's' :: cs => do
    let (h, r) ← takeUntil ';' cs
    let t ← unhex (String.ofList h)
    pure (.str (String.ofList t), r)
  | 'd' :: cs => do
    let (h, r) ← takeUntil ';' cs
    pure (.date (← readInt h), r)
  | '[' :: cs => do
    let (xs, r) ← readItems cs
    pure (.arr xs, r)
  | '{' :: cs => do
    let (kvs, r) ← readPairs cs
    pure (.obj kvs, r)
  | _ => none
partial def readItems : List Char → Option (List Doc × List Char)
  | ']' :: r => some ([], r)
  | cs => do
    let (d, r) ← readDoc cs
    let (ds, r') ← readItems r
    pure (d :: ds, r')
partial def readPairs : List Char → Option (List (DKey × Doc) × List Char)
  | '}' :: r => some ([], r)
  | cs => do
    let (k, r) ← readKey cs
    let (d, r') ← readDoc r
    let (kvs, r'') ← readPairs r'
    pure ((k, d) :: kvs, r'')
end

def readTree (s : String) : Option Doc :=
  match readDoc s.toList with
  | some (d, []) => some d
  | _ => none

/-! ### the system -/

def fStr (kvs : List (DKey × Doc)) (k : String) : Option String := (lookupS k kvs).bind Doc.str?
def fArr (kvs : List (DKey × Doc)) (k : String) : Option (List Doc) := (lookupS k kvs).bind Doc.asArr?

def readRole (d : Doc) : Option Role := do
  let kvs ← d.asObj?
  let sub ← (← fArr kvs "sub").mapM Doc.str?
  pure ⟨← fStr kvs "key", fStr kvs "plural", (lookupS "max" kvs).bind Doc.nat?, sub⟩

def readGroup (d : Doc) : Option GroupKind := do
  let kvs ← d.asObj?
  pure ⟨← fStr kvs "key", ← fStr kvs "plural", ← (← fArr kvs "roles").mapM readRole⟩

def readVType (d : Doc) : Option VType :=
  match d with
  | .str "int" => some .int | .str "float" => some .float | .str "bool" => some .bool
  | .str "str" => some .str | .str "date" => some .date
  | .arr xs => (xs.mapM Doc.str?).map VType.enum
  | _ => none

def readDefault (t : VType) (d : Doc) : Option Val :=
  match t, d with
  | .int, .int i => some (.int i)
  | .float, .int i => some (.num i)
  | .float, .num r => some (.num r)
  | .bool, .bool b => some (.bool b)
  | .str, .str s => some (.str s)
  | .date, .int o => some (.date o)
  | .enum _, .int k => some (.enum k.toNat)
  | _, _ => none

def readRule : String → Option SRule
  | "absent" => some .absent | "dispatch" => some .dispatch | "divide" => some .divide | _ => none

def readVar (d : Doc) : Option Var := do
  let kvs ← d.asObj?
  let t ← readVType (← lookupS "type" kvs)
  let stop ← match fStr kvs "end" with
    | none => some none
    | some txt => match parseInstant txt.toList with
      | .ok c => some (some c)
      | .error _ => none
  pure ⟨← fStr kvs "name", ← fStr kvs "entity", t, ← DUnit.ofName (← fStr kvs "unit"),
    ← readDefault t (← lookupS "default" kvs), ← readRule (← fStr kvs "rule"), stop⟩

def readSys (d : Doc) : Option Sys := do
  let kvs ← d.asObj?
  pure ⟨← fStr kvs "pk", ← fStr kvs "pp", ← (← fArr kvs "groups").mapM readGroup,
    ← (← fArr kvs "vars").mapM readVar⟩

/-! ### printing -/

def hexS (s : String) : String := tohex s.toList

def showList (xs : List String) : String := if xs.isEmpty then "-" else ",".intercalate xs

def showVal : Val → String
  | .int i => s!"i{i}"
  | .num r => s!"n{r.num}/{r.den}"
  | .bool b => if b then "T" else "F"
  | .str s => "s" ++ hexS s
  | .date o => s!"d{o}"
  | .enum k => s!"e{k}"

/-- `GroupPopulation.members_position` -/
def positions (memb : List Nat) : List Nat :=
  (List.zipIdx memb).map (fun (g, i) => ((memb.take i).filter (· == g)).length)

def showEnt (e : Ent) : String :=
  ":".intercalate [e.key, showList (e.ids.map hexS), toString e.count,
    showList (e.memb.map toString), showList (e.roles.map hexS), showList ((positions e.memb).map toString)]

def showStore (s : Store) : String :=
  let entries := s.map (fun (e : (String × Period) × Vec) =>
    hexS e.1.1 ++ "@" ++ String.ofList e.1.2.text ++ "=" ++ showList (e.2.map showVal))
  let sorted := entries.mergeSort (fun a b => decide (a ≤ b))
  if sorted.isEmpty then "-" else ";".intercalate sorted

def showSim : R Sim → String
  | .ok sim => "OK " ++ ";".intercalate (sim.ents.map showEnt) ++ " " ++ showStore sim.store
  | .error .situation => "SITUATION"
  | .error .other => "ERR"
  | .error .unmodelled => "UNMODELLED"

/-- an id as the builder holds it: `str(id)` -/
def idText : Doc → Option String
  | .str s => some s
  | .int i => some (toString i)
  | _ => none

def readRoleRef : Doc → Option RoleRef
  | .str s => some (.key s)
  | .int i => if 0 ≤ i then some (.idx i.toNat) else none
  | _ => none

def readJoined (d : Doc) : Option Joined := do
  let kvs ← d.asObj?
  pure ⟨← fStr kvs "kind", ← (← fArr kvs "ids").mapM idText, ← (← fArr kvs "of").mapM idText,
    ← (← fArr kvs "roles").mapM readRoleRef⟩

/-- `doc build|entities|manual` : the route decides which entry point reads the document -/
def runRoute (route : String) (sys : Sys) (dp : Option String) (doc : Doc) : String :=
  if route = "build" then showSim (buildFromDict sys dp stdSetInput doc)
  else showSim (buildFromEntitiesDoc sys dp stdSetInput doc)

def handleDoc (args : List String) : String :=
  match args with
  | [route, sysT, dpT, docT] =>
    if route ≠ "build" ∧ route ≠ "entities" ∧ route ≠ "manual" then "BAD" else
    match (readTree sysT).bind readSys, readTree docT with
    | some sys, some doc =>
      if dpT = "-" then runRoute route sys none doc else
      match (unhex dpT).map String.ofList with
      | none => "BAD"
      | some raw =>
        match setDefaultPeriod raw with
        | .error _ => "ERR"
        | .ok dp => runRoute route sys (some dp) doc
    | _, _ => "BAD"
  | ["default", sysT, countT] =>
    match (readTree sysT).bind readSys, countT.toNat? with
    | some sys, some count => showSim (.ok (buildDefault sys count))
    | _, _ => "BAD"
  | ["join", sysT, docT] =>
    match (readTree sysT).bind readSys, (readTree docT).bind Doc.asObj? with
    | some sys, some kvs =>
      match (fArr kvs "persons").bind (·.mapM idText), (fArr kvs "groups").bind (·.mapM readJoined) with
      | some pids, some js => showSim (buildJoined sys pids js)
      | _, _ => "BAD"
    | _, _ => "BAD"
  | _ => "BAD"

end OFCore.Drv
