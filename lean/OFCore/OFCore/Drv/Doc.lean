/-! Line protocol handler for the `doc` domain (stub until the model exists). -/
namespace OFCore.Drv
def handleDoc (_args : List String) : String := "BAD"
end OFCore.Drv
