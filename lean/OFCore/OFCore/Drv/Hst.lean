import OFCore.HolderStore
import OFCore.Drv.Per
/-!
Line protocol for the holder value store (`hst`), one self-contained history per line:

```
hst <eternal 0|1> <diskable 0|1> <n> { s <period> <value> <pressure 0|1> | g <period> | d <period|*> | k }
```
`s` = `Holder._set` (through `Simulation.set_input` / `put_in_cache`), `g` = `get_array`,
`d` = `delete_arrays`, `k` = `get_known_periods`.  Answer: one item per `g` (`none` or the value)
and per `k` (the sorted known keys joined by `+`), joined by `;`.
-/
namespace OFCore.Drv
open OFCore OFCore.HolderStore

inductive HReq
  | set (p : Period) (x : Int) (b : Bool)
  | get (p : Period)
  | del (p : Option Period)
  | known

def pHReqs : Nat → List String → Option (List HReq)
  | 0, [] => some []
  | 0, _ => none
  | n+1, "s" :: p :: x :: b :: r => do
    let p ← parsePeriod? p; let x ← x.toInt?
    let b ← (if b = "1" then some true else if b = "0" then some false else none)
    let rest ← pHReqs n r
    pure (.set p x b :: rest)
  | n+1, "g" :: p :: r => do let p ← parsePeriod? p; let rest ← pHReqs n r; pure (.get p :: rest)
  | n+1, "d" :: "*" :: r => do let rest ← pHReqs n r; pure (.del none :: rest)
  | n+1, "d" :: p :: r => do let p ← parsePeriod? p; let rest ← pHReqs n r; pure (.del (some p) :: rest)
  | n+1, "k" :: r => do let rest ← pHReqs n r; pure (.known :: rest)
  | _, _ => none

def insertSorted (s : String) : List String → List String
  | [] => [s]
  | a :: r => if s < a then s :: a :: r else if s = a then a :: r else a :: insertSorted s r

def runHst (eternal : Bool) (h : Holder Period Int) : List HReq → List String → List String
  | [], out => out.reverse
  | .set p x b :: r, out => runHst eternal (h.set (fun q => if eternal then Period.eternity else q) p x b) r out
  | .get p :: r, out =>
    let o := match h.get (fun q => if eternal then Period.eternity else q) p with
      | some x => toString x | none => "none"
    runHst eternal h r (o :: out)
  | .del p :: r, out => runHst eternal (h.delete (fun q => if eternal then Period.eternity else q) p) r out
  | .known :: r, out =>
    let ks := (h.known.map showPeriod).foldl (fun acc s => insertSorted s acc) []
    runHst eternal h r ("+".intercalate ks :: out)

def handleHst : List String → String
  | e :: d :: n :: rest =>
    match n.toNat? with
    | none => "BAD"
    | some n =>
      if (e ≠ "0" ∧ e ≠ "1") ∨ (d ≠ "0" ∧ d ≠ "1") then "BAD" else
      match pHReqs n rest with
      | none => "BAD"
      | some reqs => ";".intercalate (runHst (e = "1") { diskable := d = "1", mem := [], disk := [] } reqs [])
  | _ => "BAD"

end OFCore.Drv
