import OFCore.Dump
import OFCore.Drv.Per
/-!
Line protocol handler for the `dmp` domain (property C19). One self-contained case per line:

```
dmp rt  <npost> <token> <token> …     -> OK <P…> <A…> F|<paths> C|<flags>   |  ERR [F|<paths>]  |  BAD
dmp rt2 <npost> <token> <token> …     -> the same after dump, restore, dump of the restored simulation, restore
```

`ERR` alone: `dump_simulation` raised; `ERR F|<paths>`: the dump was written, `restore_simulation` raised.

The tokens describe a rule system and the state of a simulation (fields separated by `|`):

* `E|<key>|<P|G>|<roles>`            an entity of the system, person first; `<roles>` = keys of the
                                     flattened roles, comma separated, `-` when there is none
* `V|<name>|<entity>|<vtype>|<unit>|<N|->|<default>`   a variable (`N` = neutralised);
                                     `<vtype>` = `int|float|bool|str|bytes<w>|date|enum:<Name>/<item>/…`;
                                     `<default>` = a one-element `<vec>`
* `P|<key>|<count>|<ids>|<members_entity_id>|<members_role>|<members_position>`   a population
                                     (lists comma separated, `-` when empty; an id is `x<hex>`;
                                     a role is its key, `*` for anything that is not a role)
* `H|<var>|<0|1>`                    a holder (1 = it has a disk store)
* `A|<var>|<M|D>|<period>|<vec>`     an array held in the memory (M) or disk (D) store;
                                     `<period>` = `unit/y,m,d/size`
* `T|stale`                          the directory dumped into is not empty (an older dump)
* `X|<var>|x<hex>` / `XF|x<hex>` / `XD|<var>`   after the dump: a foreign file or sub-directory
                                     inside `<var>/`; a foreign top-level entry; an empty
                                     top-level directory named after a variable

`<vec>` = `i:<ints>` | `f:<p/q,…>` | `b:<T|F,…>` | `s:<x<hex>,…>` | `y<w>:<x<hex>,…>` |
`d:<ordinals>` | `e:<Name>/<item>/…:<indices>`.

Answer: the simulation `restore sys (dump s)`: its populations (`P|…` as above, in system
order), every known `(variable, period)` with the array `get_array` returns (`A|<var>|<period>|<vec>`,
sorted as text, duplicates removed), the files of the dump (`F|` sorted paths joined by `;`, an
empty directory ends with `/`), and `C|` followed by one `A` (agree) per further calculation
requested (`<npost>`): the model predicts agreement (theorem `C19_calculations_agree`).
-/
namespace OFCore.Drv
open OFCore OFCore.Dump

def dmpList (tok : String) : List String := if tok = "-" then [] else tok.splitOn ","

def dmpShowList (xs : List String) : String := if xs.isEmpty then "-" else ",".intercalate xs

def dmpRat? (s : String) : Option Rat :=
  match s.splitOn "/" with
  | [p] => p.toInt?.map (fun i => (i : Rat))
  | [p, q] => do
    let a ← p.toInt?
    let b ← q.toNat?
    if b = 0 then none else pure (mkRat a b)
  | _ => none

def dmpShowRat (q : Rat) : String := if q.den = 1 then toString q.num else s!"{q.num}/{q.den}"

def dmpBool? (s : String) : Option Bool := if s = "T" then some true else if s = "F" then some false else none

def dmpHexStr? (s : String) : Option String :=
  match s.toList with
  | 'x' :: r => if r.all (fun c => (hexVal c).isSome) then some (String.ofList r) else none
  | _ => none

def dmpEnum? (s : String) : Option EnumT :=
  match s.splitOn "/" with
  | name :: items => if name.isEmpty then none else some ⟨name, items⟩
  | [] => none

def dmpShowEnum (e : EnumT) : String := "/".intercalate (e.name :: e.items)

def dmpVec? (tok : String) : Option Vec :=
  match tok.splitOn ":" with
  | ["i", xs] => (dmpList xs).mapM String.toInt? |>.map (fun l => .plain (.ints l))
  | ["f", xs] => (dmpList xs).mapM dmpRat? |>.map (fun l => .plain (.floats l))
  | ["b", xs] => (dmpList xs).mapM dmpBool? |>.map (fun l => .plain (.bools l))
  | ["s", xs] => (dmpList xs).mapM dmpHexStr? |>.map (fun l => .plain (.strs l))
  | ["d", xs] => (dmpList xs).mapM String.toInt? |>.map (fun l => .plain (.dates l))
  | ["e", en, xs] => do
    let e ← dmpEnum? en
    let l ← (dmpList xs).mapM String.toInt?
    pure (.enum e l)
  | [yw, xs] =>
    match yw.toList with
    | 'y' :: w => do
      let w ← (String.ofList w).toNat?
      let l ← (dmpList xs).mapM dmpHexStr?
      pure (.plain (.bytes w l))
    | _ => none
  | _ => none

def dmpShowVec (v : Vec) : String :=
  match v with
  | .plain (.ints l) => "i:" ++ dmpShowList (l.map toString)
  | .plain (.floats l) => "f:" ++ dmpShowList (l.map dmpShowRat)
  | .plain (.bools l) => "b:" ++ dmpShowList (l.map (fun b => if b then "T" else "F"))
  | .plain (.strs l) => "s:" ++ dmpShowList (l.map ("x" ++ ·))
  | .plain (.bytes w l) => s!"y{w}:" ++ dmpShowList (l.map ("x" ++ ·))
  | .plain (.dates l) => "d:" ++ dmpShowList (l.map toString)
  | .enum e l => "e:" ++ dmpShowEnum e ++ ":" ++ dmpShowList (l.map toString)

def dmpVType? (tok : String) : Option VType :=
  match tok.splitOn ":" with
  | ["int"] => some .int
  | ["float"] => some .float
  | ["bool"] => some .bool
  | ["str"] => some .str
  | ["date"] => some .date
  | ["enum", en] => (dmpEnum? en).map .enum
  | [b] =>
    if b.startsWith "bytes" then ((b.drop 5).toString.toNat?).map .bytes else none
  | _ => none

def dmpVal? (tok : String) : Option Val :=
  match dmpVec? tok with
  | some (.plain (.ints [i])) => some (.int i)
  | some (.plain (.floats [q])) => some (.float q)
  | some (.plain (.bools [b])) => some (.bool b)
  | some (.plain (.strs [s])) => some (.str s)
  | some (.plain (.bytes w [s])) => some (.bytes w s)
  | some (.plain (.dates [d])) => some (.date d)
  | some (.enum e [i]) => some (.enum e i)
  | _ => none

/-- what is done to the directory between the dump and the restore -/
inductive DmpTamper
  | inVar (var : String) (name : List Char)     -- `X|var|x<hex>`: a file or sub-directory inside `<var>/`
  | top (name : String)                         -- `XF|x<hex>`: a top-level entry (restore reads it as a variable name)
  | dir (var : String)                          -- `XD|var`: an empty top-level directory named after a variable

structure DmpState where
  ents : List EntityDecl := []
  vars : List VarDecl := []
  pops : List Pop := []
  holders : List Holder := []
  stale : Bool := false                         -- `T|stale`: the target directory is not empty
  tamper : List DmpTamper := []

def dmpRoles (keys : List String) : List Role :=
  (List.range keys.length).zip keys |>.map (fun (i, k) => ⟨k, i⟩)

def dmpRoleVal (roles : List Role) (tok : String) : RoleVal :=
  if tok = "*" then .other
  else match roles.find? (fun r => r.key = tok) with
    | some r => .role r
    | none => .other

def dmpToken (st : DmpState) (tok : String) : Option DmpState :=
  match tok.splitOn "|" with
  | ["E", key, pg, roles] =>
    if pg = "P" ∨ pg = "G" then
      some { st with ents := st.ents ++ [⟨key, pg = "P", dmpRoles (dmpList roles)⟩] }
    else none
  | ["V", name, ent, vt, unit, n, dflt] => do
    let vt ← dmpVType? vt
    let u ← DUnit.ofName unit
    let d ← dmpVal? dflt
    if n = "N" ∨ n = "-" then
      pure { st with vars := st.vars ++ [⟨name, ent, vt, u, n = "N", d⟩] }
    else none
  | ["P", key, count, ids, mei, roles, pos] => do
    let e ← st.ents.find? (fun e => e.key = key)
    let c ← count.toNat?
    let ids ← (dmpList ids).mapM dmpHexStr?
    let mei ← (dmpList mei).mapM String.toInt?
    let pos ← (dmpList pos).mapM String.toInt?
    pure { st with pops := st.pops ++ [{ entity := e, ids := ids, count := c, membersEntityId := mei,
                                          membersRole := (dmpList roles).map (dmpRoleVal e.roles),
                                          membersPosition := pos }] }
  | ["H", var, d] => do
    let v ← st.vars.find? (fun v => v.name = var)
    if d = "0" ∨ d = "1" then
      pure { st with holders := st.holders ++ [{ var := v, disk := if d = "1" then some [] else none }] }
    else none
  | ["A", var, md, per, vec] => do
    let p ← parsePeriod? per
    let v ← dmpVec? vec
    let h ← st.holders.find? (fun h => h.var.name = var)
    let h' ← (if md = "M" then some { h with mem := upsert h.mem p v }
              else if md = "D" then h.disk.map (fun d => { h with disk := some (upsert d p v) })
              else none)
    pure { st with holders := setHolderIn st.holders h' }
  | ["T", "stale"] => some { st with stale := true }
  | ["X", var, name] => do
    let n ← dmpHexStr? name
    let cs ← unhex n
    pure { st with tamper := st.tamper ++ [.inVar var cs] }
  | ["XF", name] => do
    let n ← dmpHexStr? name
    let cs ← unhex n
    pure { st with tamper := st.tamper ++ [.top (String.ofList cs)] }
  | ["XD", var] => some { st with tamper := st.tamper ++ [.dir var] }
  | _ => none

def dmpTamper (fs : FS) (t : DmpTamper) : FS :=
  match t with
  | .inVar var name =>
    { fs with vars := upsert fs.vars var (((alookup var fs.vars).getD []) ++ [(name, .ints [])]) }
  | .top name => { fs with vars := upsert fs.vars name ((alookup name fs.vars).getD []) }
  | .dir var => { fs with vars := upsert fs.vars var ((alookup var fs.vars).getD []) }

def dmpShowPop (p : PopView) : String :=
  let showRole : RoleVal → String
    | .role r => r.key
    | .other => "*"
  "|".intercalate ["P", p.key, toString p.count, dmpShowList (p.ids.map ("x" ++ ·)),
    dmpShowList (p.membersEntityId.map toString), dmpShowList (p.membersRole.map showRole),
    dmpShowList (p.membersPosition.map toString)]

def dmpSorted (xs : List String) : List String :=
  (xs.toArray.qsort (fun a b => a < b)).toList.eraseDups

def dmpArrays (s : Sim) : List String :=
  dmpSorted (s.holders.flatMap (fun h =>
    h.known.map (fun p =>
      let v := match h.getArray (s.countOf h) p with
        | some v => dmpShowVec v
        | none => "none"
      "|".intercalate ["A", h.var.name, showPeriod p, v])))

def dmpPaths (fs : FS) : List String :=
  dmpSorted (
    ["__entities__/"] ++
    fs.ents.flatMap (fun (k, d) =>
      if d.isEmpty then [s!"__entities__/{k}/"] else d.map (fun (f, _) => s!"__entities__/{k}/{f}")) ++
    fs.vars.flatMap (fun (k, d) =>
      if d.isEmpty then [s!"{k}/"] else d.map (fun (f, _) => s!"{k}/{String.ofList f}")))

def dmpShowSim (r : Sim) (fs : FS) (n : Nat) : String :=
  " ".intercalate (["OK"] ++ r.pops.map (fun p => dmpShowPop p.view) ++ dmpArrays r ++
    ["F|" ++ ";".intercalate (dmpPaths fs), "C|" ++ String.ofList (List.replicate n 'A')])

def handleDmp (args : List String) : String :=
  match args with
  | mode :: npost :: toks =>
    if mode ≠ "rt" ∧ mode ≠ "rt2" then "BAD" else
    match npost.toNat?, toks.foldlM dmpToken ({} : DmpState) with
    | some n, some st =>
      match st.ents with
      | person :: groups =>
        if !person.isPerson ∨ groups.any (·.isPerson) then "BAD" else
        let sys : System := ⟨person, groups, st.vars⟩
        let s : Sim := ⟨st.pops, st.holders⟩
        let target : FS := if st.stale then { vars := [("stale", [])] } else {}
        match dumpInto target s with
        | .error _ => "ERR"
        | .ok fs =>
          match restore sys (st.tamper.foldl dmpTamper fs) with
          | .error _ => "ERR F|" ++ ";".intercalate (dmpPaths fs)
          | .ok r =>
            if mode = "rt" then dmpShowSim r fs n
            else
              -- dump the restored simulation again, restore that
              match dumpInto {} r with
              | .error _ => "ERR2"
              | .ok fs2 =>
                match restore sys fs2 with
                | .error _ => "ERR2 F|" ++ ";".intercalate (dmpPaths fs2)
                | .ok r2 => dmpShowSim r2 fs2 n
      | [] => "BAD"
    | _, _ => "BAD"
  | _ => "BAD"

end OFCore.Drv
