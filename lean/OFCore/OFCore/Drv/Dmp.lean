/-! Line protocol handler for the `dmp` domain (stub until the model exists). -/
namespace OFCore.Drv
def handleDmp (_args : List String) : String := "BAD"
end OFCore.Drv
