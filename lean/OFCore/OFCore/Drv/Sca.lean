/-! Line protocol handler for the `sca` domain (stub until the model exists). -/
namespace OFCore.Drv
def handleSca (_args : List String) : String := "BAD"
end OFCore.Drv
