import OFCore.TaxScale
/-!
Line protocol handler for the `sca` domain (tax scales, properties C08 and C09).

Values are exact rationals `p` or `p/q` (lowest terms), a bracket is `t:r`, a scale is the
comma-separated list of the brackets **in insertion order** (`-` = no bracket): both sides build
it with `add_bracket`.  A vector of bases is a comma-separated list (`-` = empty).  `<rd>` is a
number of decimals or `-`.  One self-contained case per line:

```
sca build   <ins>                                  -> <scale>
sca mrcalc  <eps> <factor> <rd> <ins> <bases>      -> v,…            (MarginalRateTaxScale.calc)
sca mridx   <eps> <factor> <rd> <ins> <bases>      -> k,… | ERR      (bracket_indices)
sca mrrate  <eps> <factor> <rd> <ins> <bases>      -> r,… | ERR      (marginal_rates)
sca thr     <eps> <ins> <bases>                    -> t,… | ERR      (threshold_from_tax_base)
sca ratefb  <eps> <ins> <bases>                    -> r,… | ERR      (rate_from_tax_base)
sca macalc  <ins> <bases>                          -> v,…            (MarginalAmountTaxScale.calc)
sca sacalc  <L|R> <ins> <bases>                    -> v,…            (SingleAmountTaxScale.calc)
sca lacalc  <ins> <bases>                          -> v,… | ERR      (LinearAverageRateTaxScale.calc)
sca macalcR | lacalcR <ins> <bases>                -> same answers   (the implementation side passes right=True, which these two ignore)
sca mrcalcv | mridxv | mrratev <eps,…> <factor,…> <rd> <ins> <bases>   (an array of factors, element by element)
sca ratefi  <ins> <k,…>                            -> r,… | ERR      (rate_from_bracket_indice)
sca copyk   <ma|sa|la> <ins> <bases>               -> <scale>|v,… | ERR   (copy of the other scale kinds)
sca hist    <step>;… <bases>                       -> one token per step;#r0&r1&r2&r3   (histories, see `histStep`)
(`<bases>` may start with `i:`: the implementation side then passes an integer array; in `seq` an operand `@` is the receiver itself)
sca seq     <ins>;<ins>;… <bases>                  -> <scale>|v,…    (receiver.add_tax_scale(each))
sca cts     <ins|none> <ins|x>;…|. <bases>         -> <scale>|v,… | none   (combine_tax_scales; `x` = a child
                                                      that is not a scale, `.` = empty node)
sca inverse <ins> <bases>                          -> <scale>|v,… | ERR   (v = calc inv (x - calc s x))
sca mult    <k> <dec|-> <ins> <bases>              -> <scale>|v,…    (multiply_thresholds; v = calc at k*x)
sca mulr    <k> <ins> <bases>                      -> <scale>|v,…
sca sts     <k> <ins> <bases>                      -> <scale>|v,…    (scale_tax_scales; v at k*x)
sca toavg   <ins>                                  -> <avg scale> | ERR   (`inf:r` = the Inf bracket)
sca avgrt   <ins> <bases>                          -> <scale>|v,… | ERR   (to_average().to_marginal())
sca tomarg  <avg ins>                              -> <scale> | ERR
sca copy    <ins> <bases>                          -> <scale>|v,…
sca cb      <ins> <rate> <lo|~> <hi|~> <bases>     -> <scale>|v,…    (combine_bracket called directly; `~` = argument left out)
sca todict  <mr|la|ma|sa> <k> <dec|-> <ins>        -> k:v,…          (to_dict, for the rate scales after multiply_thresholds(k, dec))
sca sacalcx <L|R> <ins> <b,…>                      -> v,… | ERR      (single amount with its guards; a base may be `inf` / `-inf`)
sca meta    <op> <name> <option> <unit> <arg>      -> name|option|unit | ERR | none   (descriptive attributes; `~` = None, `@e` = "")
sca apth    <t,…> <c,…> <x,…>                      -> v,… | ERR      (commons.apply_thresholds)
sca switch  <k:v,…> <c,…>                          -> v,… | ERR      (commons.switch)
sca avgrate <lo:hi|-> <targets> <varyings>         -> r,… | ERR      (commons.average_rate; `nan` where trimmed)
sca margrate <lo:hi|-> <targets> <varyings>        -> r,… | ERR      (commons.marginal_rate)
(`<bases>` may start with `f:`: the implementation side then passes a float32 array)
```
-/
namespace OFCore.Drv
open OFCore.Sca

def showRat (q : Rat) : String :=
  if q.den = 1 then toString q.num else s!"{q.num}/{q.den}"

def parseRat? (s : String) : Option Rat :=
  match s.splitOn "/" with
  | [p] => p.toInt?.map (fun n => (n : Rat))
  | [p, q] => do
    let n ← p.toInt?
    let d ← q.toNat?
    if d = 0 then none else pure ((n : Rat) / (d : Rat))
  | _ => none

def parseList? {α} (f : String → Option α) (sep : String) (s : String) : Option (List α) :=
  if s = "-" then some [] else (s.splitOn sep).mapM f

def parseBracket? (s : String) : Option (Rat × Rat) :=
  match s.splitOn ":" with
  | [t, r] => do pure (← parseRat? t, ← parseRat? r)
  | _ => none

def parseIns? (s : String) : Option (List (Rat × Rat)) := parseList? parseBracket? "," s
def parseScale? (s : String) : Option Scale := (parseIns? s).map build
/-- a leading `i:` only tells the implementation side to pass an integer array -/
def parseBases? (s : String) : Option (List Rat) :=
  parseList? parseRat? "," (if s.startsWith "i:" || s.startsWith "f:" then (s.drop 2).toString else s)
def parseRd? (s : String) : Option (Option Nat) := if s = "-" then some none else s.toNat?.map some

def showList {α} (f : α → String) (l : List α) : String :=
  if l.isEmpty then "-" else ",".intercalate (l.map f)

def showScale (s : Scale) : String := showList (fun b => s!"{showRat b.1}:{showRat b.2}") s
def showVals (l : List Rat) : String := showList showRat l
def showInts (l : List Int) : String := showList toString l

def showAvg (a : AvgScale) : String :=
  let fin := a.fin.map (fun b => s!"{showRat b.1}:{showRat b.2}")
  let all := match a.top with
    | some r => fin ++ [s!"inf:{showRat r}"]
    | none => fin
  if all.isEmpty then "-" else ",".intercalate all

/-- `inf:r` may only come last -/
def parseAvg? (s : String) : Option AvgScale :=
  if s = "-" then some ⟨[], none⟩ else
  let parts := s.splitOn ","
  match parts.getLast? with
  | none => none
  | some l =>
    match l.splitOn ":" with
    | ["inf", r] => do
      let fin ← (parts.dropLast).mapM parseBracket?
      pure ⟨build fin, some (← parseRat? r)⟩
    | _ => do
      let fin ← parts.mapM parseBracket?
      pure ⟨build fin, none⟩

def showEx {α} (f : α → String) : Except String α → String
  | .ok a => f a
  | .error _ => "ERR"

/-- textbook reading used to observe a transformed scale: `calc` with ε = 0, factor 1 -/
def calc0 (s : Scale) (xs : List Rat) : List Rat := calcMRVec 0 1 none s xs

def withCalc (s : Scale) (xs : List Rat) : String := s!"{showScale s}|{showVals (calc0 s xs)}"

/-! ### histories: a sequence of operations on four scale objects `r0 … r3`

`sca hist <step>;<step>;… <bases>`; the fields of a step are separated by `_`:
`new_d_<ins>`, `addb_d_t_r`, `addts_d_s`, `cb_d_rate_lo_hi` (combine_bracket, `~` = argument left out), `multi_d_k` / `mulri_d_k` (in place), `mult_d_s_k` / `mulr_d_s_k` /
`sts_d_s_k` / `inv_d_s` / `avgrt_d_s` / `copy_d_s` (`r_d := op(r_s)`), `calc_s`.  Answer: one token per step
(`<scale of r_d>|<calc of r_d at the bases>`, `ERR` when the operation raises — `r_d` is then unchanged —,
the values for `calc_s`), then `#` and the four scales, all joined by `;`.  The model is pure: every
step is recomputed from the brackets alone, so any hidden state of the implementation (a memo that
survives a mutation, a shared list) shows as a difference. -/

def histStep (xs : List Rat) (regs : List Scale) (step : String) : Option (List Scale × String) :=
  let reg? (t : String) : Option Nat := t.toNat?.filter (· < regs.length)
  let put (d : Nat) (r : Scale) : Option (List Scale × String) := some (regs.set d r, withCalc r xs)
  let putE (d : Nat) (r : Except String Scale) : Option (List Scale × String) :=
    match r with
    | .ok r => put d r
    | .error _ => some (regs, "ERR")
  match step.splitOn "_" with
  | ["new", d, ins] => do put (← reg? d) (← parseScale? ins)
  | ["addb", d, t, r] => do
    let d ← reg? d
    put d (addBracket (regs.getD d []) (← parseRat? t) (← parseRat? r))
  | ["addts", d, s] => do
    let d ← reg? d; let s ← reg? s
    put d (addTaxScale (regs.getD d []) (regs.getD s []))
  | ["multi", d, k] => do
    let d ← reg? d
    put d (multiplyThresholds (regs.getD d []) (← parseRat? k) none)
  | ["mulri", d, k] => do
    let d ← reg? d
    put d (multiplyRates (regs.getD d []) (← parseRat? k))
  | ["mult", d, s, k] => do
    let d ← reg? d; let s ← reg? s
    put d (multiplyThresholds (regs.getD s []) (← parseRat? k) none)
  | ["mulr", d, s, k] => do
    let d ← reg? d; let s ← reg? s
    put d (multiplyRates (regs.getD s []) (← parseRat? k))
  | ["sts", d, s, k] => do
    let d ← reg? d; let s ← reg? s
    put d (scaleTaxScales (regs.getD s []) (← parseRat? k))
  | ["inv", d, s] => do
    let d ← reg? d; let s ← reg? s
    putE d (inverse (regs.getD s []))
  | ["avgrt", d, s] => do
    let d ← reg? d; let s ← reg? s
    putE d (toAverage (regs.getD s []) >>= toMarginal)
  | ["copy", d, s] => do
    let d ← reg? d; let s ← reg? s
    put d (copy (regs.getD s []))
  | ["cb", d, rate, lo, hi] => do
    let d ← reg? d
    let lo ← if lo = "~" then some none else (parseRat? lo).map some
    let hi ← if hi = "~" then some none else (parseRat? hi).map some
    put d (combineBracketD (regs.getD d []) (← parseRat? rate) lo hi)
  | ["calc", s] => do
    let s ← reg? s
    some (regs, showVals (calc0 (regs.getD s []) xs))
  | _ => none

def runHist (xs : List Rat) : List String → List Scale → List String → Option String
  | [], regs, acc => some (";".intercalate (acc.reverse ++ ["#" ++ "&".intercalate (regs.map showScale)]))
  | st :: rest, regs, acc =>
    match histStep xs regs st with
    | some (regs', tok) => runHist xs rest regs' (tok :: acc)
    | none => none


/-! ### descriptive attributes, extended bases, `nan` -/

/-- `~` = `None`, `@e` = the empty string -/
def parseOptStr (s : String) : Option String := if s = "~" then none else if s = "@e" then some "" else some s
def showOptStr : Option String → String
  | none => "~"
  | some t => if t = "" then "@e" else t
def showMeta (m : Meta) : String := s!"{showOptStr (some m.name)}|{showOptStr m.option}|{showOptStr m.unit}"

/-- `sca meta <op> <name> <option> <unit> <arg>`: the scale is built as `cls(name, option, unit)`, then `op` -/
def handleMeta (op name option unit arg : String) : String :=
  let m := metaInit (parseOptStr name) (parseOptStr option) (parseOptStr unit)
  match op with
  | "init" => showMeta m
  | "copy" => showMeta (metaCopy m)
  | "sts" => showEx showMeta (metaScaleTaxScales m)
  | "inv" => showMeta (metaInverse m)
  | "toavg" => showMeta (metaConvert m)
  | "tomarg" => showMeta (metaConvert m)
  | "avgrt" => showMeta (metaConvert (metaConvert m))
  | "mul0" => showEx showMeta (metaMultiply m true (parseOptStr arg))
  | "mul1" => showEx showMeta (metaMultiply m false (parseOptStr arg))
  | "cts" => match metaCombine (parseOptStr arg) none with
    | some r => showMeta r | none => "none"
  | "ctsacc" => match metaCombine (parseOptStr arg) (some m) with
    | some r => showMeta r | none => "none"
  | _ => "BAD"

def parseEBase? (s : String) : Option EBase :=
  if s = "inf" then some .posInf else if s = "-inf" then some .negInf else (parseRat? s).map .fin

def showNan : Option Rat → String
  | some q => showRat q
  | none => "nan"

def parseTrim? (s : String) : Option (Option (Rat × Rat)) :=
  if s = "-" then some none else (parseBracket? s).map some

def parseOptRat? (s : String) : Option (Option Rat) := if s = "~" then some none else (parseRat? s).map some

def handleSca (args : List String) : String :=
  match args with
  | ["meta", op, name, option, unit, arg] => handleMeta op name option unit arg
  | ["cb", ins, rate, lo, hi, bs] =>
    match parseScale? ins, parseRat? rate, parseOptRat? lo, parseOptRat? hi, parseBases? bs with
    | some s, some r, some lo, some hi, some xs => withCalc (combineBracketD s r lo hi) xs
    | _, _, _, _, _ => "BAD"
  | ["todict", kind, k, dec, ins] =>
    match parseRat? k, parseRd? dec, parseScale? ins with
    | some k, some dec, some s =>
      if kind = "mr" || kind = "la" then showScale (toDict (multiplyThresholds s k dec))
      else if kind = "ma" || kind = "sa" then showScale (toDict s)
      else "BAD"
    | _, _, _ => "BAD"
  | ["sacalcx", side, ins, bs] =>
    let right := if side = "R" then some true else if side = "L" then some false else none
    match right, parseScale? ins, parseList? parseEBase? "," bs with
    | some right, some s, some xs => showEx showVals (xs.mapM (calcSAE right s))
    | _, _, _ => "BAD"
  | ["apth", ths, cs, xs] =>
    match parseBases? ths, parseBases? cs, parseBases? xs with
    | some ths, some cs, some xs => showEx showVals (xs.mapM (fun x => applyThresholds x ths cs))
    | _, _, _ => "BAD"
  | ["switch", tbl, cs] =>
    match parseIns? tbl, parseBases? cs with
    | some tbl, some cs => showEx showVals (cs.mapM (fun c => switchSel c tbl))
    | _, _ => "BAD"
  | ["avgrate", trim, ts, vs] =>
    match parseTrim? trim, parseBases? ts, parseBases? vs with
    | some trim, some ts, some vs =>
      if ts.length ≠ vs.length then "BAD"
      else showEx (showList showNan) ((List.zip ts vs).mapM (fun tv => averageRate trim tv.1 tv.2))
    | _, _, _ => "BAD"
  | ["margrate", trim, ts, vs] =>
    match parseTrim? trim, parseBases? ts, parseBases? vs with
    | some trim, some ts, some vs => showEx (showList showNan) (marginalRateFD trim ts vs)
    | _, _, _ => "BAD"
  | ["build", ins] => match parseScale? ins with
    | some s => showScale s | none => "BAD"
  | [op, e, f, rd, ins, bs] =>
    -- `<eps> <factor>` are single values, or (ops ending in `v`) arrays: one per base
    match parseBases? e, parseBases? f, parseRd? rd, parseScale? ins, parseBases? bs with
    | some es, some fs, some rd, some s, some xs =>
      if es.length ≠ fs.length then "BAD" else
      match op, es, fs with
      | "mrcalc", [e], [f] => showVals (calcMRVec e f rd s xs)
      | "mridx", [e], [f] => showEx showInts (bracketIndices e f rd s xs)
      | "mrrate", [e], [f] => showEx showVals (marginalRates e f rd s xs)
      | "mrcalcv", _, _ => showEx showVals (calcMRVecF (List.zip es fs) rd s xs)
      | "mridxv", _, _ => showEx showInts (bracketIndicesF (List.zip es fs) rd s xs)
      | "mrratev", _, _ => showEx showVals (marginalRatesF (List.zip es fs) rd s xs)
      | _, _, _ => "BAD"
    | _, _, _, _, _ => "BAD"
  | [op, a, b, c, d] =>
    match op with
    | "mult" => match parseRat? a, parseRd? b, parseScale? c, parseBases? d with
      | some k, some dec, some s, some xs =>
        withCalc (multiplyThresholds s k dec) (xs.map (k * ·))
      | _, _, _, _ => "BAD"
    | _ => "BAD"
  | [op, a, b, c] =>
    match op with
    | "thr" => match parseRat? a, parseScale? b, parseBases? c with
      | some e, some s, some xs => showEx showVals (thresholdFromTaxBase e s xs)
      | _, _, _ => "BAD"
    | "ratefb" => match parseRat? a, parseScale? b, parseBases? c with
      | some e, some s, some xs => showEx showVals (rateFromTaxBase e s xs)
      | _, _, _ => "BAD"
    | "copyk" => match parseScale? b, parseBases? c with
      | some s, some xs =>
        let vals : Option (Except String (List Rat)) := match a with
          | "ma" => some (.ok (xs.map (calcMA (copy s))))
          | "sa" => some (.ok (xs.map (calcSA false (copy s))))
          | "la" => some (xs.mapM (calcLA (copy s)))
          | _ => none
        match vals with
        | some (.ok v) => s!"{showScale (copy s)}|{showVals v}"
        | some (.error _) => "ERR"
        | none => "BAD"
      | _, _ => "BAD"
    | "sacalc" =>
      let right := if a = "R" then some true else if a = "L" then some false else none
      match right, parseScale? b, parseBases? c with
      | some right, some s, some xs => showVals (xs.map (calcSA right s))
      | _, _, _ => "BAD"
    | "mulr" => match parseRat? a, parseScale? b, parseBases? c with
      | some k, some s, some xs => withCalc (multiplyRates s k) xs
      | _, _, _ => "BAD"
    | "sts" => match parseRat? a, parseScale? b, parseBases? c with
      | some k, some s, some xs => withCalc (scaleTaxScales s k) (xs.map (k * ·))
      | _, _, _ => "BAD"
    | "cts" =>
      let init := if a = "none" then some none else (parseScale? a).map some
      let child (t : String) : Option (Option Scale) :=
        if t = "x" then some none else (parseScale? t).map some
      let children := if b = "." then some [] else (b.splitOn ";").mapM child
      match init, children, parseBases? c with
      | some init, some children, some xs =>
        match combineTaxScales children init with
        | some s => withCalc s xs
        | none => "none"
      | _, _, _ => "BAD"
    | _ => "BAD"
  | [op, a, b] =>
    match op with
    | "hist" => match parseBases? b with
      | some xs => (runHist xs (a.splitOn ";") [[], [], [], []] []).getD "BAD"
      | none => "BAD"
    | "macalc" | "macalcR" => match parseScale? a, parseBases? b with
      | some s, some xs => showVals (xs.map (calcMA s))
      | _, _ => "BAD"
    | "lacalc" | "lacalcR" => match parseScale? a, parseBases? b with
      | some s, some xs => showEx showVals (xs.mapM (calcLA s))
      | _, _ => "BAD"
    | "ratefi" => match parseScale? a, parseList? String.toInt? "," b with
      | some s, some idx => showEx showVals (rateFromBracketIndice s idx)
      | _, _ => "BAD"
    | "seq" =>
      -- `@` as an operand is the receiver itself (`a.add_tax_scale(a)`)
      let operand (t : String) : Option (Option Scale) := if t = "@" then some none else (parseScale? t).map some
      match a.splitOn ";" with
      | r :: others => match parseScale? r, others.mapM operand, parseBases? b with
        | some r, some others, some xs =>
          withCalc (others.foldl (fun acc o => addTaxScale acc (o.getD acc)) r) xs
        | _, _, _ => "BAD"
      | [] => "BAD"
    | "inverse" => match parseScale? a, parseBases? b with
      | some s, some xs =>
        match inverse s with
        | .ok inv =>
          let nets := List.zipWith (· - ·) xs (calc0 s xs)
          s!"{showScale inv}|{showVals (calc0 inv nets)}"
        | .error _ => "ERR"
      | _, _ => "BAD"
    | "avgrt" => match parseScale? a, parseBases? b with
      | some s, some xs => showEx (fun m => withCalc m xs) (toAverage s >>= toMarginal)
      | _, _ => "BAD"
    | "copy" => match parseScale? a, parseBases? b with
      | some s, some xs => withCalc (copy s) xs
      | _, _ => "BAD"
    | _ => "BAD"
  | [op, a] =>
    match op with
    | "toavg" => match parseScale? a with
      | some s => showEx showAvg (toAverage s) | none => "BAD"
    | "tomarg" => match parseAvg? a with
      | some av => showEx showScale (toMarginal av) | none => "BAD"
    | _ => "BAD"
  | _ => "BAD"

end OFCore.Drv
