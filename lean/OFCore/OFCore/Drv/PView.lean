/-! Line protocol handler for the `pview` domain (stub until the model exists). -/
namespace OFCore.Drv
def handlePView (_args : List String) : String := "BAD"
end OFCore.Drv
