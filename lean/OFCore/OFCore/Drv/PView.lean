import OFCore.ParamView
import OFCore.Drv.Par
/-! Line protocol for the `pview` domain (every way of reading parameters, property C07). Mathlib-free.

```
pview h <init> <ops> <ntrees> <tree>…      one process: system 0 and the reforms created by the history
    -> <answer>|<answer>|…                 one answer per operation
init  = - | <k>                            system 0 starts without parameters | with tree k
ops   = <op>;<op>;…                        fields of an op are separated by ':'
  ra:<s>:<form>:<d>:<path>                 the four routes at once: view, parameter object, formula, traced formula
                                           -> <view>&<tree>&<formula>&<traced>^<log>
  rv:<s>:<form>:<d>:<path>                 system.get_parameters_at_instant(<d as form>).<path>      -> <res>
  rb:<s>:<form>:<d>:<path>                 system._get_baseline_parameters_at_instant(<d as form>).<path> -> <res>
  ex:<s>:<k>                               system.load_extension(package whose parameters/ holds the children of tree k),
                                           merged IN PLACE into the tree object (shared with un-modified reforms) -> ok | ERR
  rt:<s>:<d>:<path>                        system.parameters.<path>(d)                                -> <res>
  rf:<s>:<0|1>:<form>:<d>:<path>           in a formula (traced or not): parameters(<d as form>).<path> -> <res>^<log>
  nr:<b>:<k>                               SomeReform(system b); the next k operations run inside apply() -> new<id>
  cl:<s>                                   system.clone(): a new system on a copy of the tree      -> new<id> | ERR
  md:<s>:<item>+<item>…                    reform.modify_parameters(modifier)                        -> ok[~<nested answer>…] | ERR
       item = <edit> | v,<sys>,<form>,<d>,<path>   the modifier reads system <sys>'s view while it runs  (answer as rv)
                     | a,<sys>,<form>,<d>,<path>   … through the four routes                              (answer as ra)
       edit = u,<path>,<a>,<b|->,<v|null>    parameters.<path>.update(start=a, stop=b, value=v)
            | c,<path>,<name>,<k>             parameters.<path>.add_child(name, tree k)
            | r,<k>                           the modifier returns tree k instead
            | x                               the modifier returns something that is not a ParameterNode
  ld:<s>:<k>[:<item>+…]                    system.load_parameters(directory holding tree k); the items (reads, edits of the
                                           tree it is handed, `r,<k>` = it returns tree k instead; not `x`) are what the
                                           system's preprocess_parameters hook does               -> ok[~<nested answer>…] | ERR
  fx:<s>:<route>:<form>:<d>:<path>:<kind>:<keys>:<steps>    <node at d>[key vector]<steps>            -> <rows>[^<log>]
       route = v | t | f | g               view | parameter object | formula | traced formula
       kind  = n (names a,b,…) | i (integers) | m (Enum members) | c (EnumArray); for m and c
               keys = <name~name~…>@<index,index,…>; an empty vector is '-'
       steps = - | <step>/<step>…  step = f=<name> (attribute / string item) | k=<name,name,…> (string vector)
                                          | d=<ord,ord,…> (datetime64 vector: chained as-of-date indexing)
  ao:<s>:<route>:<form>:<d>:<path>:<dates>:<steps>         <node at d>[datetime64 vector]<steps>      -> <rows>[^<log>]
path  = - | a.b.c        res = none | <token> | <scale> | {<name>=<res>,…} (children sorted by name) | ERR
rows  = [<row>,…] | ERR  row = <p/q> | {<name>=<row>,…}
log   = <name>@<d>=<value>,…   (what the tracer recorded, in order)
tree  = as in `par t` (Drv/Par.lean); the top of every tree is a node
```
-/
namespace OFCore.Drv
open OFCore.Param OFCore.PView

/-- conversion to the `"float"` dtype, as a canonical rational token -/
def pvNum (v : String) : Option String :=
  if v = "T" then some "1" else if v = "F" then some "0" else (parseRat? v).map showRat

def pvPath (s : String) : List String := if s = "-" then [] else s.splitOn "."

def pvList (s : String) : List String := if s = "-" then [] else s.splitOn ","

partial def pvShowSnap : Snap String → String
  | .val v => v
  | .scale s => showScale s
  | .node cs => "{" ++ ",".intercalate ((sortFields plainLt cs).map fun (k, s) => s!"{k}={pvShowSnap s}") ++ "}"

def pvShowRes : Except String (Option (Snap String)) → String
  | .ok (some s) => pvShowSnap s
  | .ok none => "none"
  | .error _ => "ERR"

partial def pvShowRow : VRow String → String
  | .leaf w => w
  | .record fs => "{" ++ ",".intercalate ((sortFields plainLt fs).map fun (k, r) => s!"{k}={pvShowRow r}") ++ "}"

def pvShowRows : Except String (List (VRow String)) → String
  | .ok rows => "[" ++ ",".intercalate (rows.map pvShowRow) ++ "]"
  | .error _ => "ERR"

def pvShowLog (log : List (LogEntry String)) : String :=
  ",".intercalate (log.map fun e => s!"{e.name}@{e.date}={e.value}")

def pvShowVLog (log : List (LogEntry (List (VRow String)))) : String :=
  ",".intercalate (log.map fun e => s!"{e.name}@{e.date}={pvShowRows (.ok e.value)}")

/-! ### modifiers -/

def replaceFirst (cs : List (String × PNode String)) (k : String) (c : PNode String) : List (String × PNode String) :=
  match cs with
  | [] => []
  | (k', x) :: r => if k' = k then (k', c) :: r else (k', x) :: replaceFirst r k c

/-- `scale.brackets[i].<field>.update(…)`: the field must exist (a missing key is not a child of the bracket) -/
def updateBracketAt (m : Bool) (bs : List Bracket) (i field : String) (a : Int) (b : Option Int) (v : Option String) :
    Except String (PNode String) :=
  match i.toNat?, (match v with | none => some none | some t => (parseRat? t).map some) with
  | some i, some v' =>
    match bs[i]? with
    | none => .error "IndexError"
    | some br =>
      let upd := fun (l : List (Entry Rat)) => update l a b v'
      if field = "threshold" then
        if br.threshold.isEmpty then .error "KeyError" else .ok (.scale m (bs.set i { br with threshold := upd br.threshold }))
      else if field = "rate" then
        if br.rate.isEmpty then .error "KeyError" else .ok (.scale m (bs.set i { br with rate := upd br.rate }))
      else if field = "amount" then
        if br.amount.isEmpty then .error "KeyError" else .ok (.scale m (bs.set i { br with amount := upd br.amount }))
      else if field = "average_rate" then
        if br.averageRate.isEmpty then .error "KeyError" else .ok (.scale m (bs.set i { br with averageRate := upd br.averageRate }))
      else .error "KeyError"
  | _, _ => .error "KeyError"

/-- `parameters.<path>.update(…)` on the (copied) tree; below a scale the path goes on with `<i>.<field>`
    (`scale.brackets[i].<field>`) -/
def updateAt (t : PNode String) (path : List String) (a : Int) (b : Option Int) (v : Option String) :
    Except String (PNode String) :=
  match path with
  | [] =>
    match t with
    | .param l => .ok (.param (update l a b v))
    | .scale _ _ => .error "AttributeError"
    | .node _ => .error "AttributeError"
  | k :: p =>
    match t with
    | .node cs =>
      match assoc k cs with
      | none => .error "AttributeError"
      | some c =>
        match updateAt c p a b v with
        | .ok c' => .ok (.node (replaceFirst cs k c'))
        | .error e => .error e
    | .param _ => .error "AttributeError"
    | .scale m bs =>
      match p with
      | [field] => updateBracketAt m bs k field a b v
      | _ => .error "AttributeError"

/-- `parameters.<path>.add_child(name, child)` on the (copied) tree -/
def addChildAt (t : PNode String) (path : List String) (name : String) (c : PNode String) :
    Except String (PNode String) :=
  match path with
  | [] =>
    match t with
    | .node cs => if (assoc name cs).isSome then .error "ValueError" else .ok (.node (cs ++ [(name, c)]))
    | .param _ => .error "AttributeError"
    | .scale _ _ => .error "AttributeError"
  | k :: p =>
    match t with
    | .node cs =>
      match assoc k cs with
      | none => .error "AttributeError"
      | some x =>
        match addChildAt x p name c with
        | .ok x' => .ok (.node (replaceFirst cs k x'))
        | .error e => .error e
    | .param _ => .error "AttributeError"
    | .scale _ _ => .error "AttributeError"

inductive Edit where
  | upd (path : List String) (a : Int) (b : Option Int) (v : Option String)
  | ret (k : Nat)
  | add (path : List String) (name : String) (k : Nat)
  | bad

def parseEdit? (s : String) : Option Edit :=
  match s.splitOn "," with
  | ["u", p, a, b, v] => do
    let a ← a.toInt?
    let b ← (if b = "-" then some none else b.toInt?.map some)
    let v ← (if v = "null" then some none else if v = "" then none else some (some v))
    if p = "-" then none else pure (.upd (pvPath p) a b v)
  | ["r", k] => k.toNat?.map .ret
  | ["c", p, name, k] => if name = "" then none else k.toNat?.map (.add (pvPath p) name)
  | ["x"] => some .bad
  | _ => none

def applyEdit (trees : List (PNode String)) (t : PNode String) : Edit → Except String (PNode String)
  | .upd p a b v => updateAt t p a b v
  | .ret k => match trees[k]? with | some t' => .ok t' | none => .error "no such tree"
  | .add p name k => match trees[k]? with | some c => addChildAt t p name c | none => .error "no such tree"
  | .bad => .ok (.param [])

/-- the edits in order; after an `x` the modifier ignores the remaining edits and returns a non-node -/
def modifierOf (trees : List (PNode String)) (es : List Edit) (t : PNode String) : Except String (PNode String) :=
  match es with
  | [] => .ok t
  | .bad :: _ => .ok (.param [])
  | e :: r =>
    match applyEdit trees t e with
    | .ok t' => modifierOf trees r t'
    | .error m => .error m

/-- an item of a modifier body / of a `preprocess_parameters` hook: an edit of the copy, or a read of
    some system made while the modification is under way -/
inductive Item where
  | edit (e : Edit)
  | rd (all : Bool) (s form : Nat) (d : Int) (path : List String)

def itemReads : Item → List Read
  | .edit _ => []
  | .rd false s form d path => [.view s form d path]
  | .rd true s form d path =>
    [.view s form d path, .tree s path d, .formula s false 2 d path, .formula s true 2 d path]

def itemEdits : List Item → List Edit
  | [] => []
  | .edit e :: r => e :: itemEdits r
  | .rd .. :: r => itemEdits r

/-- the user function as a `ModProg`: its reads, in order, then its result -/
def progOf (reads : List Read) (res : Except String (PNode String)) : ModProg String :=
  match reads with
  | [] => .ret res
  | rd :: r => .read rd (fun _ => progOf r res)

/-! ### operations -/

def pvObs : Obs String → String
  | .value r log => pvShowRes r ++ (if log.isEmpty then "" else "^" ++ pvShowLog log)
  | .created id => s!"new{id}"
  | .done => "ok"
  | .failed _ => "ERR"

def pvObsLog : Obs String → String
  | .value r log => pvShowRes r ++ "^" ++ pvShowLog log
  | o => pvObs o

def parseItem? (nsys : Nat) (s : String) : Option Item :=
  match s.splitOn "," with
  | [k, sy, form, d, path] =>
    if k = "v" ∨ k = "a" then do
      let sy ← sy.toNat?; let form ← form.toNat?; let d ← d.toInt?
      if sy < nsys then pure (.rd (k = "a") sy form d (pvPath path)) else none
    else (parseEdit? s).map .edit
  | _ => (parseEdit? s).map .edit

/-- what the nested reads of one item print (the same reads `runProg` performs, in the same order) -/
def itemOut (w : World String) : Item → World String × List String
  | .edit _ => (w, [])
  | .rd false s form d path =>
    let (w1, o) := doRead w (.view s form d path)
    (w1, [pvObs o])
  | .rd true s form d path =>
    let (w1, o1) := doRead w (.view s form d path)
    let (w2, o2) := doRead w1 (.tree s path d)
    let (w3, o3) := doRead w2 (.formula s false 2 d path)
    let (w4, o4) := doRead w3 (.formula s true 2 d path)
    (w4, [pvObs o1 ++ "&" ++ pvObs o2 ++ "&" ++ pvObs o3 ++ "&" ++ pvObsLog o4])

def itemsOut (w : World String) : List Item → List String
  | [] => []
  | it :: r => let (w', out) := itemOut w it; out ++ itemsOut w' r

def withNested (o : Obs String) (nested : List String) : String :=
  match o with
  | .failed _ => "ERR"
  | o => "~".intercalate (pvObs o :: nested)

def parseSteps? (s : String) : Option (List VStep) :=
  if s = "-" then some [] else
  allSome ((s.splitOn "/").map fun f =>
    match f.splitOn "=" with
    | ["f", k] => if k = "" then none else some (VStep.field k)
    | ["k", ks] => some (VStep.index (pvList ks))
    | ["d", ds] => (allSome ((pvList ds).map String.toInt?)).map VStep.dates
    | _ => none)

def parseKeys? (kind keys : String) : Option KeyVec :=
  match kind with
  | "n" => some (.names (pvList keys))
  | "i" => (allSome ((pvList keys).map String.toInt?)).map .ints
  | "m" | "c" =>
    match keys.splitOn "@" with
    | [ns, is] => do
      let is ← allSome ((pvList is).map String.toNat?)
      let ns := if ns = "" then [] else ns.splitOn "~"
      pure (if kind = "m" then .members ns is else .codes ns is)
    | _ => none
  | _ => none

def dottedName (path : List String) : String := path.foldl composeName ""

/-- the node at `d` reached through one of the four routes (and the state after the view was read) -/
def nodeVia (w : World String) (route : String) (s form : Nat) (d : Int) (path : List String) :
    Option (World String × Except String (Option (Snap String))) :=
  match route with
  | "t" =>
    match w.systems[s]? with
    | none => none
    | some _ =>
      match w.treeOf s with
      | none => some (w, .error "TypeError: None")
      | some t => some (w, readTreeAt t path d)
  | "v" | "f" | "g" =>
    match viewAt w s form d with
    | none => none
    | some (w', root) => some (w', navView root path)
  | _ => none

/-- a vector read: `index` builds the rows from the node at `d`, then the steps follow -/
def vecRead (cls : Bool) (w : World String) (route : String) (s form : Nat) (d : Int) (path : List String)
    (index : Snap String → Except String (List (VRow String))) (steps : List VStep) :
    Option (World String × String) :=
  match nodeVia w route s form d path with
  | none => none
  | some (w', .error _) => some (w', "ERR")
  | some (w', .ok none) => some (w', "ERR")                 -- `None[keys]`
  | some (w', .ok (some node)) =>
    match index node with
    | .error _ => some (w', "ERR")
    | .ok rows =>
      if route = "g" then
        let (r, log) := tracedVec cls d (dottedName path) rows steps []
        match r with
        | .error _ => some (w', "ERR")
        | .ok _ => some (w', pvShowRows r ++ "^" ++ pvShowVLog log)
      else some (w', pvShowRows (vsteps cls rows steps))

def sysIdx? (w : World String) (s : String) : Option Nat :=
  s.toNat?.bind fun k => if k < w.systems.length then some k else none

structure PvCtx where
  trees : List (PNode String)

def pvOp (ctx : PvCtx) (w : World String) (op : String) : Option (World String × String) :=
  match op.splitOn ":" with
  | ["ra", s, form, d, path] => do
    let s ← sysIdx? w s; let form ← form.toNat?; let d ← d.toInt?
    let p := pvPath path
    let (w1, o1) := step w (.readView s form d p)
    let (w2, o2) := step w1 (.readTree s p d)
    let (w3, o3) := step w2 (.readFormula s false 2 d p)
    let (w4, o4) := step w3 (.readFormula s true 2 d p)
    pure (w4, pvObs o1 ++ "&" ++ pvObs o2 ++ "&" ++ pvObs o3 ++ "&" ++ pvObsLog o4)
  | ["rv", s, form, d, path] => do
    let s ← sysIdx? w s; let form ← form.toNat?; let d ← d.toInt?
    let (w', o) := step w (.readView s form d (pvPath path))
    pure (w', pvObs o)
  | ["rb", s, form, d, path] => do
    let s ← sysIdx? w s; let form ← form.toNat?; let d ← d.toInt?
    let (w', o) := step w (.read (.baseView s form d (pvPath path)))
    pure (w', pvObs o)
  | ["ex", s, k] => do
    let s ← sysIdx? w s; let k ← k.toNat?
    match ctx.trees[k]? with
    | some (.node cs) =>
      let (w', o) := step w (.extend s cs)
      pure (w', pvObs o)
    | _ => none
  | ["rt", s, d, path] => do
    let s ← sysIdx? w s; let d ← d.toInt?
    let (w', o) := step w (.readTree s (pvPath path) d)
    pure (w', pvObs o)
  | ["rf", s, tr, form, d, path] => do
    let s ← sysIdx? w s; let form ← form.toNat?; let d ← d.toInt?
    let tr ← (if tr = "1" then some true else if tr = "0" then some false else none)
    let (w', o) := step w (.readFormula s tr form d (pvPath path))
    pure (w', pvObsLog o)
  | ["cl", s] => do
    let s ← sysIdx? w s
    let (w', o) := step w (.cloneSys s)
    pure (w', pvObs o)
  | ["nr", b, k] => do
    let b ← sysIdx? w b; let _ ← k.toNat?
    let (w', o) := step w (.newReform b)
    pure (w', pvObs o)
  | ["md", s, items] => do
    let s ← sysIdx? w s
    let its ← allSome ((items.splitOn "+").map (parseItem? w.systems.length))
    let reads := its.flatMap itemReads
    let (w', o) := step w (.modify s (fun t => progOf reads (modifierOf ctx.trees (itemEdits its) t)))
    pure (w', withNested o (itemsOut w its))
  | ["ld", s, k] => do
    let s ← sysIdx? w s; let k ← k.toNat?
    match ctx.trees[k]? with
    | some (.node cs) =>
      let (w', o) := step w (.reload s cs noHook)
      pure (w', pvObs o)
    | _ => none
  | ["ld", s, k, items] => do
    let s ← sysIdx? w s; let k ← k.toNat?
    let its ← allSome ((items.splitOn "+").map (parseItem? w.systems.length))
    -- the hook may edit the tree it is handed, or return another one; it must return a tree (`x` is for modifiers)
    if (itemEdits its).any (fun e => match e with | .bad => true | _ => false) then none else
    match ctx.trees[k]? with
    | some (.node cs) =>
      let reads := its.flatMap itemReads
      let (w', o) := step w (.reload s cs (fun t => progOf reads (modifierOf ctx.trees (itemEdits its) t)))
      pure (w', withNested o (itemsOut w its))
    | _ => none
  | ["fx", s, route, form, d, path, kind, keys, steps] => do
    let s ← sysIdx? w s; let form ← form.toNat?; let d ← d.toInt?
    let kv ← parseKeys? kind keys
    let steps ← parseSteps? steps
    vecRead false w route s form d (pvPath path) (fun node => fancy pvNum node kv.strs) steps
  | ["ao", s, route, form, d, path, dates, steps] => do
    let s ← sysIdx? w s; let form ← form.toNat?; let d ← d.toInt?
    let dates ← allSome ((pvList dates).map String.toInt?)
    let steps ← parseSteps? steps
    vecRead true w route s form d (pvPath path) (fun node => asof pvNum node dates) steps
  | _ => none

def pvRun (ctx : PvCtx) : World String → List String → Option (List String)
  | _, [] => some []
  | w, op :: ops =>
    match pvOp ctx w op with
    | none => none
    | some (w', out) => (pvRun ctx w' ops).map (out :: ·)

partial def parseTrees? : Nat → List String → Option (List (PNode String))
  | 0, [] => some []
  | 0, _ :: _ => none
  | n + 1, toks => do
    let (t, rest) ← parseTree? toks
    match t with
    | .node _ =>
      let ts ← parseTrees? n rest
      pure (t :: ts)
    | _ => none

def handlePView (args : List String) : String :=
  match args with
  | "h" :: init :: ops :: n :: toks =>
    match n.toNat?.bind (fun n => parseTrees? n toks) with
    | none => "BAD"
    | some trees =>
      let t0? : Option (Option (PNode String)) :=
        if init = "-" then some none else (init.toNat?.bind (fun k => trees[k]?)).map some
      match t0? with
      | none => "BAD"
      | some t0 =>
        let w : World String := match t0 with
          | some t => ⟨[t], [⟨some 0, none⟩], []⟩
          | none => ⟨[], [⟨none, none⟩], []⟩
        if ops = "" then "BAD" else
        match pvRun ⟨trees⟩ w (ops.splitOn ";") with
        | some outs => "|".intercalate outs
        | none => "BAD"
  | _ => "BAD"

end OFCore.Drv
