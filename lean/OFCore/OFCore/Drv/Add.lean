import OFCore.AddDivide
import OFCore.Drv.Per
/-!
Line protocol handler for the `add` domain (plain / ADD / DIVIDE requests, C03).

```
add <kind> <cfg> <defUnit> <period|none> <mode>      -> <int> | <p/q> | ERR
   kind   i  formula returning `ord(start) mod 9973`  (int variable)
          f  formula returning `ord(start) mod 1009`  (float variable)
          c  no formula, default value 7
          z  neutralised variable (value 0)
          (an eternal variable's value never depends on the period: 7, or 0 when neutralised)
   cfg    s  values are stored (default configuration)    n  `variables_to_drop` (not stored)
   period unit/Y,M,D/size, or `none` for a period argument that is not int / str / Period
   mode   plain | add | div                 Simulation.calculate / calculate_add / calculate_divide
          pop:<opts> | frm:<opts>           population(variable, period, options) called directly /
                                            from inside a formula (same model)
   opts   -  (options=None) | e (empty list) | tokens joined by `+`:
          A, sA = ADD   D, sD = DIVIDE   anything else = some other option
```
One self-contained case per line. Rationals in lowest terms, `p` when the denominator is 1.
-/
namespace OFCore.Drv

def showRat' (x : Rat) : String := if x.den = 1 then toString x.num else s!"{x.num}/{x.den}"

/-- the value function the harness's variables implement -/
def valOf (kind : String) (defUnit : DUnit) (p : Period) : Int :=
  if kind = "z" then 0
  else if defUnit = .eternity ∨ kind = "c" then 7
  else if kind = "f" then ord p.start % 1009
  else ord p.start % 9973

def parseOpts? (s : String) : Option (Option (List Opt)) :=
  if s = "-" then some none
  else if s = "e" then some (some [])
  else
    let toks := s.splitOn "+"
    if toks.any (· = "") then none
    else some (some (toks.map fun t =>
      if t = "A" ∨ t = "sA" then Opt.add else if t = "D" ∨ t = "sD" then Opt.divide else Opt.other))

def handleAdd (args : List String) : String :=
  match args with
  | [kind, cfg, du, ps, mode] =>
    if !(["i", "f", "c", "z"].contains kind) ∨ !(["s", "n"].contains cfg) then "BAD" else
    match DUnit.ofName du with
    | none => "BAD"
    | some u =>
      let parg : Option (Option Period) := if ps = "none" then some none else (parsePeriod? ps).map some
      match parg with
      | none => "BAD"
      | some parg =>
        let val := valOf kind u
        let store := cfg = "s"
        match mode.splitOn ":" with
        | ["plain"] => match parg with
          | some p => showE toString (calcPlain val store u p) | none => "BAD"
        | ["add"] => match parg with
          | some p => showE toString (calcAdd val store u p) | none => "BAD"
        | ["div"] => match parg with
          | some p => showE showRat' (calcDivide val store u p) | none => "BAD"
        | [m, os] =>
          if m ≠ "pop" ∧ m ≠ "frm" then "BAD" else
          match parseOpts? os with
          | none => "BAD"
          | some opts => showE showRat' (callWithOptions val store u parg opts)
        | _ => "BAD"
  | _ => "BAD"

end OFCore.Drv
