import OFCore.AddDivide
import OFCore.Drv.Per
/-!
Line protocol handler for the `add` domain (plain / ADD / DIVIDE requests, C03).

```
add <kind> <cfg> <defUnit> <parg> <mode>      -> <int> | <p/q> | ok | ERR
   kind   i  formula returning `ord(start) mod 9973`  (int variable)
          f  formula returning `ord(start) mod 1009`  (float variable)
          g  as i, on a group entity
          b  bool variable: 1 when `ord(start) mod 3 = 0`, else 0 (its ADD is the number of pieces in which it holds)
          c  no formula, default value 7
          z  neutralised variable (value 0)
          (an eternal variable's value never depends on the period: 7, 1 for the bool variable, or 0 when neutralised)
   cfg    s  values are stored (default configuration)    n  `variables_to_drop` (not stored)
          t  trace=True (the model ignores it)
          p  primed: one definition-period-long piece was calculated beforehand (the model ignores it:
             a cached piece has the value the formula gives)
   parg   unit/Y,M,D/size          a Period object
          S:unit/Y,M,D/size        the text `str(period)`, parsed back by `periods.period`
          I:year/Y,1,1/1           the int Y
          none                     an argument that is not int / str / Period
   mode   plain | add | div                 Simulation.calculate / calculate_add / calculate_divide
          out:- | out:A | out:D             Simulation.calculate_output, the variable declaring no
                                            calculate_output / calculate_output_add / _divide
          chk                               population.check_period_validity
          pop:<opts> | frm:<opts>           population(variable, period, options) called directly /
          popt:<opts> | frmt:<opts>         from inside a formula; `t`: options in a tuple (same model)
   opts   -  (options=None) | e (empty sequence) | tokens joined by `+`:
          A, sA = ADD   D, sD = DIVIDE   anything else = some other option
```
One self-contained case per line. Rationals in lowest terms, `p` when the denominator is 1.
-/
namespace OFCore.Drv

def showRat' (x : Rat) : String := if x.den = 1 then toString x.num else s!"{x.num}/{x.den}"

/-- the value function the harness's variables implement -/
def valOf (kind : String) (defUnit : DUnit) (p : Period) : Int :=
  if kind = "z" then 0
  else if kind = "b" then (if defUnit = .eternity then 1 else if ord p.start % 3 = 0 then 1 else 0)
  else if defUnit = .eternity ∨ kind = "c" then 7
  else if kind = "f" then ord p.start % 1009
  else ord p.start % 9973

def parseOpts? (s : String) : Option (Option (List Opt)) :=
  if s = "-" then some none
  else if s = "e" then some (some [])
  else
    let toks := s.splitOn "+"
    if toks.any (· = "") then none
    else some (some (toks.map fun t =>
      if t = "A" ∨ t = "sA" then Opt.add else if t = "D" ∨ t = "sD" then Opt.divide else Opt.other))

def parseArg? (s : String) : Option PArg :=
  if s = "none" then some .invalid
  else if s.startsWith "S:" then (parsePeriod? (s.drop 2).toString).map fun p => PArg.text p.text
  else if s.startsWith "I:" then
    match parsePeriod? (s.drop 2).toString with
    | some p => if p.unit = .year ∧ p.start.m = 1 ∧ p.start.d = 1 ∧ p.size = 1 ∧ 0 ≤ p.start.y
        then some (PArg.text (intText p.start.y)) else none
    | none => none
  else (parsePeriod? s).map PArg.period

def handleAdd (args : List String) : String :=
  match args with
  | [kind, cfg, du, ps, mode] =>
    if !(["i", "f", "g", "c", "z", "b"].contains kind) ∨ !(["s", "n", "t", "p"].contains cfg) then "BAD" else
    match DUnit.ofName du, parseArg? ps with
    | some u, some parg =>
      let val := valOf kind u
      let store := cfg ≠ "n"
      match mode.splitOn ":" with
      | ["plain"] => if ps = "none" then "BAD" else showE toString (calcPlainArg val store u parg)
      | ["add"] => if ps = "none" then "BAD" else showE toString (calcAddArg val store u parg)
      | ["div"] => if ps = "none" then "BAD" else showE showRat' (calcDivideArg val store u parg)
      | ["chk"] => showE (fun _ => "ok") (checkPeriodValidity parg)
      | ["out", co] =>
        if ps = "none" then "BAD" else
        match co with
        | "-" => showE showRat' (calcOutput val store u none parg)
        | "A" => showE showRat' (calcOutput val store u (some .add) parg)
        | "D" => showE showRat' (calcOutput val store u (some .divide) parg)
        | _ => "BAD"
      | [m, os] =>
        if !(["pop", "frm", "popt", "frmt"].contains m) then "BAD" else
        match parseOpts? os with
        | none => "BAD"
        | some opts => showE showRat' (callWithArg val store u parg opts)
      | _ => "BAD"
    | _, _ => "BAD"
  | _ => "BAD"

end OFCore.Drv
