/-! Line protocol handler for the `add` domain (stub until the model exists). -/
namespace OFCore.Drv
def handleAdd (_args : List String) : String := "BAD"
end OFCore.Drv
