import OFCore.Group
/-!
Line protocol handler for the `grp` domain (C10, C11). One self-contained case per line:

    grp <roles> <count> <members> <op> <role> <args…>

* `<roles>`   role table: top-level roles separated by `,`, each `<max|->:<nsubs>`
* `<count>`   number of groups
* `<members>` `g.r` per person joined by `,` (group index . flattened role index), `-` if none
* `<role>`    `-` | `?` (not a Role object) | `t<k>` (top-level role k) | `f<k>` (flattened role k)
* values      `i:1,-2,3` integers, `b:TFT` booleans
* ops         sum any all min max nb nth first from project positions omap hasrole rank partner
              pnth <positions> <k> <default> <vals> / pfirst <positions> <vals>   (assigned members_position)
              chain <p|g> <shortcuts> <op> <args…>
              chain2 <roles2> <count2> <members2> <c0|c1|c2|c3> <p|g|G> <shortcuts> <op> <args…>
                (second group entity; c1: entity 0 declares entity 1 in containing_entities, c2: the
                 converse, c3: both; shortcuts h k fp mb (`members`) x t<k> f<k> T<k> F<k>; final ops also
                 `project <vals>` — not projectable — and `call <vals>` — a variable holding <vals>)

Answers: comma-joined values (`T`/`F`, integers, `inf`, `-inf`), `[]` for an empty array, `ERR`
for any error of the model, `BAD` for a malformed line.
-/
namespace OFCore.Drv
open OFCore.Grp

structure RoleTable where
  top : List Role
  flat : List Role

def parseRoleTable (s : String) : Option RoleTable :=
  let rec go (parts : List String) (k : Nat) (nflat : Nat) (top flat : List Role) : Option RoleTable :=
    match parts with
    | [] => some ⟨top.reverse, flat.reverse⟩
    | part :: rest =>
      match part.splitOn ":" with
      | [mx, ns] =>
        match (if mx = "-" then some none else mx.toNat?.map some), ns.toNat? with
        | some mx, some ns =>
          if ns = 0 then
            let r : Role := ⟨nflat, [], mx⟩
            go rest (k + 1) (nflat + 1) (r :: top) (r :: flat)
          else
            let ids := (List.range ns).map (· + nflat)
            let subs := ids.map (fun i => (⟨i, [], some 1⟩ : Role))
            go rest (k + 1) (nflat + ns) (⟨1000000 + k, ids, some ns⟩ :: top) (subs.reverse ++ flat)
        | _, _ => none
      | _ => none
  go (s.splitOn ",") 0 0 [] []

inductive RoleArg | none | invalid | role (r : Role)

def parseRoleArg (t : RoleTable) (s : String) : Option RoleArg :=
  if s = "-" then some .none
  else if s = "?" then some .invalid
  else
    let k := (s.drop 1).toString.toNat?
    match s.front, k with
    | 't', some k => (t.top[k]?).map .role
    | 'f', some k => (t.flat[k]?).map .role
    | _, _ => Option.none

def parseMembers (s : String) : Option (List Member) :=
  if s = "-" then some [] else
  (s.splitOn ",").mapM fun x =>
    match x.splitOn "." with
    | [g, r] => do pure ⟨← g.toNat?, ← r.toNat?⟩
    | _ => none

inductive Vals | ints (l : List Int) | bools (l : List Bool)

def parseVals (s : String) : Option Vals :=
  if s.startsWith "i:" then
    let body := (s.drop 2).toString
    if body = "" then some (.ints []) else ((body.splitOn ",").mapM String.toInt?).map .ints
  else if s.startsWith "b:" then
    let body := (s.drop 2).toString
    (body.toList.mapM fun c => if c = 'T' then some true else if c = 'F' then some false else none).map .bools
  else none

def Vals.toInts : Vals → List Int
  | .ints l => l
  | .bools l => l.map b2i

def showList {α} (f : α → String) (l : List α) : String :=
  if l.isEmpty then "[]" else ",".intercalate (l.map f)

def showB (b : Bool) : String := if b then "T" else "F"
def showI (i : Int) : String := toString i
def showEI : EInt → String
  | .negInf => "-inf" | .posInf => "inf" | .fin v => toString v

def out {α} (f : α → String) : Except String (List α) → String
  | .ok l => showList f l
  | .error _ => "ERR"

/-- the methods of the protocol -/
inductive GOp
  | sum (v : Vals) | any (v : Vals) | all (v : Vals) | min (v : Vals) | max (v : Vals) | nb
  | nth (k : Nat) (d : Int) (v : Vals) | first (v : Vals) | from_ (d : Int) (v : Vals)
  | pnth (pos : List Nat) (k : Nat) (d : Int) (v : Vals) | pfirst (pos : List Nat) (v : Vals)
  | hasrole | rank (c : List Int) (b : List Bool) | partner (v : Vals)
  | project (v : Vals) | call (v : List Int)

def parseNats (s : String) : Option (List Nat) :=
  match parseVals s with
  | some (.ints l) => l.mapM fun i => if 0 ≤ i then some i.toNat else none
  | _ => none

def parseOp (op : String) (args : List String) : Option GOp :=
  match op, args with
  | "sum", [v] => (parseVals v).map .sum
  | "any", [v] => (parseVals v).map .any
  | "all", [v] => (parseVals v).map .all
  | "min", [v] => (parseVals v).map .min
  | "max", [v] => (parseVals v).map .max
  | "nb", [] => some .nb
  | "nth", [k, d, v] => do pure (.nth (← k.toNat?) (← d.toInt?) (← parseVals v))
  | "first", [v] => (parseVals v).map .first
  | "from", [d, v] => do pure (.from_ (← d.toInt?) (← parseVals v))
  | "pnth", [ps, k, d, v] => do pure (.pnth (← parseNats ps) (← k.toNat?) (← d.toInt?) (← parseVals v))
  | "pfirst", [ps, v] => do pure (.pfirst (← parseNats ps) (← parseVals v))
  | "hasrole", [] => some .hasrole
  | "rank", [c, b] => match parseVals c, parseVals b with
    | some (.ints c), some (.bools b) => some (.rank c b) | _, _ => none
  | "partner", [v] => (parseVals v).map .partner
  | "project", [v] => (parseVals v).map .project
  | "call", [v] => match parseVals v with | some (.ints l) => some (.call l) | _ => none
  | _, _ => none

/-- is the method called on the person population (`none` = on whatever the chain ends on) -/
def GOp.onPerson : GOp → Option Bool
  | .hasrole | .rank .. | .partner .. => some true
  | .call .. => none
  | _ => some false

/-- `projectable` methods are transformed by the projectors, the others (`project`) are not -/
def GOp.projectable : GOp → Bool
  | .project .. => false
  | _ => true

def ofBools (r : List Bool) : String × List EInt := (showList showB r, r.map (.fin ∘ b2i))
def ofInts (r : List Int) : String × List EInt := (showList showI r, r.map .fin)
def ofE (r : List EInt) : String × List EInt := (showList showEI r, r)

/-- typed answer of a method on the population of entity `e` of the world (`rank` and `partner`
refer to entity 0): left = text as the method itself prints it, right = the same values as extended
integers (for chains).  `role` comes with the index of the entity it belongs to. -/
def runOp (w : World) (lvl : Level) (role : Option (Nat × Role)) (gop : GOp) :
    Except String (String × List EInt) :=
  let e := match lvl with | .group e => e | .person => 0
  let p := w.pop e
  -- a role of another entity is outside the protocol
  let ro : Except String (Option Role) := match role with
    | none => .ok none
    | some (er, r) => if lvl = .person || er = e then .ok (some r) else .error "role of another entity"
  match ro with
  | .error x => .error x
  | .ok ro =>
  match gop with
  | .sum v => (groupSum p v.toInts ro).map ofInts
  | .any v => (match v with
      | .bools l => groupAny p l ro
      | .ints l => groupAnyI p l ro).map ofBools
  | .all v => (match v with
      | .bools l => groupAll p l ro
      | .ints l => groupAll p (l.map (· != 0)) ro).map ofBools    -- logical_and looks at truthiness
  | .min v => (groupMin p v.toInts ro).map ofE                     -- where(.., bool, inf) is float
  | .max v => (groupMax p v.toInts ro).map ofE
  | .nb => (nbPersons p ro).map ofInts
  | .nth k d v => match v with
    | .ints l => (valueNth p k l d).map ofInts
    | .bools l => (valueNth p k l (d != 0)).map ofBools
  | .first v => match v with
    | .ints l => (valueFromFirst p l 0).map ofInts
    | .bools l => (valueFromFirst p l false).map ofBools
  | .pnth pos k d v => match v with
    | .ints l => (valueNthAssigned p pos k l d).map ofInts
    | .bools l => (valueNthAssigned p pos k l (d != 0)).map ofBools
  | .pfirst pos v => match v with
    | .ints l => (valueNthAssigned p pos 0 l 0).map ofInts
    | .bools l => (valueNthAssigned p pos 0 l false).map ofBools
  | .from_ d v => match ro with
    | none => .error "role required"
    | some r => match v with
      | .ints l => (valueFromPerson p l r d).map ofInts
      | .bools l => (valueFromPerson p l r (d != 0)).map ofBools
  | .hasrole => match role with
    | none => .error "role required"
    | some (er, r) => .ok (ofBools ((w.pop er).hasRole r))
  | .rank c b => (getRank (w.pop 0) c b).map ofInts
  | .partner v => match role with
    | some (0, r) => (valueFromPartner (w.pop 0) v.toInts r 0).map ofInts   -- select(.., default 0) promotes bools
    | _ => .error "role required"
  | .project v => match v, ro with
    | .bools l, none => (project p l false none).map ofBools
    | v, ro => (project p v.toInts 0 ro).map ofInts                -- numpy promotes where(c, bool, 0)
  | .call l =>
    let size := match lvl with | .person => (w.pop 0).ms.length | .group e => (w.pop e).n
    if l.length = size then .ok (ofInts l) else .error "ValueError: size"

/-- role argument with the entity it belongs to: `t<k>`/`f<k>` household, `T<k>`/`F<k>` second entity -/
def parseRoleArg2 (ts : List RoleTable) (s : String) : Option (Option (Nat × Role)) :=
  if s = "-" then some none
  else
    let lower := s.front = 't' || s.front = 'f'
    let e := if lower then 0 else 1
    let s' := if lower then s else (if s.front = 'T' then "t" else if s.front = 'F' then "f" else "?") ++ (s.drop 1).toString
    match ts[e]? with
    | none => none
    | some t => match parseRoleArg t s' with
      | some (.role r) => some (some (e, r))
      | _ => none

def parseShortcuts (ts : List RoleTable) (s : String) : Option (List Shortcut) :=
  (s.splitOn ".").mapM fun x =>
    if x = "h" then some (.entity 0)
    else if x = "k" then some (.entity 1)
    else if x = "fp" then some .firstPerson
    else if x = "mb" then some .members
    else if x = "x" then some .other
    else match parseRoleArg2 ts x with
      | some (some (_, r)) => some (.role r)
      | _ => none

def parseStart (s : String) : Option Level :=
  if s = "p" then some .person else if s = "g" then some (.group 0) else if s = "G" then some (.group 1) else none

def runChain (w : World) (ts : List RoleTable) (role : String) (start sc op2 : String) (rest2 : List String) : String :=
  match parseStart start, parseShortcuts ts sc, parseOp op2 rest2, parseRoleArg2 ts role with
  | some lvl, some ss, some gop, some ro =>
    out showEI (chainCall w (.fin 0) lvl ss gop.projectable fun l =>
      let okLevel := match gop.onPerson with
        | none => true
        | some b => b == (l == Level.person)
      if okLevel then (runOp w l ro gop).map (·.2) else .error "wrong level")
  | _, _, _, _ => "BAD"

def handleGrp (args : List String) : String :=
  match args with
  | rt :: cnt :: mem :: op :: role :: rest =>
    match parseRoleTable rt, cnt.toNat?, parseMembers mem with
    | some t, some n, some ms =>
      let p : Pop := ⟨n, ms⟩
      if role = "?" then
        -- `check_role_validity` raises for anything that is not a Role (nb_persons fails on the
        -- attribute access instead); every op taking a role answers ERR
        "ERR"
      else
        match op, rest with
        | "positions", [] => out toString (membersPosition p.ids)
        | "omap", [] => showList toString (orderedMap p.ids)
        | "chain", start :: sc :: op2 :: rest2 => runChain (World.single p) [t] role start sc op2 rest2
        | "chain2", rt2 :: cnt2 :: mem2 :: ct :: start :: sc :: op2 :: rest2 =>
          match parseRoleTable rt2, cnt2.toNat?, parseMembers mem2 with
          | some t2, some n2, some ms2 =>
            let c0 : List Nat := if ct = "c1" || ct = "c3" then [1] else []
            let c1 : List Nat := if ct = "c2" || ct = "c3" then [0] else []
            let w : World := ⟨[p, ⟨n2, ms2⟩], fun e => if e = 0 then c0 else if e = 1 then c1 else []⟩
            runChain w [t, t2] role start sc op2 rest2
          | _, _, _ => "BAD"
        | _, _ => match parseOp op rest, parseRoleArg2 [t] role with
          | some (.call _), _ => "BAD"
          | some gop, some ro =>
            let lvl : Level := if gop.onPerson = some true then .person else .group 0
            match runOp (World.single p) lvl ro gop with
            | .ok (s, _) => s
            | .error _ => "ERR"
          | _, _ => "BAD"
    | _, _, _ => "BAD"
  | _ => "BAD"

end OFCore.Drv
