import OFCore.Group
/-!
Line protocol handler for the `grp` domain (C10, C11). One self-contained case per line:

    grp <roles> <count> <members> <op> <role> <args…>

* `<roles>`   role table: top-level roles separated by `,`, each `<max|->:<nsubs>`
* `<count>`   number of groups
* `<members>` `g.r` per person joined by `,` (group index . flattened role index), `-` if none
* `<role>`    `-` | `?` (not a Role object) | `t<k>` (top-level role k) | `f<k>` (flattened role k)
* values      `i:1,-2,3` integers, `b:TFT` booleans
* ops         sum any all min max nb nth first from project positions omap hasrole rank chain

Answers: comma-joined values (`T`/`F`, integers, `inf`, `-inf`), `[]` for an empty array, `ERR`
for any error of the model, `BAD` for a malformed line.
-/
namespace OFCore.Drv
open OFCore.Grp

structure RoleTable where
  top : List Role
  flat : List Role

def parseRoleTable (s : String) : Option RoleTable :=
  let rec go (parts : List String) (k : Nat) (nflat : Nat) (top flat : List Role) : Option RoleTable :=
    match parts with
    | [] => some ⟨top.reverse, flat.reverse⟩
    | part :: rest =>
      match part.splitOn ":" with
      | [mx, ns] =>
        match (if mx = "-" then some none else mx.toNat?.map some), ns.toNat? with
        | some mx, some ns =>
          if ns = 0 then
            let r : Role := ⟨nflat, [], mx⟩
            go rest (k + 1) (nflat + 1) (r :: top) (r :: flat)
          else
            let ids := (List.range ns).map (· + nflat)
            let subs := ids.map (fun i => (⟨i, [], some 1⟩ : Role))
            go rest (k + 1) (nflat + ns) (⟨1000000 + k, ids, some ns⟩ :: top) (subs.reverse ++ flat)
        | _, _ => none
      | _ => none
  go (s.splitOn ",") 0 0 [] []

inductive RoleArg | none | invalid | role (r : Role)

def parseRoleArg (t : RoleTable) (s : String) : Option RoleArg :=
  if s = "-" then some .none
  else if s = "?" then some .invalid
  else
    let k := (s.drop 1).toString.toNat?
    match s.front, k with
    | 't', some k => (t.top[k]?).map .role
    | 'f', some k => (t.flat[k]?).map .role
    | _, _ => Option.none

def parseMembers (s : String) : Option (List Member) :=
  if s = "-" then some [] else
  (s.splitOn ",").mapM fun x =>
    match x.splitOn "." with
    | [g, r] => do pure ⟨← g.toNat?, ← r.toNat?⟩
    | _ => none

inductive Vals | ints (l : List Int) | bools (l : List Bool)

def parseVals (s : String) : Option Vals :=
  if s.startsWith "i:" then
    let body := (s.drop 2).toString
    if body = "" then some (.ints []) else ((body.splitOn ",").mapM String.toInt?).map .ints
  else if s.startsWith "b:" then
    let body := (s.drop 2).toString
    (body.toList.mapM fun c => if c = 'T' then some true else if c = 'F' then some false else none).map .bools
  else none

def Vals.toInts : Vals → List Int
  | .ints l => l
  | .bools l => l.map b2i

def showList {α} (f : α → String) (l : List α) : String :=
  if l.isEmpty then "[]" else ",".intercalate (l.map f)

def showB (b : Bool) : String := if b then "T" else "F"
def showI (i : Int) : String := toString i
def showE : EInt → String
  | .negInf => "-inf" | .posInf => "inf" | .fin v => toString v

def out {α} (f : α → String) : Except String (List α) → String
  | .ok l => showList f l
  | .error _ => "ERR"

/-- result of a method as extended integers (booleans as 0/1), for the projector chains -/
inductive GOp
  | sum (v : Vals) | any (v : Vals) | all (v : List Bool) | min (v : List Int) | max (v : List Int) | nb
  | nth (k : Nat) (d : Int) (v : Vals) | first (v : Vals) | from_ (d : Int) (v : Vals)
  | hasrole | rank (c : List Int) (b : List Bool)

def parseOp (op : String) (args : List String) : Option GOp :=
  match op, args with
  | "sum", [v] => (parseVals v).map .sum
  | "any", [v] => (parseVals v).map .any
  | "all", [v] => match parseVals v with | some (.bools l) => some (.all l) | _ => none
  | "min", [v] => match parseVals v with | some (.ints l) => some (.min l) | _ => none
  | "max", [v] => match parseVals v with | some (.ints l) => some (.max l) | _ => none
  | "nb", [] => some .nb
  | "nth", [k, d, v] => do pure (.nth (← k.toNat?) (← d.toInt?) (← parseVals v))
  | "first", [v] => (parseVals v).map .first
  | "from", [d, v] => do pure (.from_ (← d.toInt?) (← parseVals v))
  | "hasrole", [] => some .hasrole
  | "rank", [c, b] => match parseVals c, parseVals b with
    | some (.ints c), some (.bools b) => some (.rank c b) | _, _ => none
  | _, _ => none

def GOp.level : GOp → Level
  | .hasrole | .rank .. => .person
  | _ => .group

/-- typed answer of an op: left = text as the op itself prints it, right = the same values as
extended integers (for chains) -/
def runOp (p : Pop) (role : Option Role) : GOp → Except String (String × List EInt)
  | .sum v => (groupSum p v.toInts role).map fun r => (showList showI r, r.map .fin)
  | .any v => (match v with
      | .bools l => groupAny p l role
      | .ints l => groupAnyI p l role).map fun r => (showList showB r, r.map (.fin ∘ b2i))
  | .all l => (groupAll p l role).map fun r => (showList showB r, r.map (.fin ∘ b2i))
  | .min l => (groupMin p l role).map fun r => (showList showE r, r)
  | .max l => (groupMax p l role).map fun r => (showList showE r, r)
  | .nb => (nbPersons p role).map fun r => (showList showI r, r.map .fin)
  | .nth k d v => match v with
    | .ints l => (valueNth p k l d).map fun r => (showList showI r, r.map .fin)
    | .bools l => (valueNth p k l (d != 0)).map fun r => (showList showB r, r.map (.fin ∘ b2i))
  | .first v => match v with
    | .ints l => (valueFromFirst p l 0).map fun r => (showList showI r, r.map .fin)
    | .bools l => (valueFromFirst p l false).map fun r => (showList showB r, r.map (.fin ∘ b2i))
  | .from_ d v => match role with
    | none => .error "role required"
    | some ro => match v with
      | .ints l => (valueFromPerson p l ro d).map fun r => (showList showI r, r.map .fin)
      | .bools l => (valueFromPerson p l ro (d != 0)).map fun r => (showList showB r, r.map (.fin ∘ b2i))
  | .hasrole => match role with
    | none => .error "role required"
    | some ro => .ok (showList showB (p.hasRole ro), (p.hasRole ro).map (.fin ∘ b2i))
  | .rank c b => (getRank p c b).map fun r => (showList showI r, r.map .fin)

def parseShortcuts (t : RoleTable) (s : String) : Option (List Shortcut) :=
  (s.splitOn ".").mapM fun x =>
    if x = "h" then some .entity
    else if x = "fp" then some .firstPerson
    else if x = "x" then some .other
    else match parseRoleArg t x with
      | some (.role r) => some (.role r)
      | _ => none

def handleGrp (args : List String) : String :=
  match args with
  | rt :: cnt :: mem :: op :: role :: rest =>
    match parseRoleTable rt, cnt.toNat?, parseMembers mem with
    | some t, some n, some ms =>
      let p : Pop := ⟨n, ms⟩
      match parseRoleArg t role with
      | none => "BAD"
      | some .invalid =>
        -- `check_role_validity` raises for anything that is not a Role (nb_persons fails on the
        -- attribute access instead); every op taking a role answers ERR
        "ERR"
      | some ra =>
        let ro : Option Role := match ra with | .role r => some r | _ => none
        match op, rest with
        | "positions", [] => out toString (membersPosition p.ids)
        | "omap", [] => showList toString (orderedMap p.ids)
        | "project", [v] => match parseVals v with
          | some (.ints l) => out showI (project p l 0 ro)
          | some (.bools l) => match ro with
            | none => out showB (project p l false none)
            | some r => out showI (project p (l.map b2i) 0 (some r))   -- numpy promotes where(c, bool, 0)
          | none => "BAD"
        | "chain", start :: sc :: op2 :: rest2 =>
          match (if start = "p" then some Level.person else if start = "g" then some Level.group else none),
                parseShortcuts t sc, parseOp op2 rest2 with
          | some lvl, some ss, some gop =>
            out showE (chainCall p (.fin 0) lvl ss fun l =>
              if l = gop.level then (runOp p ro gop).map (·.2) else .error "wrong level")
          | _, _, _ => "BAD"
        | _, _ => match parseOp op rest with
          | some gop => match runOp p ro gop with
            | .ok (s, _) => s
            | .error _ => "ERR"
          | none => "BAD"
    | _, _, _ => "BAD"
  | _ => "BAD"

end OFCore.Drv
