/-! Line protocol handler for the `grp` domain (stub until the model exists). -/
namespace OFCore.Drv
def handleGrp (_args : List String) : String := "BAD"
end OFCore.Drv
