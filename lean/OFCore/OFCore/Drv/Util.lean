import OFCore.Calendar
/-! Driver helpers: parsing of protocol fields (import-free). -/
namespace OFCore.Drv

def parseInt? (s : String) : Option Int := s.toInt?

def parseDate? (s : String) : Option Date :=
  match s.splitOn "," with
  | [y, m, d] => do pure ⟨← y.toInt?, ← m.toInt?, ← d.toInt?⟩
  | _ => none

def showDate (c : Date) : String := s!"{c.y},{c.m},{c.d}"

def hexVal (c : Char) : Option Nat :=
  if '0' ≤ c ∧ c ≤ '9' then some (c.toNat - '0'.toNat)
  else if 'a' ≤ c ∧ c ≤ 'f' then some (c.toNat - 'a'.toNat + 10) else none

/-- hex of ASCII bytes -> chars -/
def unhex (s : String) : Option (List Char) :=
  let rec go : List Char → Option (List Char)
    | [] => some []
    | a :: b :: r => do
      let x ← hexVal a; let y ← hexVal b
      let rest ← go r
      pure (Char.ofNat (x * 16 + y) :: rest)
    | _ => none
  go s.toList

def hexDigit (n : Nat) : Char := if n < 10 then Char.ofNat ('0'.toNat + n) else Char.ofNat ('a'.toNat + n - 10)
def tohex (cs : List Char) : String :=
  String.ofList (cs.flatMap (fun c => [hexDigit (c.toNat / 16), hexDigit (c.toNat % 16)]))

end OFCore.Drv
