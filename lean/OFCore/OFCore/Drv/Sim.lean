import OFCore.RuleSys
import OFCore.EngineTrace
import OFCore.Drv.Per
/-!
Line protocol for the engine domain (`sim`): one self-contained case per line.

```
sim P <nP> G <nG> M <m…> [RL <role…>] MSL <k>
    V <nV> { <entity> <vtype> <unit> <default> <neutral> <end|-> <noStore> F <nF> { <start> <expr> } }
    I <nI> { <v> <period> <values…> }
    R <nR> { calc <v> <period> | add <v> <period> | arm <id> | disarm <id> | reads | badp <v> }
expr ::= c <k> | v <w> <pt> <0|1> | o1 <o> expr | o2 <o> expr expr | f <id> expr
         (o1 codes: 0 neg, 1 sum over members, 2 projection, 3 nonzero, >= 100 scaling; role
          operations with role r = code % 10: 10+r sum(role), 20+r value_from_person(role),
          30+r nb_persons(role), 40+r any(role), 50+r max(role), 60+r min(role), 70+r all(role);
          for 50-79 r = 9 means no role filter; max/min of a household without holder = 0, all = 1;
          80+r projection onto the members holding role r, 0 for the others; role digit 9 = no filter,
          8 = the first top-level role including its two sub-roles (flattened roles 0 and 1))
pt   ::= same | this_year | first_month | last_month | last_year | off:<n>:<unit> | fx:<period>
```
Answer: `<res>;<res>;…|<known entries>` with res = `ok:<v,…>` | `CYCLE` | `ERR` | `FUEL`, known =
`<v>@<period>=<v,…>[!]` sorted (`!` = ghost-tainted entry, stripped by the harness before
comparison).
-/
namespace OFCore.Drv
open OFCore OFCore.Engine OFCore.RuleSys

abbrev Parser (α : Type) := List String → Option (α × List String)

def pNat : Parser Nat
  | t :: r => t.toNat?.map (·, r)
  | [] => none

def pInt : Parser Int
  | t :: r => t.toInt?.map (·, r)
  | [] => none

def pTok (s : String) : Parser Unit
  | t :: r => if t = s then some ((), r) else none
  | [] => none

def pMany {α : Type} (p : Parser α) : Nat → Parser (List α)
  | 0, ts => some ([], ts)
  | n+1, ts => do
    let (a, ts) ← p ts
    let (as, ts) ← pMany p n ts
    pure (a :: as, ts)

def pPT : Parser PTrans
  | t :: r =>
    match t with
    | "same" => some (.same, r)
    | "this_year" => some (.thisYear, r)
    | "first_month" => some (.firstMonth, r)
    | "last_month" => some (.lastMonth, r)
    | "last_year" => some (.lastYear, r)
    | _ => match t.splitOn ":" with
      | ["off", n, u] => do pure (.offset (← n.toInt?) (← DUnit.ofName u), r)
      | ["fx", q] => do pure (.fixed (← parsePeriod? q), r)
      | _ => none
  | [] => none

def pExpr : Nat → Parser DExpr
  | 0, _ => none
  | fuel+1, ts =>
    match ts with
    | "c" :: r => do let (k, r) ← pInt r; pure (.const k, r)
    | "v" :: r => do
      let (w, r) ← pNat r
      let (pt, r) ← pPT r
      let (a, r) ← pNat r
      pure (.var w pt (a ≠ 0), r)
    | "o1" :: r => do
      let (o, r) ← pNat r
      let (a, r) ← pExpr fuel r
      pure (.op1 o a, r)
    | "o2" :: r => do
      let (o, r) ← pNat r
      let (a, r) ← pExpr fuel r
      let (b, r) ← pExpr fuel r
      pure (.op2 o a b, r)
    | "f" :: r => do
      let (id, r) ← pNat r
      let (a, r) ← pExpr fuel r
      pure (.fail id a, r)
    | _ => none

def pVType : Parser VType
  | "int" :: r => some (.int, r)
  | "float" :: r => some (.float, r)
  | "bool" :: r => some (.bool, r)
  | "enum" :: r => some (.enum, r)
  | "date" :: r => some (.date, r)
  | "str" :: r => some (.str, r)
  | _ => none

def pUnit : Parser DUnit
  | t :: r => (DUnit.ofName t).map (·, r)
  | [] => none

def pOptInt : Parser (Option Int)
  | "-" :: r => some (none, r)
  | t :: r => t.toInt?.map (fun i => (some i, r))
  | [] => none

def pFormula : Parser (Int × DExpr) := fun ts => do
  let (s, ts) ← pInt ts
  let (e, ts) ← pExpr 200 ts
  pure ((s, e), ts)

def pVar : Parser Var := fun ts => do
  let (entity, ts) ← pNat ts
  let (vt, ts) ← pVType ts
  let (u, ts) ← pUnit ts
  let (dflt, ts) ← pInt ts
  let (neu, ts) ← pNat ts
  let (e, ts) ← pOptInt ts
  let (ns, ts) ← pNat ts
  let (_, ts) ← pTok "F" ts
  let (nF, ts) ← pNat ts
  let (fs, ts) ← pMany pFormula nF ts
  pure ({ entity := entity, vtype := vt, unit := u, dflt := dflt, neutralized := neu ≠ 0, endOrd := e,
          noStore := ns ≠ 0, formulas := fs }, ts)

def pPeriod : Parser Period
  | t :: r => (parsePeriod? t).map (·, r)
  | [] => none

inductive Req
  | calc (v : Nat) (p : Period)
  | add (v : Nat) (p : Period)
  | arm (id : Nat)
  | disarm (id : Nat)
  | reads
  | badp (v : Nat)        -- a top-level request whose period text cannot be parsed

def pReq : Parser Req
  | "calc" :: r => do let (v, r) ← pNat r; let (p, r) ← pPeriod r; pure (.calc v p, r)
  | "add" :: r => do let (v, r) ← pNat r; let (p, r) ← pPeriod r; pure (.add v p, r)
  | "arm" :: r => do let (i, r) ← pNat r; pure (.arm i, r)
  | "disarm" :: r => do let (i, r) ← pNat r; pure (.disarm i, r)
  | "reads" :: r => some (.reads, r)
  | "badp" :: r => do let (v, r) ← pNat r; pure (.badp v, r)
  | _ => none

structure SimCase where
  decl : Decl
  reqs : List Req

def pCase : Parser SimCase := fun ts => do
  let (_, ts) ← pTok "P" ts
  let (nP, ts) ← pNat ts
  let (_, ts) ← pTok "G" ts
  let (nG, ts) ← pNat ts
  let (_, ts) ← pTok "M" ts
  let (mem, ts) ← pMany pNat nP ts
  -- optional: the role of each person (absent = everybody holds role 0)
  let (roles, ts) ← (match ts with
    | "RL" :: r => pMany pNat nP r
    | _ => some ([], ts))
  let (_, ts) ← pTok "MSL" ts
  let (msl, ts) ← pNat ts
  let (_, ts) ← pTok "V" ts
  let (nV, ts) ← pNat ts
  let (vars, ts) ← pMany pVar nV ts
  let (_, ts) ← pTok "I" ts
  let (nI, ts) ← pNat ts
  let pInput : Parser (Nat × Period × Val) := fun ts => do
    let (v, ts) ← pNat ts
    let (p, ts) ← pPeriod ts
    let vv ← vars[v]?
    let (xs, ts) ← pMany pInt (if vv.entity = 0 then nP else nG) ts
    pure ((v, p, xs), ts)
  let (inputs, ts) ← pMany pInput nI ts
  let (_, ts) ← pTok "R" ts
  let (nR, ts) ← pNat ts
  let (reqs, ts) ← pMany pReq nR ts
  pure ({ decl := { nP := nP, nG := nG, mem := mem, msl := msl, vars := vars, inputs := inputs, roles := roles }, reqs := reqs }, ts)

def showVal (x : Val) : String := ",".intercalate (x.map toString)

def showRes : Option Res → String
  | none => "FUEL"
  | some (.ok x) => "ok:" ++ showVal x
  | some (.error .cycle) => "CYCLE"
  | some (.error .fault) => "ERR"

def FUEL : Nat := 100000

/-- one top-level `calculate` on an already elaborated node -/
def doCalc (sys : Sys Period) (s : St Period) (k : Except String (Node Period)) : Option Res × St Period :=
  match k with
  | .error _ => (some (.error .fault), s)
  | .ok k =>
    match request sys FUEL s k with
    | none => (none, s)
    | some (r, _, s') => (some r, s')

def doAdd (sys : Sys Period) (s : St Period) (ks : List (Except String (Node Period))) : Option Res × St Period :=
  let rec go (acc : Val) (first : Bool) (s : St Period) : List (Except String (Node Period)) → Option Res × St Period
    | [] => (some (.ok acc), s)
    | k :: ks =>
      match doCalc sys s k with
      | (some (.ok x), s') => go (if first then x else vecAdd acc x) false s' ks
      | (r, s') => (r, s')
  go [] true s ks

def periodKey (p : Period) : String := showPeriod p

def showKnown (d : Decl) (s : St Period) : String :=
  let inputs : List (String × String) := d.inputs.filterMap (fun i =>
    match d.vars[i.1]? with
    | none => none
    | some vv =>
      -- inputs past the variable's `end` are ignored by `set_input`; neutralised variables ignore inputs
      if vv.neutralized then none
      else match vv.endOrd with
        | some e => if i.2.1.unit ≠ .eternity ∧ ord i.2.1.start > e then none
                    else some (s!"{i.1}@{periodKey i.2.1}", showVal i.2.2)
        | none => some (s!"{i.1}@{periodKey i.2.1}", showVal i.2.2))
  -- the newest cache entry for a key shadows older ones
  let rec dedup (seen : List (Node Period)) : Cache Period → List (String × String)
    | [] => []
    | (k, (x, g)) :: r =>
      if seen.contains k then dedup seen r
      else (s!"{k.1}@{periodKey k.2}", showVal x ++ (if g then "!" else "")) :: dedup (k :: seen) r
  let all := inputs ++ dedup [] s.cache
  let sorted := all.toArray.qsort (fun a b => a.1 < b.1) |>.toList
  ",".intercalate (sorted.map (fun e => e.1 ++ "=" ++ e.2))

/-- for every retained computed node: the reads its formula in force performs, in order
    (`readsOf`): what the full tracer records as the children of that calculation -/
def showReads (sys : Sys Period) (s : St Period) : String :=
  let rec dedup (seen : List (Node Period)) : Cache Period → List (String × String)
    | [] => []
    | (k, _) :: r =>
      if seen.contains k then dedup seen r
      else
        let rs := readsOf sys k
        if rs.isEmpty then dedup (k :: seen) r
        else (s!"{k.1}@{periodKey k.2}", "+".intercalate (rs.map (fun j => let j' := sys.slot j; s!"{j'.1}@{periodKey j'.2}"))) :: dedup (k :: seen) r
  let sorted := (dedup [] s.cache).toArray.qsort (fun a b => a.1 < b.1) |>.toList
  "T:" ++ ";".intercalate (sorted.map (fun e => e.1 ++ ">" ++ e.2)) |>.replace ";" "&"

def runCase (c : SimCase) : String :=
  let rec go (armed : List Nat) (s : St Period) (out : List String) : List Req → List String × St Period
    | [] => (out.reverse, s)
    | .arm i :: r => go (i :: armed) s ("-" :: out) r
    | .disarm i :: r => go (armed.filter (· ≠ i)) s ("-" :: out) r
    | .reads :: r => go armed s (showReads (elabSys c.decl armed) s :: out) r
    -- `periods.period(text)` raises before the request starts: an error, and nothing changes
    | .badp _ :: r => go armed s ("ERR" :: out) r
    | .calc v p :: r =>
      let sys := elabSys c.decl armed
      let (res, s') := doCalc sys s (requestNode c.decl v p)
      go armed s' ((showRes res ++ (if s'.stack.isEmpty ∧ s'.inval.isEmpty then "" else "#STATE")) :: out) r
    | .add v p :: r =>
      let sys := elabSys c.decl armed
      match requestAddNodes c.decl v p with
      | .error _ => go armed s ("ERR" :: out) r
      | .ok ks =>
        let (res, s') := doAdd sys s ks
        go armed s' ((showRes res ++ (if s'.stack.isEmpty ∧ s'.inval.isEmpty then "" else "#STATE")) :: out) r
  let (outs, s) := go [] St.init [] c.reqs
  ";".intercalate outs ++ "|" ++ showKnown c.decl s

/-! ## the extended protocol (what `handleSim` answers)

```
sim P … G … M … [RL …] MSL <k> [PAR <nPar> { <nVal> { <start ordinal> <value> } }] [OUT <n> <kind…>] V … I …
    R <nR> { calc <v> <period> | add <v> <period> | div <v> <period> | out <v> <period> | get <v> <period>
           | del <v> <period|*> | set <v> <period> <values…> | arm <id> | disarm <id> | reads | badp <v> }
expr ::= … | o1 900 v <w> <pt> 0      floor(population(w, pt(period), options=[DIVIDE]))
           | o1 901 v <i> <pt> 0      parameters(pt(period)).<parameter i>
```
(`OUT`: the `calculate_output` attribute of each variable, 0 none / 1 add / 2 divide; `out` is
`Simulation.calculate_output`, answered like the request it forwards to.)
Answers: `div` → `ok:<numerators…>/<denominator>`; `get` → `g:<values…>` | `g:none`; `del` → `-`;
`set` → `-` (stored or ignored) | `ERR` (refused); `repl <v> <variable as in the V section>` → `-`.  `tcalc` → `<res>#L:<node>=<result>><read>+…&…` (the log of `runL`: every calculation opened,
chronologically).  `reads` lists, for every retained computed node,
`<node>><read>+<read>…[$<param>:<instant ordinal>:<value>+…]`.
-/

inductive XReq
  | calc (v : Nat) (p : Period)
  | tcalc (v : Nat) (p : Period)     -- `calculate` with the whole trace of the request in the answer
  | add (v : Nat) (p : Period)
  | div (v : Nat) (p : Period)
  | out (v : Nat) (p : Period)
  | get (v : Nat) (p : Period)
  | del (v : Nat) (p : Option Period)
  | set (v : Nat) (p : Period) (x : Val)
  | repl (v : Nat) (vv : Var)        -- the declaration of variable `v` is replaced in the live system
  | arm (id : Nat)
  | disarm (id : Nat)
  | reads
  | badp (v : Nat)

structure XSimCase where
  x : XDecl
  reqs : List XReq

def pXReq (size : Nat → Option Nat) : Parser XReq
  | "calc" :: r => do let (v, r) ← pNat r; let (p, r) ← pPeriod r; pure (.calc v p, r)
  | "tcalc" :: r => do let (v, r) ← pNat r; let (p, r) ← pPeriod r; pure (.tcalc v p, r)
  | "add" :: r => do let (v, r) ← pNat r; let (p, r) ← pPeriod r; pure (.add v p, r)
  | "div" :: r => do let (v, r) ← pNat r; let (p, r) ← pPeriod r; pure (.div v p, r)
  | "out" :: r => do let (v, r) ← pNat r; let (p, r) ← pPeriod r; pure (.out v p, r)
  | "get" :: r => do let (v, r) ← pNat r; let (p, r) ← pPeriod r; pure (.get v p, r)
  | "del" :: r => do
    let (v, r) ← pNat r
    match r with
    | "*" :: r => pure (.del v none, r)
    | _ => do let (p, r) ← pPeriod r; pure (.del v (some p), r)
  | "set" :: r => do
    let (v, r) ← pNat r
    let (p, r) ← pPeriod r
    let n ← size v
    let (xs, r) ← pMany pInt n r
    pure (.set v p xs, r)
  | "repl" :: r => do let (v, r) ← pNat r; let (vv, r) ← pVar r; pure (.repl v vv, r)
  | "arm" :: r => do let (i, r) ← pNat r; pure (.arm i, r)
  | "disarm" :: r => do let (i, r) ← pNat r; pure (.disarm i, r)
  | "reads" :: r => some (.reads, r)
  | "badp" :: r => do let (v, r) ← pNat r; pure (.badp v, r)
  | _ => none

def pParam : Parser (List (Int × Int)) := fun ts => do
  let (n, ts) ← pNat ts
  let pOne : Parser (Int × Int) := fun ts => do
    let (s, ts) ← pInt ts
    let (v, ts) ← pInt ts
    pure ((s, v), ts)
  pMany pOne n ts

def pXCase : Parser XSimCase := fun ts => do
  let (_, ts) ← pTok "P" ts
  let (nP, ts) ← pNat ts
  let (_, ts) ← pTok "G" ts
  let (nG, ts) ← pNat ts
  let (_, ts) ← pTok "M" ts
  let (mem, ts) ← pMany pNat nP ts
  let (roles, ts) ← (match ts with
    | "RL" :: r => pMany pNat nP r
    | _ => some ([], ts))
  let (_, ts) ← pTok "MSL" ts
  let (msl, ts) ← pNat ts
  let (params, ts) ← (match ts with
    | "PAR" :: r => do let (n, r) ← pNat r; pMany pParam n r
    | _ => some ([], ts))
  let (outputs, ts) ← (match ts with
    | "OUT" :: r => do let (n, r) ← pNat r; pMany pNat n r
    | _ => some ([], ts))
  let (_, ts) ← pTok "V" ts
  let (nV, ts) ← pNat ts
  let (vars, ts) ← pMany pVar nV ts
  let (_, ts) ← pTok "I" ts
  let (nI, ts) ← pNat ts
  let size (v : Nat) : Option Nat := (vars[v]?).map (fun vv => if vv.entity = 0 then nP else nG)
  let pInput : Parser (Nat × Period × Val) := fun ts => do
    let (v, ts) ← pNat ts
    let (p, ts) ← pPeriod ts
    let n ← size v
    let (xs, ts) ← pMany pInt n ts
    pure ((v, p, xs), ts)
  let (inputs, ts) ← pMany pInput nI ts
  let (_, ts) ← pTok "R" ts
  let (nR, ts) ← pNat ts
  let (reqs, ts) ← pMany (pXReq size) nR ts
  pure ({ x := { nP := nP, nG := nG, mem := mem, msl := msl, vars := vars, inputs := inputs, roles := roles,
                 params := params, outputs := outputs }, reqs := reqs }, ts)

/-- reads and parameter reads of every retained computed node -/
def showXReads (x : XDecl) (sys : Sys Period) (s : St Period) : String :=
  let rec dedup (seen : List (Node Period)) : Cache Period → List (String × String)
    | [] => []
    | (k, _) :: r =>
      if seen.contains k then dedup seen r
      else
        let rs := readsOf sys k
        let ps : List (Nat × Int × Int) := match x.vars[k.1]? with
          | none => []
          | some vv => match formulaInForce vv (startOrdOf k.2) with
            | none => []
            | some e => (paramReadsE x k.2 e).1
        if rs.isEmpty ∧ ps.isEmpty then dedup (k :: seen) r
        else
          let a := "+".intercalate (rs.map (fun j => let j' := sys.slot j; s!"{j'.1}@{periodKey j'.2}"))
          let b := if ps.isEmpty then "" else "$" ++ "+".intercalate (ps.map (fun q => s!"{q.1}:{q.2.1}:{q.2.2}"))
          (s!"{k.1}@{periodKey k.2}", a ++ b) :: dedup (k :: seen) r
  let sorted := (dedup [] s.cache).toArray.qsort (fun a b => a.1 < b.1) |>.toList
  "T:" ++ ";".intercalate (sorted.map (fun e => e.1 ++ ">" ++ e.2)) |>.replace ";" "&"

/-- the log of a request (`runL`), one entry per calculation opened, in chronological order:
    `<node>=<result>><read>+<read>…` joined by `&`; results: the values, or `E` for an error -/
def showLog (l : Log Period) : String :=
  let res : Res → String
    | .ok x => showVal x
    | .error _ => "E"
  "&".intercalate (l.map (fun en =>
    s!"{en.1.1}@{periodKey en.1.2}={res en.2.1}>" ++ "+".intercalate (en.2.2.map (fun kr => s!"{kr.1.1}@{periodKey kr.1.2}"))))

/-- a top-level `calculate` through the instrumented machine (`runL` then the purge of `request`) -/
def doCalcL (sys : Sys Period) (s : St Period) (k : Except String (Node Period)) : Option Res × St Period × String :=
  match k with
  | .error _ => (some (.error .fault), s, "")
  | .ok k =>
    match runL sys FUEL s k.1 k.2 with
    | none => (none, s, "")
    | some (r, _, s', l) => (some r, (if s'.stack = [] then purge sys s' else s'), showLog l)

def stateMark (s : St Period) : String := if s.stack.isEmpty ∧ s.inval.isEmpty then "" else "#STATE"

def runXCase (c : XSimCase) : String :=
  let rec go (armed : List Nat) (x : XDecl) (s : St Period) (out : List String) : List XReq → List String × XDecl × St Period
    | [] => (out.reverse, x, s)
    | .arm i :: r => go (i :: armed) x s ("-" :: out) r
    | .disarm i :: r => go (armed.filter (· ≠ i)) x s ("-" :: out) r
    | .reads :: r => go armed x s (showXReads x (xelabSys x armed) s :: out) r
    | .badp _ :: r => go armed x s ("ERR" :: out) r
    | .out _ _ :: r => go armed x s ("BAD" :: out) r      -- resolved before the run
    | .calc v p :: r =>
      let sys := xelabSys x armed
      let (res, s') := doCalc sys s (requestNode x.toDecl v p)
      go armed x s' ((showRes res ++ stateMark s') :: out) r
    | .tcalc v p :: r =>
      let sys := xelabSys x armed
      let (res, s', lg) := doCalcL sys s (requestNode x.toDecl v p)
      -- a request refused before the machine starts is still a recorded calculation (with no result, no read)
      let lg := match requestNode x.toDecl v p with
        | .error _ => s!"{v}@{periodKey p}=E>"
        | .ok _ => lg
      go armed x s' ((showRes res ++ stateMark s' ++ "#L:" ++ lg) :: out) r
    | .add v p :: r =>
      let sys := xelabSys x armed
      match requestAddNodes x.toDecl v p with
      | .error _ => go armed x s ("ERR" :: out) r
      | .ok ks =>
        let (res, s') := doAdd sys s ks
        go armed x s' ((showRes res ++ stateMark s') :: out) r
    | .div v p :: r =>
      let sys := xelabSys x armed
      match requestDivNode x.toDecl v p with
      | .error _ => go armed x s ("ERR" :: out) r
      | .ok (k, n) =>
        let (res, s') := doCalc sys s (.ok k)
        let shown := match res with
          | some (.ok y) => "ok:" ++ showVal y ++ "/" ++ toString n
          | other => showRes other
        go armed x s' ((shown ++ stateMark s') :: out) r
    | .get v p :: r =>
      let sys := xelabSys x armed
      let o := match x.vars[v]? with
        | none => "ERR"
        | some _ => match getArray sys s (v, p) with
          | some y => "g:" ++ showVal y
          | none => "g:none"
      go armed x s (o :: out) r
    | .del v q :: r =>
      match x.vars[v]? with
      | none => go armed x s ("ERR" :: out) r
      | some _ =>
        let x' : XDecl := { x with inputs := deleteInputs x.toDecl v q }
        go armed x' { s with cache := deleteCached x.toDecl v q s.cache } ("-" :: out) r
    | .repl v vv :: r =>
      -- `tbs.replace_variable`: from now on the system's declaration of `v` is `vv`; stored values stay
      go armed { x with vars := x.vars.set v vv } s ("-" :: out) r
    | .set v q y :: r =>
      match setInputOutcome x.toDecl v q with
      | .refused => go armed x s ("ERR" :: out) r
      | .ignored => go armed x s ("-" :: out) r
      | .stored =>
        -- the value replaces whatever is stored under the slot
        let key := storageKey x.toDecl v q
        let inputs' := (v, key, y) :: x.inputs.filter (fun i => !(i.1 = v && storageKey x.toDecl v i.2.1 = key))
        let x' : XDecl := { x with inputs := inputs' }
        go armed x' { s with cache := s.cache.filter (fun e => !(e.1 = (v, key))) } ("-" :: out) r
  -- `calculate_output` forwards to the request its variable names (an unknown variable: any of them raises)
  let resolve : XReq → XReq
    | .out v p => (match outputKind c.x v with | .plain => .calc v p | .add => .add v p | .divide => .div v p)
    | r => r
  let (outs, x, s) := go [] c.x St.init [] (c.reqs.map resolve)
  ";".intercalate outs ++ "|" ++ showKnown x.toDecl s

def handleSim (args : List String) : String :=
  match pXCase args with
  | some (c, []) => runXCase c
  | _ => "BAD"

end OFCore.Drv
