/-! Line protocol handler for the `sim` domain (stub until the model exists). -/
namespace OFCore.Drv
def handleSim (_args : List String) : String := "BAD"
end OFCore.Drv
