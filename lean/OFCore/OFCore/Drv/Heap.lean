import OFCore.Heap
/-! Line protocol for the `heap` domain (clone / non-interference, property C13). Mathlib-free.

```
heap run <sys> <spec> <pre> <td> <events>
    -> <alias graph>;<obs of every simulation>|<step>|<step>|…        or ERR (the model could not build / clone)
sys   = <var>;<var>;…          var  = <entity>:<unit>[~<type>][^][!]:<default>:<formula>      (^ = set_input_dispatch_by_period)
                               (~type: value type of the real variable — the model only keeps whether it is an Enum; ! = in cache_blacklist)
                               formula = - | <const>{+<coef>*<dep>.<via>.<pt>}   pt = s|l
                               via = s | m | p | mr<role> | nb<role> | hr<g>_<role> | pa | nt<k> | eq<k>     role = <flat>{_<flat>}
                               (eq<k>: population(dep, p) == <member k of the enumeration>, dep an Enum variable of the same entity)
                               (role-filtered sum of the members, nb_persons(role), has_role(role of entity g), the
                                parameter p0; a role is the set of flattened roles satisfying it: 0_1 | 0 | 1 | 2 | 3)
spec  = <persons>/<groups>/<mem>/<cfg>
                               groups = - | <entity>:<count>:<g.g.g…>:<roles>:<positions>,…   (g = group index of each person,
                               roles = - (never assigned) | <flat>.<flat>…, positions = - (never assigned) | <k>.<k>…)
                               mem = - | d<v>.<v>…[x<v>.<v>…]   (MemoryConfig(max_memory_occupation=0, priority_variables, variables_to_drop))
                               cfg = o<0|1>m<k>       (opt_out_cache, max_spiral_loops)
pre   = - | <op>;<op>…         calls on the original before the first `clone(trace=t, debug=d)`; td = <t><d>
events = - | <side><op>;…      side = o (the original) | c (its first clone) | 2 | 3 | … (later clones, in order of creation)
op    = s:<v>:<period>:<x,x,…> | d:<v>:<period|*> | k:<v>:<period> | a:<v>:<period> | t:<0|1> | h:<v>
      | g:<v>:<period>                        set_input with an array whose dtype cannot be cast
      | q:<route>:<ent>:<v>:<period>          <route>(v, period): a calculation through the population a route returns
      | u:<route>:<ent>:<v>:<period>          <route>.get_holder(v).get_array(period)
                                              route = g (get_population(plural)) | d (populations[key]) | a (simulation.<key>) | p (simulation.persons)
      | i:<v>:<period>                        simulation.invalidate_cache_entry(v, period)
      | r:<v>:<period>:<side>:<w>:<q>         set_input with the array object <side> holds for (w, q); `none` if it holds none
      | n:<t><d>                              clone this simulation (the answer is the alias graph of parent `o.` and child `c.`)
period = eternity | <unit>/<y>,<m>,<d>/<size>
step  = <result>;<obs>;<obs>;…     one <obs> per live simulation;  result = ok | ERR | <x,x,…> | 0 | none | <alias graph>
```
The alias graph lists, for every reference field of the parent and of the clone, the canonical
name of the object it designates (objects are named by the first path that reaches them, the
parent's paths first): a field of the clone whose target is named `o.…` is shared. -/
namespace OFCore.Drv
open OFCore OFCore.Heap

def hAllSome {α} : List (Option α) → Option (List α)
  | [] => some []
  | none :: _ => none
  | some a :: r => (hAllSome r).map (a :: ·)

def splitList (s : String) (sep : String) : List String := if s = "-" ∨ s = "" then [] else s.splitOn sep

def hParseDate? (s : String) : Option Date :=
  match s.splitOn "," with
  | [y, m, d] => do pure ⟨← y.toInt?, ← m.toInt?, ← d.toInt?⟩
  | _ => none

def hParsePeriod? (s : String) : Option Period :=
  if s = "eternity" then some Period.eternity else
  match s.splitOn "/" with
  | [u, d, n] => do pure ⟨← DUnit.ofName u, ← hParseDate? d, ← n.toInt?⟩
  | _ => none

def hShowPeriod (p : Period) : String :=
  if p.unit = .eternity then "eternity" else s!"{p.unit.name}/{p.start.y},{p.start.m},{p.start.d}/{p.size}"

def parseInts? (s : String) : Option (List Int) := hAllSome ((splitList s ",").map String.toInt?)
def parseNatsDot? (s : String) : Option (List Nat) := hAllSome ((splitList s ".").map String.toNat?)

def parseRole? (s : String) : Option (List Nat) := do
  let r ← hAllSome ((s.splitOn "_").map String.toNat?)
  if stdRoles.contains r then some r else none

def parseVia? (via : String) : Option Via :=
  if via = "s" then some Via.same else if via = "m" then some Via.members
  else if via = "p" then some Via.project
  else if via.startsWith "mr" then (parseRole? (via.drop 2).toString).map Via.membersRole
  else if via.startsWith "nb" then (parseRole? (via.drop 2).toString).map Via.nbPersons
  else if via.startsWith "hr" then
    match ((via.drop 2).toString.splitOn "_") with
    | g :: rest => do
      let g ← g.toNat?
      let r ← parseRole? ("_".intercalate rest)
      pure (Via.hasRole g r)
    | [] => none
  else if via = "pa" then some Via.param
  else if via.startsWith "nt" then ((via.drop 2).toString.toNat?).map Via.nth
  else if via.startsWith "eq" then ((via.drop 2).toString.toNat?).map Via.enumIs
  else none

def parseTerm? (s : String) : Option Term :=
  match s.splitOn "*" with
  | [c, rest] =>
    match rest.splitOn "." with
    | [d, via, pt] => do
      let via ← parseVia? via
      let pt ← (if pt = "s" then some PT.same else if pt = "l" then some PT.lastMonth else none)
      pure ⟨← c.toInt?, ← d.toNat?, via, pt⟩
    | _ => none
  | _ => none

def parseFormula? (s : String) : Option (Option (Int × List Term)) :=
  if s = "-" then some none else
  match s.splitOn "+" with
  | c :: ts => do
    let c ← c.toInt?
    let ts ← hAllSome (ts.map parseTerm?)
    pure (some (c, ts))
  | [] => none

def parseVar? (s : String) : Option VarDecl :=
  match s.splitOn ":" with
  | [e, u, d, f] => do
    let bl := u.endsWith "!"
    let u := if bl then (u.dropEnd 1).toString else u
    let disp := u.endsWith "^"
    let u := if disp then (u.dropEnd 1).toString else u
    let (u, t) ← (match u.splitOn "~" with
      | [u] => some (u, "f")
      | [u, t] => if ["f", "i", "b", "e", "s", "d"].contains t then some (u, t) else none
      | _ => none)
    pure { entity := ← e.toNat?, defPeriod := ← DUnit.ofName u, dflt := ← d.toInt?, formula := ← parseFormula? f,
           blacklisted := bl, isEnum := t = "e", dispatch := disp }
  | _ => none

def parseSys? (s : String) : Option Sys := hAllSome ((splitList s ";").map parseVar?)

def parseGroup? (s : String) : Option GroupSpec :=
  match s.splitOn ":" with
  | [e, n, ms, rs, ps] => do
    let roles ← (if rs = "-" then some none else (parseNatsDot? rs).map some)
    let poss ← (if ps = "-" then some none else (parseNatsDot? ps).map some)
    pure ⟨← e.toNat?, ← n.toNat?, ← parseNatsDot? ms, roles, poss⟩
  | _ => none

def parseMem? (s : String) : Option (Option MemConfig) :=
  if s = "-" then some none
  else if s.startsWith "d" then
    match (s.drop 1).toString.splitOn "x" with
    | [a] => do pure (some ⟨← parseNatsDot? a, []⟩)
    | [a, b] => do pure (some ⟨← parseNatsDot? a, ← parseNatsDot? b⟩)
    | _ => none
  else none

def parseSpec? (s : String) : Option SimSpec :=
  match s.splitOn "/" with
  | [n, gs, m, cfg] => do
    let gs ← hAllSome ((splitList gs ",").map parseGroup?)
    let (oo, msl) ← (match cfg.splitOn "m" with
      | [o, k] => do
        let oo ← (if o = "o1" then some true else if o = "o0" then some false else none)
        pure (oo, ← k.toNat?)
      | _ => none)
    pure ⟨← n.toNat?, gs, ← parseMem? m, oo, msl⟩
  | _ => none

/-- a step of a history: a call, a call fed with an array read from another simulation, or a clone -/
inductive Event where
  | call (op : Op)
  | setFrom (v : Var) (p : Period) (src : Nat) (w : Var) (q : Period)
  | clone (trace debug : Bool)

def parseSide? (s : String) : Option Nat :=
  if s = "o" then some 0 else if s = "c" then some 1 else
  match s.toNat? with
  | some n => if 2 ≤ n ∧ n ≤ 9 ∧ s.length = 1 then some n else none
  | none => none

def parseFlags? (s : String) : Option (Bool × Bool) :=
  if s = "00" then some (false, false) else if s = "10" then some (true, false)
  else if s = "01" then some (false, true) else if s = "11" then some (true, true) else none

def parseRoute? (s : String) : Option Route :=
  if s = "g" then some .getPopulation else if s = "d" then some .populations
  else if s = "a" then some .shortcut else if s = "p" then some .persons else none

def parseOp? (s : String) : Option Op :=
  match s.splitOn ":" with
  | ["g", v, p] => do pure (.setBad (← v.toNat?) (← hParsePeriod? p))
  | ["q", r, e, v, p] => do pure (.calcVia (← parseRoute? r) (← e.toNat?) (← v.toNat?) (← hParsePeriod? p))
  | ["u", r, e, v, p] => do pure (.readVia (← parseRoute? r) (← e.toNat?) (← v.toNat?) (← hParsePeriod? p))
  | ["s", v, p, xs] => do pure (.setInput (← v.toNat?) (← hParsePeriod? p) (← parseInts? xs))
  | ["d", v, p] => do
    let v ← v.toNat?
    if p = "*" then pure (.deleteArrays v none) else pure (.deleteArrays v (some (← hParsePeriod? p)))
  | ["k", v, p] => do pure (.calculate (← v.toNat?) (← hParsePeriod? p))
  | ["a", v, p] => do pure (.calculateAdd (← v.toNat?) (← hParsePeriod? p))
  | ["t", b] => if b = "1" then some (.setTrace true) else if b = "0" then some (.setTrace false) else none
  | ["h", v] => do pure (.touch (← v.toNat?))
  | ["i", v, p] => do pure (.invalidate (← v.toNat?) (← hParsePeriod? p))
  | _ => none

def parseEvent? (s : String) : Option (Nat × Event) := do
  let side ← parseSide? (s.take 1).toString
  let rest := (s.drop 1).toString
  match rest.splitOn ":" with
  | ["n", fl] => do
    let (t, d) ← parseFlags? fl
    pure (side, .clone t d)
  | ["r", v, p, src, w, q] => do
    pure (side, .setFrom (← v.toNat?) (← hParsePeriod? p) (← parseSide? src) (← w.toNat?) (← hParsePeriod? q))
  | _ => do pure (side, .call (← parseOp? rest))

/-! ### printing -/

def showB (b : Bool) : String := if b then "T" else "F"
def showVec (v : Vec) : String := ",".intercalate (v.map toString)
def showKey (k : Key) : String := s!"{k.1}@{hShowPeriod k.2}"
def sortStrings (l : List String) : List String := l.mergeSort (fun a b => decide (a ≤ b))
def dedup : List String → List String
  | a :: b :: r => if a = b then dedup (b :: r) else a :: dedup (b :: r)
  | l => l

def showHolderObs (o : HolderObs) : String :=
  let items := o.known.map (fun e => hShowPeriod e.1 ++ "=" ++ (match e.2 with | some v => showVec v | none => "none"))
  s!"v{o.var}:{showB o.ownPop}{showB o.ownSim}:" ++ "&".intercalate (dedup (sortStrings items))

def showPopObs (o : PopObs) : String :=
  let hs := (o.holders.mergeSort (fun a b => decide (a.var ≤ b.var))).map showHolderObs
  s!"e{o.entity}:{showB o.ownSim}{showB o.ownMembers}:n{o.count}:i" ++ ".".intercalate (o.ids.map toString) ++ ":"
    ++ ".".intercalate (o.membersEntityId.map toString)
    ++ (if o.entity = 0 then "" else
        ":r" ++ ".".intercalate (o.roles.map toString) ++ ":p" ++ ".".intercalate (o.positions.map toString)
        ++ ":c" ++ "/".intercalate (o.roleCounts.map showVec))
    ++ ":[" ++ " ".intercalate hs ++ "]"

def showObs (o : Obs) : String :=
  let pops := (o.pops.mergeSort (fun a b => decide (a.entity ≤ b.entity))).map showPopObs
  s!"d{showB o.debug}o{showB o.optOut}m{o.msl}t{showB o.trace}{showB o.full}[" ++ " ".intercalate (o.roots.map showKey) ++ "]s" ++ toString o.stack.length
    ++ "i[" ++ " ".intercalate (sortStrings (o.inval.map showKey)) ++ "]p" ++ showB o.personsListed
    ++ "q" ++ showB o.personsRoute
    ++ ".".intercalate ((o.routes.mergeSort (fun a b => decide (a.1 ≤ b.1))).map (fun e => s!"{e.1}" ++ "".intercalate (e.2.map showB)))
    ++ "{" ++ " ".intercalate pops ++ "}"

def showObsOf (h : Heap) (x : Id) : String :=
  match (observe x h).1 with
  | .ok o => showObs o
  | .error _ => "ERR"

def showRes : Except Err Out → String
  | .ok .done => "ok"
  | .ok (.vec v) => showVec v
  | .ok .zero => "0"
  | .ok .nothing => "none"
  | .error _ => "ERR"

/-! ### alias graph -/

def sortedBy {α} (key : α → Nat) (l : List α) : List α := l.mergeSort (fun a b => decide (key a ≤ key b))

/-- the objects of a simulation in traversal order, with the path that reaches them -/
def simObjects (h : Heap) (pre : String) (x : Id) : List (Id × String) :=
  match (h.get? x).bind Obj.sim? with
  | none => [(x, pre)]
  | some so =>
    [(x, pre), (so.tracer, pre ++ ".tr"), (so.inval, pre ++ ".iv")]
    ++ (match so.dir with | some d => [(d, pre ++ ".dir")] | none => [])
    ++ (sortedBy (fun e => e.1) so.pops).flatMap (fun (k, pid) =>
      let pn := s!"{pre}.e{k}"
      (pid, pn) ::
      match (h.get? pid).bind Obj.pop? with
      | none => []
      | some po =>
        (sortedBy (fun e => e.1) po.holders).flatMap (fun (v, hid) =>
          let hn := s!"{pn}.h{v}"
          (hid, hn) ::
          match (h.get? hid).bind Obj.holder? with
          | none => []
          | some ho => (ho.mem, hn ++ ".mem") :: (match ho.disk with | some d => [(d, hn ++ ".disk")] | none => [])))

def nameOf (names : List (Id × String)) (p : Id) : String :=
  match names.find? (fun e => e.1 = p) with
  | some e => e.2
  | none => "?"

def nameOpt (names : List (Id × String)) : Option Id → String
  | some p => nameOf names p
  | none => "none"

/-- every reference field of a simulation with the name of its target -/
def simFields (h : Heap) (names : List (Id × String)) (pre : String) (x : Id) : List String :=
  match (h.get? x).bind Obj.sim? with
  | none => [pre ++ "=ERR"]
  | some so =>
    [s!"{pre}.persons={nameOf names so.persons}", s!"{pre}.pops={nameOf names x}.pops",
     s!"{pre}.tracer={nameOf names so.tracer}", s!"{pre}.inval={nameOf names so.inval}",
     s!"{pre}.dir={nameOpt names so.dir}"]
    ++ (sortedBy (fun e => e.1) so.pops).flatMap (fun (k, pid) =>
      let pn := s!"{pre}.e{k}"
      s!"{pn}={nameOf names pid}" ::
      match (h.get? pid).bind Obj.pop? with
      | none => [pn ++ "=ERR"]
      | some po =>
        [s!"{pn}.sim={nameOf names po.sim}", s!"{pn}.hs={nameOf names pid}.hs",
         s!"{pn}.members={nameOpt names po.members}"]
        ++ (sortedBy (fun e => e.1) po.holders).flatMap (fun (v, hid) =>
          let hn := s!"{pn}.h{v}"
          s!"{hn}={nameOf names hid}" ::
          match (h.get? hid).bind Obj.holder? with
          | none => [hn ++ "=ERR"]
          | some ho =>
            [s!"{hn}.pop={nameOf names ho.pop}", s!"{hn}.sim={nameOf names ho.sim}",
             s!"{hn}.mem={nameOf names ho.mem}", s!"{hn}.arr={nameOf names ho.mem}.arr",
             s!"{hn}.disk={nameOpt names ho.disk}"]
            ++ (match ho.disk with
                | some d => match (h.get? d).bind Obj.disk? with
                  | some dk => [s!"{hn}.ddir={nameOf names dk.dir}"]
                  | none => [hn ++ ".ddir=ERR"]
                | none => [])))

def aliasGraph (h : Heap) (s c : Id) : String :=
  let names := simObjects h "o" s ++ simObjects h "c" c
  " ".intercalate (simFields h names "o" s ++ simFields h names "c" c)

/-! ### the handler -/

def fuelDefault : Nat := 40

def showAll (h : Heap) (sims : List Id) : String := ";".intercalate (sims.map (showObsOf h))

/-- does the region of the simulation hold an on-disk storage or a temporary directory? -/
def hasDisk (h : Heap) (x : Id) : Bool :=
  (h[x.reg]?.getD []).any (fun o => match o with
    | .disk _ => true | .dir _ => true
    | .sim _ => false | .pop _ => false | .holder _ => false | .store _ => false | .tracer _ => false | .inval _ => false)

def runEvents (sys : Sys) : List (Nat × Event) → Heap → List Id → List String
  | [], _, _ => []
  | (side, ev) :: rest, h, sims =>
    match sims[side]? with
    | none => ["BAD"]
    | some x =>
      match ev with
      | .call op =>
        let (r, h1) := step sys fuelDefault x op h
        (showRes r ++ ";" ++ showAll h1 sims) :: runEvents sys rest h1 sims
      | .setFrom v p src w q =>
        match sims[src]? with
        | none => ["BAD"]
        | some y =>
          -- `source.get_array(w, q)` is itself a call on the source: it makes the holder
          let h := (step sys fuelDefault y (.touch w) h).2
          match (readValue sys y w q h).1 with
          | .ok (some a) =>
            let (r, h1) := step sys fuelDefault x (.setInput v p a) h
            (showRes r ++ ";" ++ showAll h1 sims) :: runEvents sys rest h1 sims
          | _ => ("none;" ++ showAll h sims) :: runEvents sys rest h sims
      | .clone t d =>
        -- the transcription for every simulation; `cloneSim` (the definition the theorems are about) must give the
        -- very same heap whenever it gives one without touching a disk storage: checked on every clone of every case
        match cloneSimR x t d h with
        | (.error _, _) => ["ERR"]
        | (.ok c, h1) =>
          let agrees := match cloneSim x t d h with
            | (.ok c', h1') => decide (c' = c) && (decide (h1' = h1) || hasDisk h x)
            | (.error _, _) => false
          if !agrees then ["MODEL-MISMATCH cloneSim / cloneSimR"] else
          (aliasGraph h1 x c ++ ";" ++ showAll h1 (sims ++ [c])) :: runEvents sys rest h1 (sims ++ [c])

/-- what the adapter refuses as well: group entities ≥ 1 and distinct, variables in declared entities,
one group index below the group count per person, roles and positions of the right length, role reads
on the right kind of variable -/
def wellFormed (sys : Sys) (spec : SimSpec) : Bool :=
  let ks := spec.groups.map (fun g => g.entity)
  ks.all (fun k => k ≠ 0) && ks.Nodup
  && spec.groups.all (fun g => g.membersEntityId.length = spec.persons && g.membersEntityId.all (fun i => i < g.count)
      && (match g.roles with | none => true | some rs => rs.length = spec.persons && rs.all (fun r => r < 4))
      && (match g.positions with | none => true | some ps => ps.length = spec.persons))
  && sys.all (fun d => (d.entity = 0 || ks.contains d.entity) &&
      (match d.formula with
       | none => true
       | some ct => ct.2.all (fun t => match t.via with
          | .hasRole g _ => ks.contains g && d.entity = 0
          | .membersRole _ => d.entity ≠ 0
          | .nbPersons _ => d.entity ≠ 0
          | .nth _ => d.entity ≠ 0
          | .enumIs k => k < 10 && (match sys[t.dep]? with | some dd => dd.isEnum | none => false)
          | .same => true | .members => true | .project => true | .param => true)))

def handleHeap (args : List String) : String :=
  match args with
  | ["run", sys, spec, pre, td, evs] =>
    match parseSys? sys, parseSpec? spec, hAllSome ((splitList pre ";").map parseOp?),
          hAllSome ((splitList evs ";").map parseEvent?), parseFlags? td with
    | some sys, some spec, some pre, some evs, some (t, d) =>
      if !wellFormed sys spec then "BAD" else
      match build spec [] with
      | (.error _, _) => "ERR"
      | (.ok s, h0) =>
        let h1 := runSide sys fuelDefault s pre h0
        let out := runEvents sys ((0, Event.clone t d) :: evs) h1 [s]
        if out.contains "BAD" then "BAD" else if out.contains "ERR" then "ERR"
        else if out.any (fun l => l.startsWith "MODEL-MISMATCH") then "MODEL-MISMATCH cloneSim / cloneSimR" else "|".intercalate out
    | _, _, _, _, _ => "BAD"
  | _ => "BAD"

end OFCore.Drv
