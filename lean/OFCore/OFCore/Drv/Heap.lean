/-! Line protocol handler for the `heap` domain (stub until the model exists). -/
namespace OFCore.Drv
def handleHeap (_args : List String) : String := "BAD"
end OFCore.Drv
