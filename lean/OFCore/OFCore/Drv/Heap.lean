import OFCore.Heap
/-! Line protocol for the `heap` domain (clone / non-interference, property C13). Mathlib-free.

```
heap run <sys> <spec> <pre> <trace> <ops>
    -> <alias graph>|<step>|<step>|…        or ERR (the model could not build / clone)
sys   = <var>;<var>;…          var  = <entity>:<unit>:<default>:<formula>
                               formula = - | <const>{+<coef>*<dep>.<via>.<pt>}   pt = s|l
                               via = s | m | p | mr<role> | nb<role> | hr<g>_<role>      role = <flat>{_<flat>}
                               (role-filtered sum of the members, nb_persons(role), has_role(role of entity g);
                                a role is the set of flattened roles satisfying it: 0_1 | 0 | 1 | 2 | 3)
spec  = <persons>/<groups>/<mem>   groups = - | <entity>:<count>:<g.g.g…>:<roles>,…   (g = group index of each person,
                               roles = - (never assigned) | <flat>.<flat>… (flattened role of each person))
                               mem = - | d | d<v>.<v>…   (MemoryConfig(max_memory_occupation=0, priority_variables))
pre   = - | <op>;<op>…         operations on the original before `clone(trace=<trace>)`
ops   = - | <side><op>;…       side = o | c
op    = s:<v>:<period>:<x,x,…> | d:<v>:<period|*> | k:<v>:<period> | a:<v>:<period> | t:<0|1> | h:<v>
period = eternity | <unit>/<y>,<m>,<d>/<size>
step  = <result>;O<obs>;C<obs>       result = ok | ERR | <x,x,…> | 0 (the empty sum of calculate_add)
```
The alias graph lists, for every reference field of the original and of the clone, the canonical
name of the object it designates (objects are named by the first path that reaches them, the
original's paths first): a field of the clone whose target is named `o.…` is shared. -/
namespace OFCore.Drv
open OFCore OFCore.Heap

def hAllSome {α} : List (Option α) → Option (List α)
  | [] => some []
  | none :: _ => none
  | some a :: r => (hAllSome r).map (a :: ·)

def splitList (s : String) (sep : String) : List String := if s = "-" ∨ s = "" then [] else s.splitOn sep

def hParseDate? (s : String) : Option Date :=
  match s.splitOn "," with
  | [y, m, d] => do pure ⟨← y.toInt?, ← m.toInt?, ← d.toInt?⟩
  | _ => none

def hParsePeriod? (s : String) : Option Period :=
  if s = "eternity" then some Period.eternity else
  match s.splitOn "/" with
  | [u, d, n] => do pure ⟨← DUnit.ofName u, ← hParseDate? d, ← n.toInt?⟩
  | _ => none

def hShowPeriod (p : Period) : String :=
  if p.unit = .eternity then "eternity" else s!"{p.unit.name}/{p.start.y},{p.start.m},{p.start.d}/{p.size}"

def parseInts? (s : String) : Option (List Int) := hAllSome ((splitList s ",").map String.toInt?)
def parseNatsDot? (s : String) : Option (List Nat) := hAllSome ((splitList s ".").map String.toNat?)

def parseRole? (s : String) : Option (List Nat) := do
  let r ← hAllSome ((s.splitOn "_").map String.toNat?)
  if stdRoles.contains r then some r else none

def parseVia? (via : String) : Option Via :=
  if via = "s" then some Via.same else if via = "m" then some Via.members
  else if via = "p" then some Via.project
  else if via.startsWith "mr" then (parseRole? (via.drop 2).toString).map Via.membersRole
  else if via.startsWith "nb" then (parseRole? (via.drop 2).toString).map Via.nbPersons
  else if via.startsWith "hr" then
    match ((via.drop 2).toString.splitOn "_") with
    | g :: rest => do
      let g ← g.toNat?
      let r ← parseRole? ("_".intercalate rest)
      pure (Via.hasRole g r)
    | [] => none
  else none

def parseTerm? (s : String) : Option Term :=
  match s.splitOn "*" with
  | [c, rest] =>
    match rest.splitOn "." with
    | [d, via, pt] => do
      let via ← parseVia? via
      let pt ← (if pt = "s" then some PT.same else if pt = "l" then some PT.lastMonth else none)
      pure ⟨← c.toInt?, ← d.toNat?, via, pt⟩
    | _ => none
  | _ => none

def parseFormula? (s : String) : Option (Option (Int × List Term)) :=
  if s = "-" then some none else
  match s.splitOn "+" with
  | c :: ts => do
    let c ← c.toInt?
    let ts ← hAllSome (ts.map parseTerm?)
    pure (some (c, ts))
  | [] => none

def parseVar? (s : String) : Option VarDecl :=
  match s.splitOn ":" with
  | [e, u, d, f] => do pure ⟨← e.toNat?, ← DUnit.ofName u, ← d.toInt?, ← parseFormula? f⟩
  | _ => none

def parseSys? (s : String) : Option Sys := hAllSome ((splitList s ";").map parseVar?)

def parseGroup? (s : String) : Option GroupSpec :=
  match s.splitOn ":" with
  | [e, n, ms, rs] => do
    let roles ← (if rs = "-" then some none else (parseNatsDot? rs).map some)
    pure ⟨← e.toNat?, ← n.toNat?, ← parseNatsDot? ms, roles⟩
  | _ => none

def parseMem? (s : String) : Option (Option MemConfig) :=
  if s = "-" then some none
  else if s.startsWith "d" then do
    let vs ← parseNatsDot? (s.drop 1).toString
    pure (some ⟨vs⟩)
  else none

def parseSpec? (s : String) : Option SimSpec :=
  match s.splitOn "/" with
  | [n, gs, m] => do
    let gs ← hAllSome ((splitList gs ",").map parseGroup?)
    pure ⟨← n.toNat?, gs, ← parseMem? m⟩
  | _ => none

def parseOp? (s : String) : Option Op :=
  match s.splitOn ":" with
  | ["s", v, p, xs] => do pure (.setInput (← v.toNat?) (← hParsePeriod? p) (← parseInts? xs))
  | ["d", v, p] => do
    let v ← v.toNat?
    if p = "*" then pure (.deleteArrays v none) else pure (.deleteArrays v (some (← hParsePeriod? p)))
  | ["k", v, p] => do pure (.calculate (← v.toNat?) (← hParsePeriod? p))
  | ["a", v, p] => do pure (.calculateAdd (← v.toNat?) (← hParsePeriod? p))
  | ["t", b] => if b = "1" then some (.setTrace true) else if b = "0" then some (.setTrace false) else none
  | ["h", v] => do pure (.touch (← v.toNat?))
  | _ => none

def parseSideOp? (s : String) : Option (Side × Op) :=
  if s.startsWith "o" then (parseOp? (s.drop 1).toString).map (fun o => (Side.orig, o))
  else if s.startsWith "c" then (parseOp? (s.drop 1).toString).map (fun o => (Side.clone, o))
  else none

/-! ### printing -/

def showB (b : Bool) : String := if b then "T" else "F"
def showVec (v : Vec) : String := ",".intercalate (v.map toString)
def showKey (k : Key) : String := s!"{k.1}@{hShowPeriod k.2}"
def sortStrings (l : List String) : List String := l.mergeSort (fun a b => decide (a ≤ b))
def dedup : List String → List String
  | a :: b :: r => if a = b then dedup (b :: r) else a :: dedup (b :: r)
  | l => l

def showHolderObs (o : HolderObs) : String :=
  let items := o.known.map (fun e => hShowPeriod e.1 ++ "=" ++ (match e.2 with | some v => showVec v | none => "none"))
  s!"v{o.var}:{showB o.ownPop}{showB o.ownSim}:" ++ "&".intercalate (dedup (sortStrings items))

def showPopObs (o : PopObs) : String :=
  let hs := (o.holders.mergeSort (fun a b => decide (a.var ≤ b.var))).map showHolderObs
  s!"e{o.entity}:{showB o.ownSim}{showB o.ownMembers}:n{o.count}:" ++ ".".intercalate (o.membersEntityId.map toString)
    ++ (if o.entity = 0 then "" else
        ":r" ++ ".".intercalate (o.roles.map toString) ++ ":c" ++ "/".intercalate (o.roleCounts.map showVec))
    ++ ":[" ++ " ".intercalate hs ++ "]"

def showObs (o : Obs) : String :=
  let pops := (o.pops.mergeSort (fun a b => decide (a.entity ≤ b.entity))).map showPopObs
  s!"t{showB o.trace}{showB o.full}[" ++ " ".intercalate (o.roots.map showKey) ++ "]s" ++ toString o.stack.length
    ++ "i[" ++ " ".intercalate (sortStrings (o.inval.map showKey)) ++ "]p" ++ showB o.personsListed
    ++ "{" ++ " ".intercalate pops ++ "}"

def showObsOf (h : Heap) (x : Id) : String :=
  match (observe x h).1 with
  | .ok o => showObs o
  | .error _ => "ERR"

def showRes : Except Err Out → String
  | .ok .done => "ok"
  | .ok (.vec v) => showVec v
  | .ok .zero => "0"
  | .error _ => "ERR"

/-! ### alias graph -/

def sortedBy {α} (key : α → Nat) (l : List α) : List α := l.mergeSort (fun a b => decide (key a ≤ key b))

/-- the objects of a simulation in traversal order, with the path that reaches them -/
def simObjects (h : Heap) (pre : String) (x : Id) : List (Id × String) :=
  match (h.get? x).bind Obj.sim? with
  | none => [(x, pre)]
  | some so =>
    [(x, pre), (so.tracer, pre ++ ".tr"), (so.inval, pre ++ ".iv")]
    ++ (match so.dir with | some d => [(d, pre ++ ".dir")] | none => [])
    ++ (sortedBy (fun e => e.1) so.pops).flatMap (fun (k, pid) =>
      let pn := s!"{pre}.e{k}"
      (pid, pn) ::
      match (h.get? pid).bind Obj.pop? with
      | none => []
      | some po =>
        (sortedBy (fun e => e.1) po.holders).flatMap (fun (v, hid) =>
          let hn := s!"{pn}.h{v}"
          (hid, hn) ::
          match (h.get? hid).bind Obj.holder? with
          | none => []
          | some ho => (ho.mem, hn ++ ".mem") :: (match ho.disk with | some d => [(d, hn ++ ".disk")] | none => [])))

def nameOf (names : List (Id × String)) (p : Id) : String :=
  match names.find? (fun e => e.1 = p) with
  | some e => e.2
  | none => "?"

def nameOpt (names : List (Id × String)) : Option Id → String
  | some p => nameOf names p
  | none => "none"

/-- every reference field of a simulation with the name of its target -/
def simFields (h : Heap) (names : List (Id × String)) (pre : String) (x : Id) : List String :=
  match (h.get? x).bind Obj.sim? with
  | none => [pre ++ "=ERR"]
  | some so =>
    [s!"{pre}.persons={nameOf names so.persons}", s!"{pre}.pops={nameOf names x}.pops",
     s!"{pre}.tracer={nameOf names so.tracer}", s!"{pre}.inval={nameOf names so.inval}",
     s!"{pre}.dir={nameOpt names so.dir}"]
    ++ (sortedBy (fun e => e.1) so.pops).flatMap (fun (k, pid) =>
      let pn := s!"{pre}.e{k}"
      s!"{pn}={nameOf names pid}" ::
      match (h.get? pid).bind Obj.pop? with
      | none => [pn ++ "=ERR"]
      | some po =>
        [s!"{pn}.sim={nameOf names po.sim}", s!"{pn}.hs={nameOf names pid}.hs",
         s!"{pn}.members={nameOpt names po.members}"]
        ++ (sortedBy (fun e => e.1) po.holders).flatMap (fun (v, hid) =>
          let hn := s!"{pn}.h{v}"
          s!"{hn}={nameOf names hid}" ::
          match (h.get? hid).bind Obj.holder? with
          | none => [hn ++ "=ERR"]
          | some ho =>
            [s!"{hn}.pop={nameOf names ho.pop}", s!"{hn}.sim={nameOf names ho.sim}",
             s!"{hn}.mem={nameOf names ho.mem}", s!"{hn}.arr={nameOf names ho.mem}.arr",
             s!"{hn}.disk={nameOpt names ho.disk}"]
            ++ (match ho.disk with
                | some d => match (h.get? d).bind Obj.disk? with
                  | some dk => [s!"{hn}.ddir={nameOf names dk.dir}"]
                  | none => [hn ++ ".ddir=ERR"]
                | none => [])))

def aliasGraph (h : Heap) (s c : Id) : String :=
  let names := simObjects h "o" s ++ simObjects h "c" c
  " ".intercalate (simFields h names "o" s ++ simFields h names "c" c)

/-! ### the handler -/

def fuelDefault : Nat := 40

def runSteps (sys : Sys) (s c : Id) : List (Side × Op) → Heap → List String
  | [], _ => []
  | (sd, op) :: rest, h =>
    let (r, h1) := step sys fuelDefault (sideId s c sd) op h
    (showRes r ++ ";O" ++ showObsOf h1 s ++ ";C" ++ showObsOf h1 c) :: runSteps sys s c rest h1

/-- what the adapter refuses as well: group entities ≥ 1 and distinct, variables in declared entities,
one group index below the group count per person -/
def wellFormed (sys : Sys) (spec : SimSpec) : Bool :=
  let ks := spec.groups.map (fun g => g.entity)
  ks.all (fun k => k ≠ 0) && ks.Nodup
  && spec.groups.all (fun g => g.membersEntityId.length = spec.persons && g.membersEntityId.all (fun i => i < g.count)
      && (match g.roles with | none => true | some rs => rs.length = spec.persons && rs.all (fun r => r < 4)))
  && sys.all (fun d => (d.entity = 0 || ks.contains d.entity) &&
      (match d.formula with
       | none => true
       | some ct => ct.2.all (fun t => match t.via with
          | .hasRole g _ => ks.contains g && d.entity = 0
          | .membersRole _ => d.entity ≠ 0
          | .nbPersons _ => d.entity ≠ 0
          | .same => true | .members => true | .project => true)))

def handleHeap (args : List String) : String :=
  match args with
  | ["run", sys, spec, pre, tr, ops] =>
    match parseSys? sys, parseSpec? spec, hAllSome ((splitList pre ";").map parseOp?),
          hAllSome ((splitList ops ";").map parseSideOp?) with
    | some sys, some spec, some pre, some ops =>
      if tr ≠ "0" ∧ tr ≠ "1" then "BAD" else
      if !wellFormed sys spec then "BAD" else
      match build spec [] with
      | (.error _, _) => "ERR"
      | (.ok s, h0) =>
        let h1 := runSide sys fuelDefault s pre h0
        match cloneSim s (tr = "1") false h1 with
        | (.error _, _) => "ERR"
        | (.ok c, h2) =>
          "|".intercalate ((aliasGraph h2 s c ++ ";O" ++ showObsOf h2 s ++ ";C" ++ showObsOf h2 c) :: runSteps sys s c ops h2)
    | _, _, _, _ => "BAD"
  | _ => "BAD"

end OFCore.Drv
