import OFCore.Api
import OFCore.Drv.Util
/-!
Line protocol handler for the `api` domain (property C20). One self-contained case per line.

```
api calc  <world> R <J>                 -> OK <J> | ERR
api trace <world> R <J>                 -> OK E <J> Q <s…>* T (<key> <J>)* | ERR
api seq   C|T <world> R <J> (;; C|T <world> R <J>)*   -> <answer> (;; <answer>)*
api yaml  <world> Y <test> (;; <world> Y <test>)*      -> PASS|FAIL (PASS|FAIL)*
api near  <type> <val>* ; <exp>|[ <exp>* ] a <p/q|~> r <p/q|~>   -> PASS|FAIL   (assert_near called directly)
api phist <ord:val,…|-> <probe,…>       -> <ord:val,…> | <val,…>       (served map ascending; API reading at each probe)
api vforms <ord,…|-> <end|-> <probe,…>  -> <ord:F|n,…> | <start|-,…>  (served formulas; the one in force at each probe)
api scale <thr-hist~val-hist;…> <probe,…> -> <ord=row,…> | <row,…>     (rows ascending by date, row = `thr>val/…` ascending by
                                           threshold, `n` = null, `-` = nothing; the reading at each probe without null values)
api params <J>                          -> <id-hex,…>                   (ids listed by /parameters, sorted)
api echo <text>                         -> <text>                       (cases carried by the oracle only)
```

`<J>` (prefix tokens): `n | bT | bF | i<int> | f<p/q> | s<hex> | [ <J>* ] | { (k<hex> <J>)* }`;
strings travel as the hex of their UTF-8 bytes (`-` = empty) and are handled as byte strings.
Objects are printed with their keys sorted (the JSON layer of the application sorts them).

`<world>` = what the built simulation answers (the abstract engine of the model), any number of
```
A0                                      the builder refuses the document
T <var> <int|float|bool|str|date|enum>  get_variable(var).value_type
X <plural> <id> <index>                 get_population(plural).get_index(id)
V <var> <period> <canon> ok <val>* ;    calculate(var, period); canon = str(periods.period(period))
V <var> <period> <canon> err ;
E <plural> <id>* ;                      describe_entities()
S <singular>      P <plural>            keys of simulation.populations / known plurals
```
`<val>`: `i<int> | f<p/q> | bT | bF | s<hex> | d<YYYY-MM-DD> | e<hex name>`.

`<test>`: `p<hex>|p~` (period) `a <margins>` `r <margins>` [`N <var>* ;`] [`G <var>* ;`] `o <Y>|o~`
(`N` = option only_variables, `G` = option ignore_variables; a `seq` block `B` is a body that is not JSON);
`<margins>`: `~` (absent) | `d<p/q>` (a scalar) | `{ (k<var> <p/q>|~)* }`;
`<Y>`: `{ (k<hex> <Y>)* } | [ <exp>* ] | <exp>`; `<exp>`: `i f b s d` tokens as above.
-/
namespace OFCore.Drv
open OFCore.Api

def apiStr? (t : String) : Option String :=
  if t = "-" then some "" else (unhex t).map String.ofList

def apiHex (s : String) : String := if s.isEmpty then "-" else tohex s.toList

def apiRat? (t : String) : Option Rat :=
  match t.splitOn "/" with
  | [p, q] => do
    let p ← p.toInt?
    let q ← q.toNat?
    if q = 0 then none else some (mkRat p q)
  | [p] => (p.toInt?).map fun n => (n : Rat)
  | _ => none

def apiShowRat (q : Rat) : String := s!"{q.num}/{q.den}"

def apiYmd? (t : String) : Option YMD :=
  match t.splitOn "-" with
  | [y, m, d] => do pure ⟨← y.toNat?, ← m.toNat?, ← d.toNat?⟩
  | _ => none

def apiTail (t : String) : String := String.ofList (t.toList.drop 1)

/-! ### JSON tokens -/

def apiScalar? (t : String) : Option J :=
  match t.toList with
  | ['n'] => some .null
  | ['b', 'T'] => some (.bool true)
  | ['b', 'F'] => some (.bool false)
  | 'i' :: r => ((String.ofList r).toInt?).map J.int
  | 'f' :: r => (apiRat? (String.ofList r)).map J.num
  | 's' :: r => (apiStr? (String.ofList r)).map J.str
  | _ => none

mutual
def parseJ : Nat → List String → Option (J × List String)
  | 0, _ => none
  | _ + 1, [] => none
  | f + 1, tok :: rest =>
    if tok = "[" then (parseArr f rest []).map fun (xs, r) => (J.arr xs, r)
    else if tok = "{" then (parseObj f rest []).map fun (kvs, r) => (J.obj kvs, r)
    else (apiScalar? tok).map fun j => (j, rest)
def parseArr : Nat → List String → List J → Option (List J × List String)
  | 0, _, _ => none
  | _ + 1, [], _ => none
  | f + 1, tok :: rest, acc =>
    if tok = "]" then some (acc.reverse, rest)
    else
      match parseJ f (tok :: rest) with
      | some (j, r) => parseArr f r (j :: acc)
      | none => none
def parseObj : Nat → List String → List (String × J) → Option (List (String × J) × List String)
  | 0, _, _ => none
  | _ + 1, [], _ => none
  | f + 1, tok :: rest, acc =>
    if tok = "}" then some (acc.reverse, rest)
    else
      match tok.toList with
      | 'k' :: kr =>
        match apiStr? (String.ofList kr), parseJ f rest with
        | some k, some (j, r) => parseObj f r ((k, j) :: acc)
        | _, _ => none
      | _ => none
end

def insertSorted {α : Type} (x : String × α) : List (String × α) → List (String × α)
  | [] => [x]
  | y :: r => if x.1 < y.1 then x :: y :: r else y :: insertSorted x r

def sortKeys {α : Type} (l : List (String × α)) : List (String × α) :=
  l.foldl (fun acc x => insertSorted x acc) []

mutual
def showJ : J → List String
  | .null => ["n"]
  | .bool b => [if b then "bT" else "bF"]
  | .int n => [s!"i{n}"]
  | .num q => ["f" ++ apiShowRat q]
  | .str s => ["s" ++ apiHex s]
  | .arr xs => "[" :: showArr xs ++ ["]"]
  | .obj kvs => "{" :: showObj kvs ++ ["}"]
def showArr : List J → List String
  | [] => []
  | x :: xs => showJ x ++ showArr xs
def showObj : List (String × J) → List String
  | [] => []
  | (k, v) :: r => ("k" ++ apiHex k) :: showJ v ++ showObj r
end

mutual
/-- keys sorted at every level (and the last of equal keys kept, as a JSON parser does) -/
def canonJ : J → J
  | .arr xs => .arr (canonArr xs)
  | .obj kvs => .obj (sortKeys (canonObj kvs))
  | .null => .null
  | .bool b => .bool b
  | .int n => .int n
  | .num q => .num q
  | .str s => .str s
def canonArr : List J → List J
  | [] => []
  | x :: xs => canonJ x :: canonArr xs
def canonObj : List (String × J) → List (String × J)
  | [] => []
  | (k, v) :: r => (k, canonJ v) :: canonObj r
end

def apiShowJ (j : J) : String := " ".intercalate (showJ (canonJ j))

/-! ### the world -/

def apiVType? : String → Option VType
  | "int" => some .int | "float" => some .float | "bool" => some .bool | "str" => some .str
  | "date" => some .date | "enum" => some .enum | _ => none

def apiVal? (t : String) : Option Val :=
  match t.toList with
  | ['b', 'T'] => some (.bool true)
  | ['b', 'F'] => some (.bool false)
  | 'i' :: r => ((String.ofList r).toInt?).map Val.int
  | 'f' :: r => (apiRat? (String.ofList r)).map Val.num
  | 's' :: r => (apiStr? (String.ofList r)).map Val.str
  | 'e' :: r => (apiStr? (String.ofList r)).map Val.enum
  | 'd' :: r => (apiYmd? (String.ofList r)).map Val.date
  | _ => none

structure World where
  accepts : Bool := true
  types : List (String × VType) := []
  idx : List ((String × String) × Nat) := []
  vecs : List ((String × String) × String × Except String (List Val)) := []
  ents : List (String × List String) := []
  sing : List String := []
  plur : List String := []

def World.sim (w : World) : Sim where
  vtype v := (w.types.find? (·.1 = v)).map (·.2)
  calcv v p := match w.vecs.find? (·.1 = (v, p)) with
    | some (_, _, r) => r
    | none => .error "not tabulated"
  index pl id := (w.idx.find? (·.1 = (pl, id))).map (·.2)
  canon p := match w.vecs.find? (·.1.2 = p) with
    | some (_, c, _) => c
    | none => p
  entities := w.ents
  singular k := w.sing.contains k
  plural k := w.plur.contains k

/-- the system of a line: the builder's acceptance and the engine's answers are tabulated for the
one document of the block -/
def World.system (w : World) : System := fun _ => if w.accepts then .ok w.sim else .error "refused"

/-- tokens up to the terminator `;` -/
def splitSemi : List String → List String × List String
  | [] => ([], [])
  | t :: r => if t = ";" then ([], r) else let (a, b) := splitSemi r; (t :: a, b)

/-- read world entries until a token that is none of them; returns the rest (starting at that token) -/
def parseWorld : Nat → List String → World → Option (World × List String)
  | 0, _, _ => none
  | _ + 1, [], w => some (w, [])
  | f + 1, tok :: rest, w =>
    match tok, rest with
    | "A0", r => parseWorld f r { w with accepts := false }
    | "A1", r => parseWorld f r w
    | "T", v :: t :: r =>
      match apiStr? v, apiVType? t with
      | some v, some t => parseWorld f r { w with types := w.types ++ [(v, t)] }
      | _, _ => none
    | "X", pl :: id :: i :: r =>
      match apiStr? pl, apiStr? id, i.toNat? with
      | some pl, some id, some i => parseWorld f r { w with idx := w.idx ++ [((pl, id), i)] }
      | _, _, _ => none
    | "V", v :: p :: c :: st :: r =>
      let (body, r') := splitSemi r
      match apiStr? v, apiStr? p, apiStr? c with
      | some v, some p, some c =>
        if st = "err" then parseWorld f r' { w with vecs := w.vecs ++ [((v, p), c, .error "engine")] }
        else if st = "ok" then
          match body.mapM apiVal? with
          | some vs => parseWorld f r' { w with vecs := w.vecs ++ [((v, p), c, .ok vs)] }
          | none => none
        else none
      | _, _, _ => none
    | "E", pl :: r =>
      let (body, r') := splitSemi r
      match apiStr? pl, body.mapM apiStr? with
      | some pl, some ids => parseWorld f r' { w with ents := w.ents ++ [(pl, ids)] }
      | _, _ => none
    | "S", k :: r =>
      match apiStr? k with
      | some k => parseWorld f r { w with sing := w.sing ++ [k] }
      | none => none
    | "P", k :: r =>
      match apiStr? k with
      | some k => parseWorld f r { w with plur := w.plur ++ [k] }
      | none => none
    | _, _ => some (w, tok :: rest)

/-! ### requests -/

def parseRequest (toks : List String) : Option (World × J) :=
  match parseWorld (toks.length + 1) toks {} with
  | some (w, "R" :: r) =>
    match parseJ (r.length + 1) r with
    | some (j, []) => some (w, j)
    | _ => none
  | _ => none

def answerCalc (w : World) (req : J) : String :=
  match calculateH w.system req with
  | .ok out => "OK " ++ apiShowJ out
  | .error _ => "ERR"

def entitiesJ (es : List (String × List String)) : J :=
  .obj (es.map fun (pl, ids) => (pl, .arr (ids.map J.str)))

def answerTrace (w : World) (req : J) : String :=
  match traceH w.system req with
  | .error _ => "ERR"
  | .ok a =>
    let q := a.requestedCalculations.map fun (v, p) => "s" ++ apiHex (v ++ "<" ++ p ++ ">")
    let tr := sortKeys (a.trace.map fun ((v, c), js) => (v ++ "<" ++ c ++ ">", J.arr js))
    let t := tr.flatMap fun (k, j) => [apiHex k, apiShowJ j]
    " ".intercalate (["OK", "E", apiShowJ (entitiesJ a.entitiesDescription), "Q"] ++ q ++ ["T"] ++ t)

/-- blocks separated by `;;` -/
def splitBlocks (toks : List String) : List (List String) :=
  let rec go : List String → List String → List (List String) → List (List String)
    | [], cur, acc => (cur.reverse :: acc).reverse
    | t :: r, cur, acc => if t = ";;" then go r [] (cur.reverse :: acc) else go r (t :: cur) acc
  go toks [] []

def answerSeqBlock (toks : List String) : Option String :=
  match toks with
  | "C" :: r => (parseRequest r).map fun (w, j) => answerCalc w j
  | "T" :: r => (parseRequest r).map fun (w, j) => answerTrace w j
  | ["B"] => some "ERR"            -- a body that is not JSON: no situation, an error answer
  | _ => none

/-! ### YAML tests -/

def apiExp? (t : String) : Option Exp :=
  match t.toList with
  | ['b', 'T'] => some (.bool true)
  | ['b', 'F'] => some (.bool false)
  | 'i' :: r => ((String.ofList r).toInt?).map Exp.int
  | 'f' :: r => (apiRat? (String.ofList r)).map Exp.num
  | 's' :: r => (apiStr? (String.ofList r)).map Exp.str
  | 'd' :: r => (apiYmd? (String.ofList r)).map Exp.date
  | _ => none

def parseExps : List String → List Exp → Option (List Exp × List String)
  | [], _ => none
  | tok :: rest, acc =>
    if tok = "]" then some (acc.reverse, rest)
    else
      match apiExp? tok with
      | some e => parseExps rest (e :: acc)
      | none => none

mutual
def parseY : Nat → List String → Option (Y × List String)
  | 0, _ => none
  | _ + 1, [] => none
  | f + 1, tok :: rest =>
    if tok = "[" then (parseExps rest []).map fun (es, r) => (Y.list es, r)
    else if tok = "{" then (parseYMap f rest []).map fun (kvs, r) => (Y.map kvs, r)
    else (apiExp? tok).map fun e => (Y.leaf e, rest)
def parseYMap : Nat → List String → List (String × Y) → Option (List (String × Y) × List String)
  | 0, _, _ => none
  | _ + 1, [], _ => none
  | f + 1, tok :: rest, acc =>
    if tok = "}" then some (acc.reverse, rest)
    else
      match tok.toList with
      | 'k' :: kr =>
        match apiStr? (String.ofList kr), parseY f rest with
        | some k, some (y, r) => parseYMap f r ((k, y) :: acc)
        | _, _ => none
      | _ => none
end

def parseMarginEntries : List String → Margins → Option (Margins × List String)
  | [], _ => none
  | [_], _ => none
  | tok :: v :: rest, m =>
    if tok = "}" then some (m, v :: rest)
    else
      match tok.toList with
      | 'k' :: kr =>
        match apiStr? (String.ofList kr), (if v = "~" then some none else (apiRat? v).map some) with
        | some k, some q =>
          if k = "default" then parseMarginEntries rest { m with default := some q }
          else parseMarginEntries rest { m with per := m.per ++ [(k, q)] }
        | _, _ => none
      | _ => none

def parseMargins : List String → Option (Margins × List String)
  | [] => none
  | tok :: rest =>
    if tok = "~" then some (⟨some none, []⟩, rest)
    else if tok = "{" then
      match rest with
      | ["}"] => some (⟨none, []⟩, [])
      | "}" :: r => some (⟨none, []⟩, r)
      | _ => parseMarginEntries rest ⟨none, []⟩
    else
      match tok.toList with
      | 'd' :: r => (apiRat? (String.ofList r)).map fun q => (⟨some (some q), []⟩, rest)
      | _ => none

/-- options `N <var>* ;` (only_variables) and `G <var>* ;` (ignore_variables), then the output -/
def parseTestTail : Nat → List String → YTest → Option YTest
  | 0, _, _ => none
  | f + 1, toks, t =>
    match toks with
    | ["o~"] => some { t with output := none }
    | "o" :: r3 =>
      match parseY (r3.length + 1) r3 with
      | some (Y.map kvs, []) => some { t with output := some kvs }
      | _ => none
    | "N" :: r =>
      let (body, r') := splitSemi r
      match body.mapM apiStr? with
      | some vs => parseTestTail f r' { t with only := some vs }
      | none => none
    | "G" :: r =>
      let (body, r') := splitSemi r
      match body.mapM apiStr? with
      | some vs => parseTestTail f r' { t with ignore := some vs }
      | none => none
    | _ => none

def parseTest (toks : List String) : Option YTest :=
  match toks with
  | ptok :: "a" :: r =>
    let per? : Option (Option String) :=
      match ptok.toList with
      | ['p', '~'] => some none
      | 'p' :: pr => (apiStr? (String.ofList pr)).map some
      | _ => none
    match per?, parseMargins r with
    | some per, some (am, "r" :: r2) =>
      match parseMargins r2 with
      | some (rm, r3) => parseTestTail (r3.length + 1) r3 { period := per, absM := am, relM := rm, output := none }
      | none => none
    | _, _ => none
  | _ => none

/-- `api near <type> <val>* ; <target> a <margin> r <margin>`: a direct call of `assert_near` -/
def answerNear (toks : List String) : Option String :=
  match toks with
  | ty :: r =>
    let (body, r') := splitSemi r
    match apiVType? ty, body.mapM apiVal? with
    | some ty, some vs =>
      match parseY (r'.length + 1) r' with
      | some (y, ["a", a, "r", rr]) =>
        let m? (t : String) : Option (Option Rat) := if t = "~" then some none else (apiRat? t).map some
        let tg? : Option Target := match y with
          | .leaf e => some (.scalar e)
          | .list es => some (.list es)
          | .map _ => none
        match tg?, m? a, m? rr with
        | some tg, some a, some rr => some (if assertNear ty vs tg a rr then "PASS" else "FAIL")
        | _, _, _ => none
      | _ => none
    | _, _ => none
  | [] => none

def answerYamlBlock (toks : List String) : Option String :=
  match parseWorld (toks.length + 1) toks {} with
  | some (w, "Y" :: r) =>
    (parseTest r).map fun t =>
      if verdict (if w.accepts then .ok w.sim else .error "refused") t then "PASS" else "FAIL"
  | _ => none

/-! ### listings -/

def apiList (tok : String) : List String := if tok = "-" then [] else tok.splitOn ","

def apiPVal? (t : String) : Option (Option J) :=
  if t = "n" then some none else (apiScalar? t).map some

def apiShowPVal : Option J → String
  | none => "n"
  | some j => " ".intercalate (showJ j)

def apiEntry? (t : String) : Option (Param.Entry J) :=
  match t.splitOn ":" with
  | [d, v] => do pure ⟨← d.toInt?, ← apiPVal? v⟩
  | _ => none

def insertByDate {α : Type} (x : Int × α) : List (Int × α) → List (Int × α)
  | [] => [x]
  | y :: r => if x.1 < y.1 then x :: y :: r else y :: insertByDate x r

def sortByDate {α : Type} (l : List (Int × α)) : List (Int × α) := l.foldl (fun acc x => insertByDate x acc) []

def apiShowList (xs : List String) : String := if xs.isEmpty then "-" else ",".intercalate xs

def apiQ? (t : String) : Option Rat :=
  match apiScalar? t with
  | some (.int n) => some n
  | some (.num q) => some q
  | _ => none

def apiQEntry? (t : String) : Option (Int × Option Rat) :=
  match t.splitOn ":" with
  | [d, v] => do pure (← d.toInt?, ← (if v = "n" then some none else (apiQ? v).map some))
  | _ => none

def apiBracket? (t : String) : Option ApiBracket :=
  match t.splitOn "~" with
  | [th, vs] => do pure ⟨← (apiList th).mapM apiQEntry?, ← (apiList vs).mapM apiQEntry?⟩
  | _ => none

def showQ (q : Rat) : String := s!"{q.num}/{q.den}"

def insertByThr {α : Type} (x : Rat × α) : List (Rat × α) → List (Rat × α)
  | [] => [x]
  | y :: r => if x.1 < y.1 then x :: y :: r else y :: insertByThr x r

def sortByThr {α : Type} (l : List (Rat × α)) : List (Rat × α) := l.foldl (fun acc x => insertByThr x acc) []

def showRow (row : List (Rat × Option Rat)) : String :=
  if row.isEmpty then "-" else
  "/".intercalate ((sortByThr row).map fun (t, v) => showQ t ++ ">" ++ (match v with | some x => showQ x | none => "n"))

def handleApi (args : List String) : String :=
  match args with
  | "calc" :: r =>
    match parseRequest r with
    | some (w, j) => answerCalc w j
    | none => "BAD"
  | "trace" :: r =>
    match parseRequest r with
    | some (w, j) => answerTrace w j
    | none => "BAD"
  | "seq" :: r =>
    match (splitBlocks r).mapM answerSeqBlock with
    | some as => " ;; ".intercalate as
    | none => "BAD"
  | "yaml" :: r =>
    match (splitBlocks r).mapM answerYamlBlock with
    | some as => " ".intercalate as
    | none => "BAD"
  | "near" :: r =>
    match answerNear r with
    | some a => a
    | none => "BAD"
  | ["phist", hist, probes] =>
    match (apiList hist).mapM apiEntry?, (apiList probes).mapM String.toInt? with
    | some l, some ps =>
      let served := servedHistory l
      let shown := (sortByDate served).map fun (d, v) => s!"{d}:{apiShowPVal v}"
      let atp := ps.map fun d => apiShowPVal (apiGetValue d served)
      s!"{apiShowList shown} | {apiShowList atp}"
    | _, _ => "BAD"
  | ["vforms", starts, stop, probes] =>
    match (apiList starts).mapM String.toInt?, (if stop = "-" then some none else stop.toInt?.map some),
        (apiList probes).mapM String.toInt? with
    | some ss, some e, some ps =>
      let served := servedFormulas (ss.map fun s => (s, s)) e
      let shown := (sortByDate served).map fun (d, v) => s!"{d}:{if v.isSome then "F" else "n"}"
      let atp := ps.map fun d => match apiFormulaAt d served with
        | some s => toString s
        | none => "-"
      s!"{apiShowList shown} | {apiShowList atp}"
    | _, _, _ => "BAD"
  | ["scale", brackets, probes] =>
    match (if brackets = "-" then some [] else (brackets.splitOn ";").mapM apiBracket?), (apiList probes).mapM String.toInt? with
    | some brs, some ps =>
      let served := buildApiScale brs
      let shown := (sortByDate served).map fun (d, row) => s!"{d}=" ++ (match row with | some r => showRow r | none => "n")
      let atp := ps.map fun d => match apiGetValue d served with
        | some r => showRow ((r.filterMap (fun tv => tv.2.map (fun v => (tv.1, some v)))))
        | none => "n"
      s!"{apiShowList shown} | {apiShowList atp}"
    | _, _ => "BAD"
  | "params" :: r =>
    match parseJ (r.length + 1) r with
    | some (j, []) =>
      let ids := (listedParameters "" j).map fun s => (s, ())
      apiShowList ((sortKeys ids).map fun (s, _) => apiHex s)
    | _ => "BAD"
  | ["echo", t] => t
  | _ => "BAD"

end OFCore.Drv
