/-! Line protocol handler for the `api` domain (stub until the model exists). -/
namespace OFCore.Drv
def handleApi (_args : List String) : String := "BAD"
end OFCore.Drv
