/-! Generic line-protocol loop: one request per line on stdin, one canonical answer per line. -/
namespace OFCore.Drv

def fields (line : String) : List String :=
  (line.trimAscii.toString.splitOn " ").filter (· ≠ "")

partial def loop (handle : List String → String) (h out : IO.FS.Stream) : IO Unit := do
  let line ← h.getLine
  if line.isEmpty then return ()
  match fields line with
  | [] => out.putStrLn "-"
  | f :: args => if f.startsWith "#" then out.putStrLn "-" else out.putStrLn (handle (f :: args))
  loop handle h out

def runLoop (handle : List String → String) : IO Unit := do
  let out ← IO.getStdout
  loop handle (← IO.getStdin) out
  out.flush

end OFCore.Drv
