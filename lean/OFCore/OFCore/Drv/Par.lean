/-! Line protocol handler for the `par` domain (stub until the model exists). -/
namespace OFCore.Drv
def handlePar (_args : List String) : String := "BAD"
end OFCore.Drv
