import OFCore.Param
/-! Line protocol for the `par` domain (dated parameters, property C06). Mathlib-free.

```
par p <entries> <updates> <queries>
    -> <stage>|<stage>|…          one stage for the initial state and one per update
       stage = <ord>=<val>,…@<read>,<read>,…   (values_list in list order @ value at each query day)
             | ERR                               (the update call raised; state unchanged)
par t <updates> <queries> <tree…>
    -> <stage>|…   stage = <snap>;<snap>;…  (one snapshot per query day) | ERR
par h <entries> <ops> <queries>               histories over several Parameter objects
par ht <ops> <queries> <tree…>                histories over several trees
    ops = <op>;…   op = c<src>                 (object <src>.clone(): a new object, numbered next)
                      | u<obj>:<upd>           (an update addressed to object <obj>)
                      | r<obj>                 (read object <obj> at every query day)
    -> one item per op, joined by `|`: c | u | ERR (refused call) | <stage>
    in `ht` lines <child> is a child name of a node or <i>.<field> of a scale
    (field = threshold | rate | amount | average_rate)
par y <root> <updates> <queries> <data…>      an object built from YAML-like data by `helpers._parse_child(root, data, …)`
    root = - | <name>       data = ~ (null) | b:T | b:F | v:<number> | s:<text> | L<n> <data>×n | M<n> (<key> <data>)×n
    key  = d<ord>~<text> | m<ord>~<text> | y<ord>~<text>   a text matching INSTANT_PATTERN (full / YYYY-MM / YYYY; ord of its first day)
         | k:<text> (any other text) | i:<int> (an integer key)
    -> ERR (the construction raised) | UNSUP (a bracket field that is not a numeric parameter)
     | P|<stage>|…           a Parameter: values_list (short keys print as <ord>m / <ord>y) @ reads, one stage per update
     | T|<snap>;…|D:<name>,… anything else: one snapshot per query day (a node lists after its members the declared
                             children it does not expose, `!(<child>><name the error carries>,…)`), then the names of
                             `get_descendants()`
par d <root> <queries> <dir…>                 a ParameterNode built by `ParameterNode(root, directory_path=…)`
    dir = D<n> <entry>×n (listing order)   entry = F:<file name> <data> | S:<directory name> <dir>
    -> ERR | UNSUP | T|<snap>;…|D:<name>,…   as for `par y`
entries  = - | <ord>:<val>,…            in declaration order; val = <token> | null | expected
updates  = - | <upd>;…                  upd = [<child>:]<form>:<a>:<b|->:<val|null>
           form = period | range | open (accepted) | both | pstop | nostart (refused by the code)
                | add (with a child name: `node.add_child(child, Parameter(…, {a: val}))`, b = -)
queries  = <lo>..<hi> | <ord> , …
tree     = P <entries> | S <0|1> <n> (<thr> <rate> <amount> <avg>)×n | N <n> (<name> <tree>)×n
snap     = none | <token> | <kind>[<t>:<x>,…] | {<name>=<snap>,…}
```
Parameter values are opaque tokens (the model is polymorphic in the value type); scale values are
exact rationals `p/q`. -/
namespace OFCore.Drv
open OFCore.Param

/-! ### parsing -/

def parseRat? (s : String) : Option Rat :=
  match s.splitOn "/" with
  | [p] => p.toInt?.map (fun n => (n : Rat))
  | [p, q] => do
    let n ← p.toInt?
    let d ← q.toNat?
    if d = 0 then none else some (mkRat n d)
  | _ => none

def showRat (r : Rat) : String := if r.den = 1 then toString r.num else s!"{r.num}/{r.den}"

def allSome {α} : List (Option α) → Option (List α)
  | [] => some []
  | none :: _ => none
  | some a :: r => (allSome r).map (a :: ·)

/-- `- | ord:val,…` with opaque value tokens -/
def parseItems? (s : String) : Option (List (Int × Item String)) :=
  if s = "-" then some [] else
  allSome ((s.splitOn ",").map fun f =>
    match f.splitOn ":" with
    | [d, v] => do
      let d ← d.toInt?
      if v = "expected" then pure (d, Item.expected)
      else if v = "null" then pure (d, Item.value none)
      else if v = "" then none else pure (d, Item.value (some v))
    | _ => none)

/-- the same with rational values (scale fields) -/
def parseRatItems? (s : String) : Option (List (Int × Item Rat)) := do
  let its ← parseItems? s
  allSome (its.map fun (d, it) =>
    match it with
    | .expected => some (d, Item.expected)
    | .value none => some (d, Item.value none)
    | .value (some v) => (parseRat? v).map fun r => (d, Item.value (some r)))

/-- an update call as the harness issues it -/
structure Call where
  child  : Option String
  period : Option (Int × Int)
  start  : Option Int
  stop   : Option Int
  v      : Option String
  add    : Bool                 -- not an update: `node.add_child(child, Parameter(…, {start: v}))`

def parseCall? (withChild : Bool) (s : String) : Option Call := do
  let fs := s.splitOn ":"
  let (child, fs) ← (if withChild then
      match fs with | c :: r => some (some c, r) | [] => none
    else some (none, fs))
  match fs with
  | [form, a, b, v] =>
    let a ← a.toInt?
    let b ← (if b = "-" then some none else b.toInt?.map some)
    let v ← (if v = "null" then some none else if v = "" then none else some (some v))
    match form, b with
    | "period", some b => pure ⟨child, some (a, b), none, none, v, false⟩
    | "range", some b => pure ⟨child, none, some a, some b, v, false⟩
    | "open", none => pure ⟨child, none, some a, none, v, false⟩
    | "both", some b => pure ⟨child, some (a, b), some a, none, v, false⟩
    | "pstop", some b => pure ⟨child, some (a, b), none, some b, v, false⟩
    | "nostart", b => pure ⟨child, none, none, b, v, false⟩
    | "add", none => if withChild then pure ⟨child, none, some a, none, v, true⟩ else none
    | _, _ => none
  | _ => none

def parseCalls? (withChild : Bool) (s : String) : Option (List Call) :=
  if s = "-" then some [] else allSome ((s.splitOn ";").map (parseCall? withChild))

def rangeInts (lo hi : Int) : List Int :=
  (List.range (hi - lo + 1).toNat).map (fun (i : Nat) => lo + Int.ofNat i)

def parseQueries? (s : String) : Option (List Int) := do
  let parts ← allSome ((s.splitOn ",").map fun f =>
    match f.splitOn ".." with
    | [x] => x.toInt?.map ([·])
    | [lo, hi] => do
      let lo ← lo.toInt?
      let hi ← hi.toInt?
      if hi - lo > 100000 then none else pure (rangeInts lo hi)
    | _ => none)
  pure parts.flatten

/-- prefix-notation tree; returns the tree and the unread tokens -/
partial def parseTree? : List String → Option (PNode String × List String)
  | "P" :: e :: rest => do
    let its ← parseItems? e
    pure (.param (ofData its), rest)
  | "S" :: m :: n :: rest => do
    let m ← (if m = "1" then some true else if m = "0" then some false else none)
    let n ← n.toNat?
    let rec brs : Nat → List String → Option (List Bracket × List String)
      | 0, toks => some ([], toks)
      | k + 1, t :: r :: a :: v :: toks => do
        let t ← parseRatItems? t
        let r ← parseRatItems? r
        let a ← parseRatItems? a
        let v ← parseRatItems? v
        let (bs, toks) ← brs k toks
        pure (⟨ofData t, ofData r, ofData a, ofData v⟩ :: bs, toks)
      | _, _ => none
    let (bs, rest) ← brs n rest
    pure (.scale m bs, rest)
  | "N" :: n :: rest => do
    let n ← n.toNat?
    let rec kids : Nat → List String → Option (List (String × PNode String) × List String)
      | 0, toks => some ([], toks)
      | k + 1, name :: toks => do
        let (c, toks) ← parseTree? toks
        let (cs, toks) ← kids k toks
        pure ((name, c) :: cs, toks)
      | _, _ => none
    let (cs, rest) ← kids n rest
    pure (.node cs, rest)
  | _ => none

/-- rebuild every node of a parsed tree through the model's `add_child` (a repeated child name
    is refused, as the code does on every construction route) -/
partial def viaAddChild : PNode String → Except String (PNode String)
  | .node cs => do
    let cs' ← cs.mapM fun (k, c) => do pure (k, ← viaAddChild c)
    let merged ← mergeChildren [] cs'
    pure (.node merged)
  | t => .ok t

/-! ### printing -/

def showVal : Option String → String
  | some v => v | none => "none"

def showEntries (l : List (Entry String)) : String :=
  ",".intercalate (l.map fun e => s!"{e.date}={match e.val with | some v => v | none => "null"}")

def showScale (s : ScaleAt) : String :=
  s.kind.name ++ "[" ++ ",".intercalate (s.rows.map fun (t, x) => s!"{showRat t}:{showRat x}") ++ "]"

partial def showSnap : Snap String → String
  | .val v => v
  | .scale s => showScale s
  | .node cs => "{" ++ ",".intercalate (cs.map fun (k, s) => s!"{k}={showSnap s}") ++ "}"

def showOptSnap : Option (Snap String) → String
  | some s => showSnap s | none => "none"

/-! ### the two line kinds -/

def stageP (l : List (Entry String)) (qs : List Int) : String :=
  showEntries l ++ "@" ++ ",".intercalate (qs.map fun d => showVal (pget l d))

def runP (l : List (Entry String)) (calls : List Call) (qs : List Int) : List String :=
  match calls with
  | [] => []
  | c :: rest =>
    match updateCall l c.period c.start c.stop c.v with
    | .ok l' => stageP l' qs :: runP l' rest qs
    | .error _ => "ERR" :: runP l rest qs

def stageT (t : PNode String) (qs : List Int) : String :=
  ";".intercalate (qs.map fun d => showOptSnap (t.atInstant d))

/-- an update addressed to a direct child of the top node (which must be a parameter) -/
def updTree (t : PNode String) (c : Call) : Option (Except String (PNode String)) :=
  match t, c.child with
  | .node cs, some name =>
    if c.add then
      match c.start with
      | some a => some ((addChild cs name (.param [⟨a, c.v⟩])).map .node)
      | none => none
    else
    match cs.lookup name with
    | some (.param l) =>
      match updateCall l c.period c.start c.stop c.v with
      | .ok l' => some (.ok (.node (cs.map fun (k, x) => if k = name then (k, .param l') else (k, x))))
      | .error e => some (.error e)
    | some (.scale _ _) => none
    | some (.node _) => none
    | none => some (.error "no such child")       -- `node.children[name]` / `node.name` raises
  | _, _ => none

/-- `scale.brackets[i].children[field].update(…)` -/
def updBracket (b : Bracket) (field : String) (c : Call) : Option (Except String Bracket) := do
  let v ← (match c.v with
    | none => some none
    | some s => (parseRat? s).map some)
  let run := fun (l : List (Entry Rat)) => updateCall l c.period c.start c.stop v
  match field with
  | "threshold" => pure ((run b.threshold).map fun l => { b with threshold := l })
  | "rate" => pure ((run b.rate).map fun l => { b with rate := l })
  | "amount" => pure ((run b.amount).map fun l => { b with amount := l })
  | "average_rate" => pure ((run b.averageRate).map fun l => { b with averageRate := l })
  | _ => none

/-- an update addressed to a tree: a parameter child of a node, a bracket field of a scale, or
    (no child) a parameter itself; `none` = the line is malformed -/
def updAny (t : PNode String) (c : Call) : Option (Except String (PNode String)) :=
  match t, c.child with
  | .node _, some _ => updTree t c
  | .scale m bs, some addr =>
    if c.add then none else
    match addr.splitOn "." with
    | [i, field] => do
      let i ← i.toNat?
      let b ← bs[i]?
      let r ← updBracket b field c
      pure (r.map fun b' => .scale m (bs.set i b'))
    | _ => none
  | .param l, some "-" =>
    if c.add then none else
    some ((updateCall l c.period c.start c.stop c.v).map .param)
  | _, _ => none

/-- history operations as they travel on the line -/
inductive Op where
  | clone (src : Nat)
  | upd (obj : Nat) (c : Call)
  | read (obj : Nat)

def parseOp? (withChild : Bool) (s : String) : Option Op :=
  match s.toList with
  | 'c' :: r => (String.ofList r).toNat?.map .clone
  | 'r' :: r => (String.ofList r).toNat?.map .read
  | 'u' :: r =>
    match (String.ofList r).splitOn ":" with
    | i :: rest => do
      let i ← i.toNat?
      let c ← parseCall? withChild (":".intercalate rest)
      pure (.upd i c)
    | [] => none
  | _ => none

def parseOps? (withChild : Bool) (s : String) : Option (List Op) :=
  allSome ((s.splitOn ";").map (parseOp? withChild))

/-- run a history with the model's `runOp`; `apply` = one update call on one object
    (`none` = malformed, `.error` = the call is refused), `stage` = what a read prints -/
def runHist {σ : Type} (apply : σ → Call → Option (Except String σ)) (stage : σ → String)
    (st : List σ) : List Op → Option (List String)
  | [] => some []
  | .clone s :: rest =>
    if s < st.length then (runHist apply stage (runOp (fun x (_ : Unit) => x) st (.clone s)) rest).map ("c" :: ·)
    else none
  | .read i :: rest =>
    match st[i]? with
    | some x => (runHist apply stage st rest).map (stage x :: ·)
    | none => none
  | .upd i c :: rest =>
    match st[i]? with
    | none => none
    | some x =>
      match apply x c with
      | none => none
      | some (.error _) => (runHist apply stage st rest).map ("ERR" :: ·)
      | some (.ok _) =>
        let f := fun (y : σ) (c : Call) => match apply y c with | some (.ok y') => y' | _ => y
        (runHist apply stage (runOp f st (.upd i c)) rest).map ("u" :: ·)

def runT (t : PNode String) (calls : List Call) (qs : List Int) : Option (List String) :=
  match calls with
  | [] => some []
  | c :: rest =>
    match updTree t c with
    | none => none
    | some (.ok t') => (runT t' rest qs).map (stageT t' qs :: ·)
    | some (.error _) => (runT t rest qs).map ("ERR" :: ·)

/-! ### `par y`: construction from YAML-like data -/

def allDigits (cs : List Char) : Bool := cs.all Char.isDigit

def parseYKey? (tok : String) : Option YKey :=
  if tok.startsWith "k:" then
    let t := (tok.drop 2).toString
    if t = "" then none
    else if t.length ≥ 4 && allDigits (t.toList.take 4) then none      -- would match (or resemble) INSTANT_PATTERN
    else some (.name t)
  else if tok.startsWith "i:" then (tok.drop 2).toString.toInt?.map .int
  else
    match tok.splitOn "~" with
    | [k, text] =>
      if text = "" then none else
      match k.toList with
      | 'd' :: r => (String.ofList r).toInt?.map fun o => .date o .day text
      | 'm' :: r => (String.ofList r).toInt?.map fun o => .date o .month text
      | 'y' :: r => (String.ofList r).toInt?.map fun o => .date o .year text
      | _ => none
    | _ => none

def isScalarY : Y → Bool
  | .null => true | .bool _ => true | .num _ => true
  | .str _ => false | .list _ => false | .map _ => false

def isMapY : Y → Bool
  | .map _ => true
  | .null => false | .bool _ => false | .num _ => false | .str _ => false | .list _ => false

def keysDistinct : List String → Bool
  | [] => true
  | k :: r => !r.contains k && keysDistinct r

/-- the fragment of data both sides agree to talk about: keys distinct as texts (the YAML loader
    refuses `2:` beside `"2":`); a list is a list of mappings or of
    numbers / booleans / nulls; `metadata` is neither a list nor the empty text -/
def okMap (kvs : List (YKey × Y)) : Bool :=
  keysDistinct (kvs.map (·.1.text)) &&
  (match lookupName kvs "metadata" with
   | some (.list _) => false
   | some (.str t) => t != ""
   | _ => true)

partial def parseY? : List String → Option (Y × List String)
  | [] => none
  | tok :: rest =>
    if tok = "~" then some (.null, rest)
    else if tok = "b:T" then some (.bool true, rest)
    else if tok = "b:F" then some (.bool false, rest)
    else if tok.startsWith "v:" then
      let t := (tok.drop 2).toString
      match parseRat? t with
      | some r => if showRat r = t then some (.num t, rest) else none
      | none => none
    else if tok.startsWith "s:" then some (.str (tok.drop 2).toString, rest)
    else match tok.toList with
      | 'L' :: n => do
        let n ← (String.ofList n).toNat?
        let rec items : Nat → List String → Option (List Y × List String)
          | 0, toks => some ([], toks)
          | k + 1, toks => do
            let (y, toks) ← parseY? toks
            let (ys, toks) ← items k toks
            pure (y :: ys, toks)
        let (ys, rest) ← items n rest
        if ys.all isMapY || ys.all isScalarY then pure (.list ys, rest) else none
      | 'M' :: n => do
        let n ← (String.ofList n).toNat?
        let rec pairs : Nat → List String → Option (List (YKey × Y) × List String)
          | 0, toks => some ([], toks)
          | k + 1, key :: toks => do
            let key ← parseYKey? key
            let (y, toks) ← parseY? toks
            let (ps, toks) ← pairs k toks
            pure ((key, y) :: ps, toks)
          | _, [] => none
        let (kvs, rest) ← pairs n rest
        if okMap kvs then pure (.map kvs, rest) else none
      | _ => none

/-- values_list in ticks: `<ord>`, `<ord>m`, `<ord>y` -/
def showFineEntries (l : List (Entry String)) : String :=
  ",".intercalate (l.map fun e =>
    let o := (e.date + 2) / 3
    let r := e.date - 3 * o
    let suffix := if r = 0 then "" else if r = -1 then "m" else "y"
    s!"{o}{suffix}={match e.val with | some v => v | none => "null"}")

def stagePF (l : List (Entry String)) (qs : List Int) : String :=
  showFineEntries l ++ "@" ++ ",".intercalate (qs.map fun d => showVal (pget l (3 * d)))

def runPF (l : List (Entry String)) (calls : List Call) (qs : List Int) : List String :=
  match calls with
  | [] => []
  | c :: rest =>
    match updateCallFine l c.period c.start c.stop c.v with
    | .ok l' => stagePF l' qs :: runPF l' rest qs
    | .error _ => "ERR" :: runPF l rest qs

/-- a node at tick `d`: its members, then the declared children it does not expose with the name the
    error carries -/
partial def showNodeAt (name : String) (cs : List (String × PNode String)) (d : Int) : String :=
  let mem := cs.filterMap fun (k, c) =>
    match c with
    | .param l => (pget l d).map (fun v => k ++ "=" ++ v)
    | .scale m bs => some (k ++ "=" ++ showScale (scaleAt m bs d))
    | .node cs' => some (k ++ "=" ++ showNodeAt (composeChild name k) cs' d)
  let ab := absentAt name cs d
  "{" ++ ",".intercalate mem ++ "}" ++
    (if ab.isEmpty then "" else "!(" ++ ",".intercalate (ab.map fun (k, n) => k ++ ">" ++ n) ++ ")")

def showTopAt (name : String) (t : PNode String) (d : Int) : String :=
  match t with
  | .param l => showVal (pget l d)
  | .scale m bs => showScale (scaleAt m bs d)
  | .node cs => showNodeAt name cs d

def handleParY (root us qs : String) (toks : List String) : String :=
  match parseCalls? false us, parseQueries? qs, parseY? toks with
  | some calls, some qs, some (y, []) =>
    let name := if root = "-" then "" else root
    match parseChild parseRat? y with
    | .error e => if e = "UNSUP" then "UNSUP" else "ERR"
    | .ok (.param l) => "|".intercalate ("P" :: stagePF l qs :: runPF l calls qs)
    | .ok t =>
      if !calls.isEmpty then "BAD" else
      "T|" ++ ";".intercalate (qs.map fun d => showTopAt name t (3 * d)) ++ "|D:" ++ ",".intercalate (t.descNames name)
  | _, _, _ => "BAD"

/-! ### `par d`: construction from a directory -/

/-- `os.path.splitext` for a name that does not start with a dot -/
def splitExt (name : String) : String × String :=
  let cs := name.toList
  match (cs.reverse.takeWhile (· != '.')).length with
  | n => if n = cs.length then (name, "") else (String.ofList (cs.take (cs.length - n - 1)), String.ofList (cs.drop (cs.length - n - 1)))

def entName : DirEnt → String
  | .file stem ext _ => stem ++ ext
  | .dir name _ => name

partial def parseDir? : List String → Option (List DirEnt × List String)
  | [] => none
  | tok :: rest =>
    match tok.toList with
    | 'D' :: n => do
      let n ← (String.ofList n).toNat?
      let rec ents : Nat → List String → Option (List DirEnt × List String)
        | 0, toks => some ([], toks)
        | _ + 1, [] => none
        | k + 1, e :: toks =>
          if e.startsWith "F:" then do
            let name := (e.drop 2).toString
            if name = "" || name.startsWith "." then none else
            let (y, toks) ← parseY? toks
            let (es, toks) ← ents k toks
            let (stem, ext) := splitExt name
            pure (.file stem ext y :: es, toks)
          else if e.startsWith "S:" then do
            let name := (e.drop 2).toString
            if name = "" || name.startsWith "." then none else
            let (sub, toks) ← parseDir? toks
            let (es, toks) ← ents k toks
            pure (.dir name sub :: es, toks)
          else none
      let (es, rest) ← ents n rest
      if keysDistinct (es.map entName) then pure (es, rest) else none
    | _ => none

def handleParD (root qs : String) (toks : List String) : String :=
  match parseQueries? qs, parseDir? toks with
  | some qs, some (es, []) =>
    let name := if root = "-" then "" else root
    match buildDir parseRat? es [] with
    | .error e => if e = "UNSUP" then "UNSUP" else "ERR"
    | .ok cs =>
      let t : PNode String := .node cs
      "T|" ++ ";".intercalate (qs.map fun d => showTopAt name t (3 * d)) ++ "|D:" ++ ",".intercalate (t.descNames name)
  | _, _ => "BAD"

def handlePar (args : List String) : String :=
  match args with
  | ["p", es, us, qs] =>
    match parseItems? es, parseCalls? false us, parseQueries? qs with
    | some its, some calls, some qs =>
      let l := ofData its
      "|".intercalate (stageP l qs :: runP l calls qs)
    | _, _, _ => "BAD"
  | "t" :: us :: qs :: toks =>
    match parseCalls? true us, parseQueries? qs, parseTree? toks with
    | some calls, some qs, some (t, []) =>
      match viaAddChild t with
      | .error _ => "ERR"
      | .ok t =>
        match runT t calls qs with
        | some stages => "|".intercalate (stageT t qs :: stages)
        | none => "BAD"
    | _, _, _ => "BAD"
  | "y" :: root :: us :: qs :: toks => handleParY root us qs toks
  | "d" :: root :: qs :: toks => handleParD root qs toks
  | ["h", es, ops, qs] =>
    match parseItems? es, parseOps? false ops, parseQueries? qs with
    | some its, some ops, some qs =>
      let apply := fun (l : List (Entry String)) (c : Call) =>
        some (updateCall l c.period c.start c.stop c.v)
      match runHist apply (fun l => stageP l qs) [ofData its] ops with
      | some items => "|".intercalate items
      | none => "BAD"
    | _, _, _ => "BAD"
  | "ht" :: ops :: qs :: toks =>
    match parseOps? true ops, parseQueries? qs, parseTree? toks with
    | some ops, some qs, some (t, []) =>
      match viaAddChild t with
      | .error _ => "ERR"
      | .ok t =>
        match runHist updAny (fun t => stageT t qs) [t] ops with
        | some items => "|".intercalate items
        | none => "BAD"
    | _, _, _ => "BAD"
  | _ => "BAD"

end OFCore.Drv
