import OFCore.Param
/-! Line protocol for the `par` domain (dated parameters, property C06). Mathlib-free.

```
par p <entries> <updates> <queries>
    -> <stage>|<stage>|…          one stage for the initial state and one per update
       stage = <ord>=<val>,…@<read>,<read>,…   (values_list in list order @ value at each query day)
             | ERR                               (the update call raised; state unchanged)
par t <updates> <queries> <tree…>
    -> <stage>|…   stage = <snap>;<snap>;…  (one snapshot per query day) | ERR
par h <entries> <ops> <queries>               histories over several Parameter objects
par ht <ops> <queries> <tree…>                histories over several trees
    ops = <op>;…   op = c<src>                 (object <src>.clone(): a new object, numbered next)
                      | u<obj>:<upd>           (an update addressed to object <obj>)
                      | r<obj>                 (read object <obj> at every query day)
    -> one item per op, joined by `|`: c | u | ERR (refused call) | <stage>
    in `ht` lines <child> is a child name of a node or <i>.<field> of a scale
    (field = threshold | rate | amount | average_rate)
entries  = - | <ord>:<val>,…            in declaration order; val = <token> | null | expected
updates  = - | <upd>;…                  upd = [<child>:]<form>:<a>:<b|->:<val|null>
           form = period | range | open (accepted) | both | pstop | nostart (refused by the code)
queries  = <lo>..<hi> | <ord> , …
tree     = P <entries> | S <0|1> <n> (<thr> <rate> <amount> <avg>)×n | N <n> (<name> <tree>)×n
snap     = none | <token> | <kind>[<t>:<x>,…] | {<name>=<snap>,…}
```
Parameter values are opaque tokens (the model is polymorphic in the value type); scale values are
exact rationals `p/q`. -/
namespace OFCore.Drv
open OFCore.Param

/-! ### parsing -/

def parseRat? (s : String) : Option Rat :=
  match s.splitOn "/" with
  | [p] => p.toInt?.map (fun n => (n : Rat))
  | [p, q] => do
    let n ← p.toInt?
    let d ← q.toNat?
    if d = 0 then none else some (mkRat n d)
  | _ => none

def showRat (r : Rat) : String := if r.den = 1 then toString r.num else s!"{r.num}/{r.den}"

def allSome {α} : List (Option α) → Option (List α)
  | [] => some []
  | none :: _ => none
  | some a :: r => (allSome r).map (a :: ·)

/-- `- | ord:val,…` with opaque value tokens -/
def parseItems? (s : String) : Option (List (Int × Item String)) :=
  if s = "-" then some [] else
  allSome ((s.splitOn ",").map fun f =>
    match f.splitOn ":" with
    | [d, v] => do
      let d ← d.toInt?
      if v = "expected" then pure (d, Item.expected)
      else if v = "null" then pure (d, Item.value none)
      else if v = "" then none else pure (d, Item.value (some v))
    | _ => none)

/-- the same with rational values (scale fields) -/
def parseRatItems? (s : String) : Option (List (Int × Item Rat)) := do
  let its ← parseItems? s
  allSome (its.map fun (d, it) =>
    match it with
    | .expected => some (d, Item.expected)
    | .value none => some (d, Item.value none)
    | .value (some v) => (parseRat? v).map fun r => (d, Item.value (some r)))

/-- an update call as the harness issues it -/
structure Call where
  child  : Option String
  period : Option (Int × Int)
  start  : Option Int
  stop   : Option Int
  v      : Option String

def parseCall? (withChild : Bool) (s : String) : Option Call := do
  let fs := s.splitOn ":"
  let (child, fs) ← (if withChild then
      match fs with | c :: r => some (some c, r) | [] => none
    else some (none, fs))
  match fs with
  | [form, a, b, v] =>
    let a ← a.toInt?
    let b ← (if b = "-" then some none else b.toInt?.map some)
    let v ← (if v = "null" then some none else if v = "" then none else some (some v))
    match form, b with
    | "period", some b => pure ⟨child, some (a, b), none, none, v⟩
    | "range", some b => pure ⟨child, none, some a, some b, v⟩
    | "open", none => pure ⟨child, none, some a, none, v⟩
    | "both", some b => pure ⟨child, some (a, b), some a, none, v⟩
    | "pstop", some b => pure ⟨child, some (a, b), none, some b, v⟩
    | "nostart", b => pure ⟨child, none, none, b, v⟩
    | _, _ => none
  | _ => none

def parseCalls? (withChild : Bool) (s : String) : Option (List Call) :=
  if s = "-" then some [] else allSome ((s.splitOn ";").map (parseCall? withChild))

def rangeInts (lo hi : Int) : List Int :=
  (List.range (hi - lo + 1).toNat).map (fun (i : Nat) => lo + Int.ofNat i)

def parseQueries? (s : String) : Option (List Int) := do
  let parts ← allSome ((s.splitOn ",").map fun f =>
    match f.splitOn ".." with
    | [x] => x.toInt?.map ([·])
    | [lo, hi] => do
      let lo ← lo.toInt?
      let hi ← hi.toInt?
      if hi - lo > 100000 then none else pure (rangeInts lo hi)
    | _ => none)
  pure parts.flatten

/-- prefix-notation tree; returns the tree and the unread tokens -/
partial def parseTree? : List String → Option (PNode String × List String)
  | "P" :: e :: rest => do
    let its ← parseItems? e
    pure (.param (ofData its), rest)
  | "S" :: m :: n :: rest => do
    let m ← (if m = "1" then some true else if m = "0" then some false else none)
    let n ← n.toNat?
    let rec brs : Nat → List String → Option (List Bracket × List String)
      | 0, toks => some ([], toks)
      | k + 1, t :: r :: a :: v :: toks => do
        let t ← parseRatItems? t
        let r ← parseRatItems? r
        let a ← parseRatItems? a
        let v ← parseRatItems? v
        let (bs, toks) ← brs k toks
        pure (⟨ofData t, ofData r, ofData a, ofData v⟩ :: bs, toks)
      | _, _ => none
    let (bs, rest) ← brs n rest
    pure (.scale m bs, rest)
  | "N" :: n :: rest => do
    let n ← n.toNat?
    let rec kids : Nat → List String → Option (List (String × PNode String) × List String)
      | 0, toks => some ([], toks)
      | k + 1, name :: toks => do
        let (c, toks) ← parseTree? toks
        let (cs, toks) ← kids k toks
        pure ((name, c) :: cs, toks)
      | _, _ => none
    let (cs, rest) ← kids n rest
    pure (.node cs, rest)
  | _ => none

/-- rebuild every node of a parsed tree through the model's `add_child` (a repeated child name
    is refused, as the code does on every construction route) -/
partial def viaAddChild : PNode String → Except String (PNode String)
  | .node cs => do
    let cs' ← cs.mapM fun (k, c) => do pure (k, ← viaAddChild c)
    let merged ← mergeChildren [] cs'
    pure (.node merged)
  | t => .ok t

/-! ### printing -/

def showVal : Option String → String
  | some v => v | none => "none"

def showEntries (l : List (Entry String)) : String :=
  ",".intercalate (l.map fun e => s!"{e.date}={match e.val with | some v => v | none => "null"}")

def showScale (s : ScaleAt) : String :=
  s.kind.name ++ "[" ++ ",".intercalate (s.rows.map fun (t, x) => s!"{showRat t}:{showRat x}") ++ "]"

partial def showSnap : Snap String → String
  | .val v => v
  | .scale s => showScale s
  | .node cs => "{" ++ ",".intercalate (cs.map fun (k, s) => s!"{k}={showSnap s}") ++ "}"

def showOptSnap : Option (Snap String) → String
  | some s => showSnap s | none => "none"

/-! ### the two line kinds -/

def stageP (l : List (Entry String)) (qs : List Int) : String :=
  showEntries l ++ "@" ++ ",".intercalate (qs.map fun d => showVal (pget l d))

def runP (l : List (Entry String)) (calls : List Call) (qs : List Int) : List String :=
  match calls with
  | [] => []
  | c :: rest =>
    match updateCall l c.period c.start c.stop c.v with
    | .ok l' => stageP l' qs :: runP l' rest qs
    | .error _ => "ERR" :: runP l rest qs

def stageT (t : PNode String) (qs : List Int) : String :=
  ";".intercalate (qs.map fun d => showOptSnap (t.atInstant d))

/-- an update addressed to a direct child of the top node (which must be a parameter) -/
def updTree (t : PNode String) (c : Call) : Option (Except String (PNode String)) :=
  match t, c.child with
  | .node cs, some name =>
    match cs.lookup name with
    | some (.param l) =>
      match updateCall l c.period c.start c.stop c.v with
      | .ok l' => some (.ok (.node (cs.map fun (k, x) => if k = name then (k, .param l') else (k, x))))
      | .error e => some (.error e)
    | _ => none
  | _, _ => none

/-- `scale.brackets[i].children[field].update(…)` -/
def updBracket (b : Bracket) (field : String) (c : Call) : Option (Except String Bracket) := do
  let v ← (match c.v with
    | none => some none
    | some s => (parseRat? s).map some)
  let run := fun (l : List (Entry Rat)) => updateCall l c.period c.start c.stop v
  match field with
  | "threshold" => pure ((run b.threshold).map fun l => { b with threshold := l })
  | "rate" => pure ((run b.rate).map fun l => { b with rate := l })
  | "amount" => pure ((run b.amount).map fun l => { b with amount := l })
  | "average_rate" => pure ((run b.averageRate).map fun l => { b with averageRate := l })
  | _ => none

/-- an update addressed to a tree: a parameter child of a node, a bracket field of a scale, or
    (no child) a parameter itself; `none` = the line is malformed -/
def updAny (t : PNode String) (c : Call) : Option (Except String (PNode String)) :=
  match t, c.child with
  | .node _, some _ => updTree t c
  | .scale m bs, some addr =>
    match addr.splitOn "." with
    | [i, field] => do
      let i ← i.toNat?
      let b ← bs[i]?
      let r ← updBracket b field c
      pure (r.map fun b' => .scale m (bs.set i b'))
    | _ => none
  | .param l, some "-" =>
    some ((updateCall l c.period c.start c.stop c.v).map .param)
  | _, _ => none

/-- history operations as they travel on the line -/
inductive Op where
  | clone (src : Nat)
  | upd (obj : Nat) (c : Call)
  | read (obj : Nat)

def parseOp? (withChild : Bool) (s : String) : Option Op :=
  match s.toList with
  | 'c' :: r => (String.ofList r).toNat?.map .clone
  | 'r' :: r => (String.ofList r).toNat?.map .read
  | 'u' :: r =>
    match (String.ofList r).splitOn ":" with
    | i :: rest => do
      let i ← i.toNat?
      let c ← parseCall? withChild (":".intercalate rest)
      pure (.upd i c)
    | [] => none
  | _ => none

def parseOps? (withChild : Bool) (s : String) : Option (List Op) :=
  allSome ((s.splitOn ";").map (parseOp? withChild))

/-- run a history with the model's `runOp`; `apply` = one update call on one object
    (`none` = malformed, `.error` = the call is refused), `stage` = what a read prints -/
def runHist {σ : Type} (apply : σ → Call → Option (Except String σ)) (stage : σ → String)
    (st : List σ) : List Op → Option (List String)
  | [] => some []
  | .clone s :: rest =>
    if s < st.length then (runHist apply stage (runOp (fun x (_ : Unit) => x) st (.clone s)) rest).map ("c" :: ·)
    else none
  | .read i :: rest =>
    match st[i]? with
    | some x => (runHist apply stage st rest).map (stage x :: ·)
    | none => none
  | .upd i c :: rest =>
    match st[i]? with
    | none => none
    | some x =>
      match apply x c with
      | none => none
      | some (.error _) => (runHist apply stage st rest).map ("ERR" :: ·)
      | some (.ok _) =>
        let f := fun (y : σ) (c : Call) => match apply y c with | some (.ok y') => y' | _ => y
        (runHist apply stage (runOp f st (.upd i c)) rest).map ("u" :: ·)

def runT (t : PNode String) (calls : List Call) (qs : List Int) : Option (List String) :=
  match calls with
  | [] => some []
  | c :: rest =>
    match updTree t c with
    | none => none
    | some (.ok t') => (runT t' rest qs).map (stageT t' qs :: ·)
    | some (.error _) => (runT t rest qs).map ("ERR" :: ·)

def handlePar (args : List String) : String :=
  match args with
  | ["p", es, us, qs] =>
    match parseItems? es, parseCalls? false us, parseQueries? qs with
    | some its, some calls, some qs =>
      let l := ofData its
      "|".intercalate (stageP l qs :: runP l calls qs)
    | _, _, _ => "BAD"
  | "t" :: us :: qs :: toks =>
    match parseCalls? true us, parseQueries? qs, parseTree? toks with
    | some calls, some qs, some (t, []) =>
      match viaAddChild t with
      | .error _ => "ERR"
      | .ok t =>
        match runT t calls qs with
        | some stages => "|".intercalate (stageT t qs :: stages)
        | none => "BAD"
    | _, _, _ => "BAD"
  | ["h", es, ops, qs] =>
    match parseItems? es, parseOps? false ops, parseQueries? qs with
    | some its, some ops, some qs =>
      let apply := fun (l : List (Entry String)) (c : Call) =>
        some (updateCall l c.period c.start c.stop c.v)
      match runHist apply (fun l => stageP l qs) [ofData its] ops with
      | some items => "|".intercalate items
      | none => "BAD"
    | _, _, _ => "BAD"
  | "ht" :: ops :: qs :: toks =>
    match parseOps? true ops, parseQueries? qs, parseTree? toks with
    | some ops, some qs, some (t, []) =>
      match viaAddChild t with
      | .error _ => "ERR"
      | .ok t =>
        match runHist updAny (fun t => stageT t qs) [t] ops with
        | some items => "|".intercalate items
        | none => "BAD"
    | _, _, _ => "BAD"
  | _ => "BAD"

end OFCore.Drv
