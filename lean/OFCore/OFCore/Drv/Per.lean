import OFCore.PeriodText
import OFCore.Drv.Util
/-! Line protocol for the calendar / period / text domains (`cal`, `per`, `txt`).

```
per <op> <unit/Y,M,D/size> [args]     stop days size_in_* subperiods:<unit> offset offset_rt ioffset contains intersection
                                      <named period> str date is_eternal key weight isofmt
txt parse|instant|punit|pperiod <hex> periods.period / periods.instant / _parsers.parse_unit / parse_period on ASCII text
txt rt|disk|diske|pair|irt|ispell|istr print / parse round trips
txt mkinstant|mkperiod|idate <value>  periods.instant / periods.period / periods.instant_date on any argument:
      N  None        I:<int>        S:<hex> str     E:<unit> DateUnit member (a str)     T:Y,M,D Instant
      P:<period>     D: DP: DT:Y,M,D datetime.date / pendulum.Date / datetime.datetime
      L:a,b,.. list  U:a,b,.. tuple  B:<hex> bytes   R:n range(n)     (sequences of ints)     O:<kind> / F:<float> anything else
```
-/
namespace OFCore.Drv

def showPeriod (p : Period) : String := s!"{p.unit.name}/{showDate p.start}/{p.size}"

def parsePeriod? (s : String) : Option Period :=
  match s.splitOn "/" with
  | [u, d, n] => do pure ⟨← DUnit.ofName u, ← parseDate? d, ← n.toInt?⟩
  | _ => none

def showE {α} (f : α → String) : Except String α → String
  | .ok a => f a
  | .error _ => "ERR"

def showOptDate : Option Date → String
  | some d => showDate d | none => "none"

def parseOff? (s : String) : Option Off :=
  if s = "first-of" then some .firstOf else if s = "last-of" then some .lastOf
  else s.toInt?.map .n

def showBool (b : Bool) : String := if b then "T" else "F"

def showPeriods (ps : List Period) : String := "[" ++ ",".intercalate (ps.map showPeriod) ++ "]"

def handleCal (args : List String) : String :=
  match args with
  | ["ord", d] => match parseDate? d with
    | some c => if c.Valid then toString (ord c) else "ERR"
    | none => "BAD"
  | ["of", n] => match n.toInt? with
    | some o => showDate (ofOrd o) | none => "BAD"
  | ["iso", d] => match parseDate? d with
    | some c => let (y, w, wd) := toIso c; s!"{y},{w},{wd}"
    | none => "BAD"
  | _ => "BAD"

def handlePer (args : List String) : String :=
  match args with
  | op :: ps :: rest =>
    match parsePeriod? ps with
    | none => "BAD"
    | some p =>
      match op, rest with
      | "stop", [] => showE showDate p.stop
      | "days", [] => showE toString p.days
      | "size_in_years", [] => showE toString p.sizeInYears
      | "size_in_months", [] => showE toString p.sizeInMonths
      | "size_in_days", [] => showE toString p.sizeInDays
      | "size_in_weeks", [] => showE toString p.sizeInWeeks
      | "size_in_weekdays", [] => showE toString p.sizeInWeekdays
      | "subperiods", [u] => match DUnit.ofName u with
        | some u => showE showPeriods (p.subperiods u) | none => "BAD"
      | "offset", [o] => match parseOff? o with
        | some o => showE showPeriod (p.offset o none) | none => "BAD"
      | "offset", [o, u] => match parseOff? o, DUnit.ofName u with
        | some o, some u => showE showPeriod (p.offset o (some u)) | _, _ => "BAD"
      | "offset_rt", [k, u] => match k.toInt?, DUnit.ofName u with
        | some k, some u => showE showPeriod (do (← p.offset (.n k) (some u)).offset (.n (-k)) (some u)) | _, _ => "BAD"
      | "ioffset", [o, u] => match parseOff? o, DUnit.ofName u with
        | some o, some u => showE showOptDate (instOffset p.start o u) | _, _ => "BAD"
      | "contains", [q] => match parsePeriod? q with
        | some q => showE showBool (p.contains q) | none => "BAD"
      | "intersection", [a, b] =>
        let pa := if a = "-" then some none else (parseDate? a).map some
        let pb := if b = "-" then some none else (parseDate? b).map some
        match pa, pb with
        | some a, some b => showE (fun | some q => showPeriod q | none => "none") (p.intersection a b)
        | _, _ => "BAD"
      | "this_year", [] => showE showPeriod p.thisYear
      | "first_month", [] => showE showPeriod p.firstMonth
      | "first_day", [] => showPeriod p.firstDay
      | "first_week", [] => showE showPeriod p.firstWeek
      | "first_weekday", [] => showPeriod p.firstWeekday
      | "last_month", [] => showE showPeriod p.lastMonth
      | "last_3_months", [] => showE showPeriod p.last3Months
      | "last_year", [] => showE showPeriod p.lastYear
      | "n_2", [] => showE showPeriod p.n2
      | "last_week", [] => showE showPeriod p.lastWeek
      | "last_fortnight", [] => showE showPeriod (p.lastNWeeks 1 2)
      | "last_2_weeks", [] => showE showPeriod (p.lastNWeeks 2 2)
      | "last_26_weeks", [] => showE showPeriod (p.lastNWeeks 26 26)
      | "last_52_weeks", [] => showE showPeriod (p.lastNWeeks 52 52)
      | "str", [] => tohex p.text
      | "date", [] => showE showDate p.date
      | "is_eternal", [] => s!"{showBool p.isEternal},{showBool p.start.isEternal}"
      | "key", [] => tohex (keyPeriodSize p)
      | "weight", [] => toString (unitWeight p.unit)
      | "isofmt", [] => s!"{showBool (Generated.isoformatUnits.contains p.unit.name)},{showBool (Generated.isocalendarUnits.contains p.unit.name)}"
      | _, _ => "BAD"
  | _ => "BAD"

/-- the argument of `periods.instant` / `periods.period` as the harness writes it -/
def parsePyVal? (s : String) : Option PyVal :=
  let ints (t : String) : Option (List Int) := if t = "" then some [] else (t.splitOn ",").mapM String.toInt?
  if s = "N" then some .none
  else match s.splitOn ":" with
  | ["I", i] => i.toInt?.map .int
  | ["S", h] => (unhex h).map .str
  | ["E", u] => (DUnit.ofName u).map fun u => .str u.name.toList
  | ["T", d] => (parseDate? d).map .instant
  | ["P", p] => (parsePeriod? p).map .period
  | ["D", d] => (parseDate? d).map .date
  | ["DP", d] => (parseDate? d).map .date
  | ["DT", d] => (parseDate? d).map .date
  | ["L", t] => (ints t).map .seq
  | ["U", t] => (ints t).map .seq
  | ["B", h] => (unhex h).map fun cs => .seq (cs.map fun c => (c.toNat : Int))
  | ["R", n] => n.toNat?.map fun n => .seq ((List.range n).map fun (i : Nat) => (i : Int))
  | ["O", _] => some .other
  | ["F", _] => some .other
  | _ => none

def handleTxt (args : List String) : String :=
  match args with
  | ["mkinstant", v] => match parsePyVal? v with
    | some v => showE showDate (instantOf v) | none => "BAD"
  | ["mkperiod", v] => match parsePyVal? v with
    | some v => showE showPeriod (periodOf v) | none => "BAD"
  | ["idate", v] => match parsePyVal? v with
    | some .none => showE showOptDate (instantDate none)
    | some (.instant c) => showE showOptDate (instantDate (some c))
    | _ => "BAD"
  | ["punit", h] => match unhex h with
    | some cs => showE DUnit.name (parseUnit cs) | none => "BAD"
  | ["punit"] => showE DUnit.name (parseUnit [])
  | ["pperiod", h] => match unhex h with
    | some cs => showE showPeriod (parseIsoPeriod cs) | none => "BAD"
  | ["pperiod"] => showE showPeriod (parseIsoPeriod [])
  | ["parse", h] => match unhex h with
    | some cs => showE showPeriod (parsePeriod cs) | none => "BAD"
  | ["parse"] => showE showPeriod (parsePeriod [])
  | ["instant", h] => match unhex h with
    | some cs => showE showDate (parseInstant cs) | none => "BAD"
  | ["instant"] => showE showDate (parseInstant [])
  | ["rt", ps] => match parsePeriod? ps with
    | some p =>
      let t := p.text
      match parsePeriod t with
      | .ok q => s!"{tohex t}|{showPeriod q}|{tohex q.text}"
      | .error _ => s!"{tohex t}|ERR"
    | none => "BAD"
  -- `OnDiskStorage.put` names the file `str(period)`, `restore` parses the name back: the same round trip
  | ["disk", ps] => match parsePeriod? ps with
    | some p =>
      let t := p.text
      match parsePeriod t with
      | .ok q => s!"{tohex t}|{showPeriod q}|{tohex q.text}"
      | .error _ => s!"{tohex t}|ERR"
    | none => "BAD"
  -- a store created with `is_eternal=True` files every value under the ETERNITY period, whatever period is given
  | ["diske", ps] => match parsePeriod? ps with
    | some _ =>
      let t := Period.eternity.text
      match parsePeriod t with
      | .ok q => s!"{tohex t}|{showPeriod q}|{tohex q.text}"
      | .error _ => s!"{tohex t}|ERR"
    | none => "BAD"
  | ["pair", ps, qs] => match parsePeriod? ps, parsePeriod? qs with
    | some p, some q => s!"{tohex p.text}|{tohex q.text}"
    | _, _ => "BAD"
  | ["irt", d] => match parseDate? d with
    | some c => s!"{tohex (instantText c)}|{showE showDate (parseInstant (instantText c))}"
    | none => "BAD"
  -- the instant parsed from each of its spellings (ISO week date, ISO date) and built from its
  -- tuple always prints as the ISO date, whatever was parsed or printed before
  | ["ispell", d] => match parseDate? d with
    | some c => let t := tohex (instantText c); s!"{t}|{t}|{t}|{t}"
    | none => "BAD"
  | ["istr", d] => match parseDate? d with
    | some c => tohex (instantText c) | none => "BAD"
  | _ => "BAD"

end OFCore.Drv
