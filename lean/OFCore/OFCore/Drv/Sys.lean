/-! Line protocol handler for the `sys` domain (stub until the model exists). -/
namespace OFCore.Drv
def handleSys (_args : List String) : String := "BAD"
end OFCore.Drv
