import OFCore.HeapSys
/-! Line protocol for the `sys` domain (tax-benefit systems, reforms, copies; property C14).
Mathlib-free.

```
sys run <ents> <params> <vars> <ops> <queries> [<ignored> …]
   -> <stage>|<stage>|…        one stage for the base system and one per operation
ents    = key,key,…                               the first one is the person entity
params  = - | name=ord:val,ord:val;name=…         val = <token> | null
vars    = - | classdef;classdef;…                 the base system's variables, added in order
classdef= name:vt:default:entity:defperiod:end:setinput:formulas[:<raw metadata, ignored>:attrs]     "-" = not declared
attrs   = - | key=tok,key=tok,…                   the other declared attributes (label, reference, documentation, unit,
                                                  cerfa_field, calculate_output, is_period_size_independent, max_length)
                                                  with the value Variable.__init__ makes of the declared one (tok = an
                                                  opaque token, "-" = None); `bad=1`: a declared value that
                                                  Variable.set refuses (wrong type, setter's check)
formulas= - | ord>n,ord>n,…                       start date (ordinal) > function id, class order
ops     = - | op|op|…
op      = C!src | R!src!mods | M!tgt!mod | T!src!reforms!exts     src / tgt = index of a system (0 = base)
          T = test_runner._get_tax_benefit_system(src, reforms, extensions): a new system unless cached
reforms = - | path$mods%path$mods…                 exts = - | name$vars$params%…  (vars / params as above)
mods    = - | mod&mod&…
mod     = add~classdef | upd~classdef | rep~classdef | neu~name | ann~name | par~pu+pu+…
          | ext~name^vars^params                    load_extension(package), directly or from apply()
pu      = name@a@b@val                            b = "-" for an open-ended update
queries = ord,ord,…                               dates at which formulas and parameters are read
stage   = (ok|ERR):<snap>;<snap>;…                one snapshot per system alive, "=" when the
                                                  snapshot is the one of the previous stage
snap    = n=<names>/e=<key^bound^fresh^names-for-the-entity,…>/P=<k>/u=<prototype entities still unbound>
          /r=<index of base_tax_benefit_system | x>/p=<name@ord=val,…>/v=<var>+<var>+…
var     = name(own,bl,via,vt,default,entity,defperiod,end,setinput,neutralized,formulas,at,input,label,attrs)
          input = is_input_variable(); label = tok | - | N(tok) (neutralised); attrs = tok~tok~… (the 7 other attributes)
```
`own` = smallest index of a system that resolves the name to the identical object, `bl` = the same
for the object's `baseline_variable` (`-` none, `x` not the current entry of any system), `via` =
`ok` when every entity of the system resolves the name to that same object (else `!` and the keys
of those that do not), `P` = smallest index of a system holding the identical parameter tree.
-/
namespace OFCore.Drv
open OFCore.HeapSys OFCore.Param

namespace Sys

def allSome {α} : List (Option α) → Option (List α)
  | [] => some []
  | none :: _ => none
  | some a :: r => (allSome r).map (a :: ·)

def optTok (s : String) : Option String := if s = "-" then none else some s

def parseOptInt? (s : String) : Option (Option Int) :=
  if s = "-" then some none else s.toInt?.map some

def parseFormulas? (s : String) : Option (List (Int × Nat)) :=
  if s = "-" then some [] else
  allSome ((s.splitOn ",").map fun f =>
    match f.splitOn ">" with
    | [d, n] => do pure (← d.toInt?, ← n.toNat?)
    | _ => none)

def parseClassDef? (s : String) : Option ClassDef :=
  match s.splitOn ":" with
  | [name, vt, dflt, ent, dp, e, si, fs] => mk name vt dflt ent dp e si fs "-"
  | [name, vt, dflt, ent, dp, e, si, fs, _meta] => mk name vt dflt ent dp e si fs "-"   -- raw metadata only
  | [name, vt, dflt, ent, dp, e, si, fs, _meta, ats] => mk name vt dflt ent dp e si fs ats
  | _ => none
where
  mk (name vt dflt ent dp e si fs ats : String) : Option ClassDef := do
    if name = "" then none
    let e ← parseOptInt? e
    let fs ← parseFormulas? fs
    let kvs ← (if ats = "-" then some [] else allSome ((ats.splitOn ",").map fun kv =>
      match kv.splitOn "=" with
      | [k, v] => if k = "" ∨ v = "" then none else some (k, v)
      | _ => none))
    pure { name := name, valueType := optTok vt, default := optTok dflt, entity := optTok ent,
           defPeriod := optTok dp, endDate := e, setInput := optTok si, formulas := fs,
           attrs := (kvs.filter (fun kv => kv.1 ≠ "bad")).map (fun kv => (kv.1, optTok kv.2)),
           invalid := kvs.any (fun kv => kv.1 = "bad") }

def parseParams? (s : String) : Option ParamTree :=
  if s = "-" then some [] else
  allSome ((s.splitOn ";").map fun f =>
    match f.splitOn "=" with
    | [name, es] => do
      if name = "" then none
      let items ← allSome ((es.splitOn ",").map fun e =>
        match e.splitOn ":" with
        | [d, v] => do
          let d ← d.toInt?
          if v = "" then none
          pure (d, (Item.value (if v = "null" then none else some v) : Item String))
        | _ => none)
      pure (name, ofData items)
    | _ => none)

def parseVars? (s : String) : Option (List ClassDef) :=
  if s = "-" then some [] else allSome ((s.splitOn ";").map parseClassDef?)

def parsePUpd? (s : String) : Option PUpd :=
  match s.splitOn "@" with
  | [name, a, b, v] => do
    let a ← a.toInt?
    let b ← parseOptInt? b
    if v = "" then none
    pure { name := name, a := a, b := b, v := if v = "null" then none else some v }
  | _ => none

def parseMod? (s : String) : Option Mod :=
  match s.splitOn "~" with
  | ["add", c] => (parseClassDef? c).map Mod.add
  | ["upd", c] => (parseClassDef? c).map Mod.update
  | ["rep", c] => (parseClassDef? c).map Mod.replace
  | ["neu", n] => if n = "" then none else some (Mod.neutralize n)
  | ["ann", n] => if n = "" then none else some (Mod.annualize n)
  | ["par", us] => (allSome ((us.splitOn "+").map parsePUpd?)).map Mod.params
  | ["ext", x] =>
    match x.splitOn "^" with
    | [name, cds, ps] => do
      if name = "" then none
      pure (Mod.loadExt { name := name, vars := (← parseVars? cds), params := (← parseParams? ps) })
    | _ => none
  | _ => none

def parseReform? (s : String) : Option (String × List Mod) :=
  match s.splitOn "$" with
  | [name, mods] => do
    if name = "" then none
    let mods ← (if mods = "-" then some [] else allSome ((mods.splitOn "&").map parseMod?))
    pure (name, mods)
  | _ => none

def parseExt? (s : String) : Option Ext :=
  match s.splitOn "$" with
  | [name, cds, ps] => do
    if name = "" then none
    pure { name := name, vars := (← parseVars? cds), params := (← parseParams? ps) }
  | _ => none

def parseOp? (s : String) : Option Op :=
  match s.splitOn "!" with
  | ["C", src] => src.toNat?.map Op.clone
  | ["R", src, mods] => do
    let src ← src.toNat?
    let mods ← (if mods = "-" then some [] else allSome ((mods.splitOn "&").map parseMod?))
    pure (Op.reform src mods)
  | ["M", tgt, m] => do pure (Op.modify (← tgt.toNat?) (← parseMod? m))
  | ["T", src, rs, es] => do
    let src ← src.toNat?
    let rs ← (if rs = "-" then some [] else allSome ((rs.splitOn "%").map parseReform?))
    let es ← (if es = "-" then some [] else allSome ((es.splitOn "%").map parseExt?))
    pure (Op.testRunner src rs es)
  | _ => none

def parseOps? (s : String) : Option (List Op) :=
  if s = "-" then some [] else allSome ((s.splitOn "|").map parseOp?)

def parseQueries? (s : String) : Option (List Int) :=
  allSome ((s.splitOn ",").map (·.toInt?))

def mkBase (keys : List String) (p : ParamTree) (cs : List ClassDef) : Option State := baseSystem keys p cs

/-! ### printing -/

def insSorted (s : String) : List String → List String
  | [] => [s]
  | t :: r => if s < t then s :: t :: r else t :: insSorted s r

def sortStrs (l : List String) : List String := l.foldr insSorted []

def showFml : Fml → String
  | .base n => s!"f{n}"
  | .annual f => "A(" ++ showFml f ++ ")"

def showOptFml : Option Fml → String
  | some f => showFml f | none => "-"

def showOptInt : Option Int → String
  | some i => toString i | none => "-"

def showOptStr : Option String → String
  | some s => s | none => "-"

def firstIdx (p : Nat → Bool) (n : Nat) : Option Nat := (List.range n).find? p

def showVar (st : State) (k : Nat) (sid : Oid) (s : SysObj) (qs : List Int) (name : String) : String :=
  let h := st.heap
  match resolve h sid name with
  | none => name ++ "(?)"
  | some vid =>
    match h.getVar vid with
    | none => name ++ "(?)"
    | some v =>
      let own := match firstIdx (fun j => match st.systems[j]? with
                    | some sj => resolve h sj name == some vid | none => false) (k + 1) with
                 | some j => toString j | none => "?"
      let bl := match v.baseline with
        | none => "-"
        | some b => match firstIdx (fun j => match st.systems[j]? with
                      | some sj => resolve h sj name == some b | none => false) st.systems.length with
                    | some j => toString j | none => "x"
      let bad := s.entities.filterMap fun e =>
        if resolveVia h e name == some vid then none
        else some (match h.getEnt e with | some eo => eo.key | none => "?")
      let via := if bad.isEmpty then "ok" else "!" ++ "^".intercalate bad
      let vw := v.view
      let fs := if v.formulas.isEmpty then "-" else
        "^".intercalate (v.formulas.map fun p => s!"{p.1}>{showFml p.2}")
      let ats := "^".intercalate (showOptFml (v.formulas.head?.map (·.2)) :: qs.map fun d => showOptFml (getFormula vw d))
      let attrs := "~".intercalate (metaKeys.map fun k => showOptStr (v.attr k))
      s!"{name}({own},{bl},{via},{v.valueType},{v.default},{v.entity},{v.defPeriod},{showOptInt v.endDate},{showOptStr v.setInput},{if v.isNeutralized then "T" else "F"},{fs},{ats},{if vw.isInput then "T" else "F"},{showOptStr v.label},{attrs})"

def showSnap (nproto : Nat) (st : State) (qs : List Int) (k : Nat) (sid : Oid) : String :=
  let h := st.heap
  match h.getSys sid with
  | none => "?"
  | some s =>
    let names := sortStrs (varNames h sid)
    let earlier : List Oid := (st.systems.take k).flatMap fun sj =>
      match h.getSys sj with | some o => o.entities | none => []
    let ents := s.entities.map fun e =>
      match h.getEnt e with
      | none => "?"
      | some eo => s!"{eo.key}^{if eo.system == some sid then "T" else "F"}^{if earlier.contains e then "F" else "T"}^{"~".intercalate (sortStrs (namesFor h sid eo.key))}"
    let plabel := match firstIdx (fun j => match st.systems[j]? with
                      | some sj => (match h.getSys sj with | some o => o.params == s.params | none => false)
                      | none => false) (k + 1) with
                  | some j => toString j | none => "?"
    let pnames := match h.getPar s.params with | some p => sortStrs (p.map (fun (q : String × List (Entry String)) => q.1)) | none => []
    let preads := pnames.flatMap fun n => qs.map fun d =>
      s!"{n}@{d}={showOptStr (paramObs h sid n d)}"
    let root := rootOf h.next h sid
    let rlabel := match firstIdx (fun j => st.systems[j]? == some root) st.systems.length with
                  | some j => toString j | none => "x"
    let unbound := (List.range nproto).all fun i =>
      match h.getEnt i with | some eo => eo.system.isNone | none => false
    "n=" ++ ",".intercalate names ++ "/e=" ++ ",".intercalate ents ++ "/P=" ++ plabel
      ++ "/u=" ++ (if unbound then "T" else "F") ++ "/r=" ++ rlabel
      ++ "/p=" ++ ",".intercalate preads
      ++ "/v=" ++ "+".intercalate (names.map (showVar st k sid s qs))

def snaps (nproto : Nat) (st : State) (qs : List Int) : List String :=
  (List.range st.systems.length).map fun k =>
    match st.systems[k]? with
    | some sid => showSnap nproto st qs k sid
    | none => "?"

/-- print the snapshots, replacing those equal to the previous stage's by `=` -/
def stageText (flag : String) (prev cur : List String) : String :=
  let rec go : List String → List String → List String
    | c :: cs, p :: ps => (if c = p then "=" else c) :: go cs ps
    | cs, [] => cs
    | [], _ => []
  flag ++ ":" ++ ";".intercalate (go cur prev)

def runAll (nproto : Nat) (st : State) (qs : List Int) (prev : List String) : List Op → List String
  | [] => []
  | op :: r =>
    let (st', okFlag) := step st op
    let cur := snaps nproto st' qs
    stageText (if okFlag then "ok" else "ERR") prev cur :: runAll nproto st' qs cur r

end Sys

def handleSys (args : List String) : String :=
  match args with
  | "run" :: ents :: ps :: vs :: ops :: qs :: _ =>
    match Sys.parseParams? ps, Sys.parseVars? vs, Sys.parseOps? ops, Sys.parseQueries? qs with
    | some p, some cs, some ops, some qs =>
      let keys := ents.splitOn ","
      if keys.any (· = "") then "BAD" else
      match Sys.mkBase keys p cs with
      | none => "ERR"
      | some st =>
        let s0 := Sys.snaps keys.length st qs
        "|".intercalate (Sys.stageText "ok" [] s0 :: Sys.runAll keys.length st qs s0 ops)
    | _, _, _, _ => "BAD"
  | _ => "BAD"

end OFCore.Drv
