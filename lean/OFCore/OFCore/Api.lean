import OFCore.Param
/-!
# Web API (`/calculate`, `/trace`, listings) and YAML rule tests — property C20

Python counterparts (repaired tree: fixes C20a, C20b, C20c):

* `openfisca_web_api/handlers.py: calculate`      ↦ `calculateH` (`nullPaths`, `slotValue`, `fillAt`)
* `openfisca_web_api/handlers.py: trace`          ↦ `traceH` (`requested`, `traceEntries`)
* `FlatTrace.serialize`                           ↦ `serializeVec`
* `app.create_app` (routes over one shared, read-only system) ↦ `respond`, `serveAll`
* `loader/parameters.py: build_api_values_history`, `get_value` ↦ `servedHistory`, `apiGetValue`
* `loader/parameters.py: build_api_scale`                       ↦ `buildApiScale` (`scaleRow`, `servedScale`), `apiScaleAt`
* `loader/variables.py: build_formulas` + the `end` entry      ↦ `servedFormulas`, `apiFormulaAt`
  (`Variable.get_formula` ↦ `engineFormulaAt`)
* `tools/test_runner.py: YamlItem.runtest / check_output / check_variable` ↦ `verdict`,
  `expectations` (`expectationsOfKey`, `flattenVar`), `checkExpectation`
* `tools/__init__.py: assert_near` (+ `assert_enum_equals`, `assert_datetime_equals`,
  `assert_text_equals`)                           ↦ `assertNear` (`cmpMode`, `pairUp`, `cmp1`, `near`)
* `test_runner.ErrorMargin.__getitem__`           ↦ `marginFor`

**The engine is abstract.** The situation builder and the simulation engine are other properties'
business (C12, C01): here a *built simulation* is a record `Sim` of functions — what
`tax_benefit_system.get_variable`, `simulation.calculate`, `population.get_index`,
`periods.period` and `simulation.describe_entities` answer — and a *system* is a function
`J → Except String Sim` (`SimulationBuilder().build_from_entities`). The handlers are functions of
these and of the request only.

JSON: objects are association lists in document order, numbers are `int` (an integer literal)
or `num` (any other number, an exact rational: the `float32` the engine holds). The handler's
`float(str(x))` prints the shortest decimal of that `float32`; the correspondence reads it back
through `numpy.float32`, so the exact rational is what is compared.

`dpath.search(input, "*/*/*/*", afilter = is None)` is modelled on objects only: an array is a
leaf for the walk. (dpath also numbers the elements of arrays, but the builder refuses every
document in which an array within reach of the glob holds `null`: role lists must hold strings,
variable values must be objects. `axes` are outside the modelled requests.)
-/
namespace OFCore.Api

/-! ## JSON trees -/

inductive J where
  | null
  | bool (b : Bool)
  | int (n : Int)
  | num (q : Rat)
  | str (s : String)
  | arr (xs : List J)
  | obj (kvs : List (String × J))
deriving Repr, Inhabited

/-- a leaf of the tree walk: anything but an object or an array -/
def J.isLeaf : J → Bool
  | .null => true | .bool _ => true | .int _ => true | .num _ => true | .str _ => true
  | .arr _ => false | .obj _ => false

def J.isNull : J → Bool
  | .null => true | .bool _ => false | .int _ => false | .num _ => false | .str _ => false
  | .arr _ => false | .obj _ => false

/-- first value under key `k` (what `d[k]` reads after JSON parsing keeps one value per key) -/
def lookupKV (k : String) : List (String × J) → Option J
  | [] => none
  | (k', v) :: r => if k' = k then some v else lookupKV k r

/-- the sub-tree at a path of keys -/
def getPath : List String → J → Option J
  | [], j => some j
  | k :: p, .obj kvs =>
    match lookupKV k kvs with
    | some v => getPath p v
    | none => none
  | _ :: _, .null => none
  | _ :: _, .bool _ => none
  | _ :: _, .int _ => none
  | _ :: _, .num _ => none
  | _ :: _, .str _ => none
  | _ :: _, .arr _ => none

mutual
/-- the key structure: every leaf replaced by `null`, keys, order and array lengths kept -/
def J.shape : J → J
  | .arr xs => .arr (shapeL xs)
  | .obj kvs => .obj (shapeO kvs)
  | .null => .null
  | .bool _ => .null
  | .int _ => .null
  | .num _ => .null
  | .str _ => .null
def shapeL : List J → List J
  | [] => []
  | x :: xs => x.shape :: shapeL xs
def shapeO : List (String × J) → List (String × J)
  | [] => []
  | (k, v) :: r => (k, v.shape) :: shapeO r
end

/-! ## Values and their rendering -/

inductive VType where
  | int | float | bool | str | date | enum
deriving DecidableEq, Repr

structure YMD where
  y : Nat
  m : Nat
  d : Nat
deriving DecidableEq, Repr

def padNat (w n : Nat) : String :=
  let s := toString n
  String.ofList (List.replicate (w - s.length) '0') ++ s

/-- `datetime.date.isoformat` -/
def YMD.iso (d : YMD) : String := padNat 4 d.y ++ "-" ++ padNat 2 d.m ++ "-" ++ padNat 2 d.d

/-- one element of a calculated vector -/
inductive Val where
  | int (n : Int)
  | num (q : Rat)
  | bool (b : Bool)
  | str (s : String)          -- decoded text (`bytes` of a `max_length` variable are decoded)
  | date (d : YMD)
  | enum (name : String)      -- the *name* of the member the index designates
deriving DecidableEq, Repr

def Val.family : Val → VType
  | .int _ => .int | .num _ => .float | .bool _ => .bool | .str _ => .str | .date _ => .date
  | .enum _ => .enum

/-- the JSON value the handler writes for an element -/
def renderVal : Val → J
  | .enum name => .str name       -- `result.decode()[i].name`
  | .num q => .num q              -- `float(str(result[i]))`
  | .str s => .str s              -- `str(item.decode() if bytes else item)`
  | .int n => .int n              -- `result.tolist()[i]`
  | .bool b => .bool b
  | .date d => .str d.iso         -- a `datetime.date`, which the JSON layer prints as text

/-- `handlers.calculate` dispatches on `variable.value_type`; an element of another family than the
declared one is outside the engine's contract (C01_result_type) and is an error here. -/
def render (t : VType) (v : Val) : Except String J :=
  if v.family = t then .ok (renderVal v) else .error "value of another type family"

/-- the JSON kind each value type is rendered in -/
def jsonKind : VType → J → Bool
  | .int, .int _ => true
  | .float, .num _ => true
  | .bool, .bool _ => true
  | .str, .str _ => true
  | .date, .str _ => true
  | .enum, .str _ => true
  | _, _ => false

/-! ## The abstract engine -/

/-- what a built simulation answers -/
structure Sim where
  /-- `tax_benefit_system.get_variable(name)` : its value type, `none` = no such variable -/
  vtype : String → Option VType
  /-- `simulation.calculate(variable, period text)` : the whole vector -/
  calcv : String → String → Except String (List Val)
  /-- `simulation.get_population(plural).get_index(id)` -/
  index : String → String → Option Nat
  /-- `str(periods.period(text))` -/
  canon : String → String
  /-- `simulation.describe_entities()` -/
  entities : List (String × List String)
  /-- `key in simulation.populations` (entity singular) -/
  singular : String → Bool
  /-- `simulation.get_population(plural = key) is not None` -/
  plural : String → Bool

/-- `SimulationBuilder().build_from_entities(system, request)` (error: the situation is refused) -/
abbrev System := J → Except String Sim

structure Slot where
  plural : String
  id : String
  var : String
  period : String
deriving DecidableEq, Repr

def Slot.path (s : Slot) : List String := [s.plural, s.id, s.var, s.period]

def slotOfPath : List String → Option Slot
  | [a, b, c, d] => some ⟨a, b, c, d⟩
  | _ => none

def optE {α : Type} (msg : String) : Option α → Except String α
  | some a => .ok a
  | none => .error msg

/-- **the engine's value for a slot**: that entity instance, variable and period -/
def engineAt (w : Sim) (s : Slot) : Except String Val :=
  match w.calcv s.var s.period with
  | .error e => .error e
  | .ok vec =>
    match w.index s.plural s.id with
    | none => .error "unknown instance"
    | some i => optE "index out of range" vec[i]?

/-- the loop body of `handlers.calculate` for one slot -/
def slotValue (w : Sim) (s : Slot) : Except String J :=
  match w.vtype s.var with
  | none => .error "variable not found"
  | some t =>
    match engineAt w s with
    | .error e => .error e
    | .ok v => render t v

def pathValue (w : Sim) (p : List String) : Except String J :=
  match slotOfPath p with
  | some s => slotValue w s
  | none => .error "not a slot"

/-! ## `/calculate` -/

mutual
/-- the `null` leaves exactly `d` keys below, in document order, with their full path
(`path` is the reversed path walked so far) -/
def nullPaths : Nat → List String → J → List (List String)
  | 0, path, .null => [path.reverse]
  | 0, _, .bool _ => []
  | 0, _, .int _ => []
  | 0, _, .num _ => []
  | 0, _, .str _ => []
  | 0, _, .arr _ => []
  | 0, _, .obj _ => []
  | d + 1, path, .obj kvs => nullPathsKV d path kvs
  | _ + 1, _, .null => []
  | _ + 1, _, .bool _ => []
  | _ + 1, _, .int _ => []
  | _ + 1, _, .num _ => []
  | _ + 1, _, .str _ => []
  | _ + 1, _, .arr _ => []
def nullPathsKV : Nat → List String → List (String × J) → List (List String)
  | _, _, [] => []
  | d, path, (k, v) :: r => nullPaths d (k :: path) v ++ nullPathsKV d path r
end

mutual
/-- `dpath.merge(input, results)`: every `null` exactly `d` keys below becomes `f path`;
everything else is kept; an error of `f` aborts (the handler raises before merging) -/
def fillAt (f : List String → Except String J) : Nat → List String → J → Except String J
  | 0, path, .null => f path.reverse
  | 0, _, .bool b => .ok (.bool b)
  | 0, _, .int n => .ok (.int n)
  | 0, _, .num q => .ok (.num q)
  | 0, _, .str s => .ok (.str s)
  | 0, _, .arr xs => .ok (.arr xs)
  | 0, _, .obj kvs => .ok (.obj kvs)
  | d + 1, path, .obj kvs =>
    match fillKV f d path kvs with
    | .ok r => .ok (.obj r)
    | .error e => .error e
  | _ + 1, _, .null => .ok .null
  | _ + 1, _, .bool b => .ok (.bool b)
  | _ + 1, _, .int n => .ok (.int n)
  | _ + 1, _, .num q => .ok (.num q)
  | _ + 1, _, .str s => .ok (.str s)
  | _ + 1, _, .arr xs => .ok (.arr xs)
def fillKV (f : List String → Except String J) : Nat → List String → List (String × J) →
    Except String (List (String × J))
  | _, _, [] => .ok []
  | d, path, (k, v) :: r =>
    match fillAt f d (k :: path) v with
    | .error e => .error e
    | .ok v' =>
      match fillKV f d path r with
      | .error e => .error e
      | .ok r' => .ok ((k, v') :: r')
end

/-- the requested slots of a document, in document order -/
def nullSlots (req : J) : List Slot := (nullPaths 4 [] req).filterMap slotOfPath

def fill (w : Sim) (req : J) : Except String J := fillAt (pathValue w) 4 [] req

/-- `handlers.calculate` -/
def calculateH (sys : System) (req : J) : Except String J :=
  match sys req with
  | .error e => .error e
  | .ok w => fill w req

/-! ## `/trace` -/

/-- `FlatTrace.serialize` of a vector: enum names, decoded text, `tolist()` -/
def serializeVec (t : VType) : List Val → Except String (List J)
  | [] => .ok []
  | v :: r =>
    match render t v with
    | .error e => .error e
    | .ok j =>
      match serializeVec t r with
      | .error e => .error e
      | .ok js => .ok (j :: js)

/-- a trace key `variable<canonical period>`; kept as a pair, printed by the driver -/
abbrev TKey := String × String

def lookupT (k : TKey) : List (TKey × List J) → Option (List J)
  | [] => none
  | (k', v) :: r => if k' = k then some v else lookupT k r

/-- `FlatTrace.get_trace`: a later node never overwrites an earlier one -/
def insertNew (k : TKey) (v : List J) (l : List (TKey × List J)) : List (TKey × List J) :=
  match lookupT k l with
  | some _ => l
  | none => l ++ [(k, v)]

/-- the `value` entries of the flat trace for the requested calculations (their dependencies'
entries are not modelled: the engine is abstract) -/
def traceEntries (w : Sim) : List Slot → List (TKey × List J) → Except String (List (TKey × List J))
  | [], acc => .ok acc
  | s :: r, acc =>
    match w.calcv s.var s.period with
    | .error e => .error e
    | .ok vec =>
      match w.vtype s.var with
      | none => .error "variable not found"
      | some t =>
        match serializeVec t vec with
        | .error e => .error e
        | .ok js => traceEntries w r (insertNew (s.var, w.canon s.period) js acc)

structure TraceAnswer where
  trace : List (TKey × List J)
  entitiesDescription : List (String × List String)
  /-- `f"{variable}<{period}>"` with the caller's spelling of the period -/
  requestedCalculations : List (String × String)

/-- `handlers.trace` -/
def traceH (sys : System) (req : J) : Except String TraceAnswer :=
  match sys req with
  | .error e => .error e
  | .ok w =>
    match traceEntries w (nullSlots req) [] with
    | .error e => .error e
    | .ok tr => .ok ⟨tr, w.entities, (nullSlots req).map fun s => (s.var, s.period)⟩

/-! ## One application serving a sequence of requests -/

inductive Req where
  | calculate (doc : J)
  | trace (doc : J)

inductive Resp where
  | calculate (r : Except String J)
  | trace (r : Except String TraceAnswer)

/-- the route functions of `create_app`: they close over the system and nothing else -/
def respond (sys : System) : Req → Resp
  | .calculate doc => .calculate (calculateH sys doc)
  | .trace doc => .trace (traceH sys doc)

/-- the application has no mutable state in the model: serving is a map -/
def serveAll (sys : System) (rs : List Req) : List Resp := rs.map (respond sys)

/-! ## Listings -/

section Listings
variable {V : Type}

/-- `build_api_values_history`: `{instant_str: value}` in the order of `values_list` -/
def servedHistory (l : List (Param.Entry V)) : List (Int × Option V) := l.map fun e => (e.date, e.val)

/-- `loader.parameters.get_value`: the candidate with the greatest start date `≤ d` -/
def apiBest (d : Int) : List (Int × Option V) → Option (Int × Option V)
  | [] => none
  | (k, v) :: r =>
    match apiBest d r with
    | some (k', v') => if k ≤ d ∧ k' < k then some (k, v) else some (k', v')
    | none => if k ≤ d then some (k, v) else none

def apiGetValue (d : Int) (kvs : List (Int × Option V)) : Option V :=
  match apiBest d kvs with
  | some (_, v) => v
  | none => none

/-- `build_variable`: the formulas by start date (ascending, a `SortedDict`), then
`result["formulas"][end + 1 day] = None` (assignment: an equal key is overwritten) -/
def setKey (k : Int) (v : Option V) : List (Int × Option V) → List (Int × Option V)
  | [] => [(k, v)]
  | (k', v') :: r => if k' = k then (k, v) :: r else (k', v') :: setKey k v r

def servedFormulas (formulas : List (Int × V)) (stop : Option Int) : List (Int × Option V) :=
  let base := formulas.map fun (s, f) => (s, some f)
  match stop with
  | some e => setKey (e + 1) none base
  | none => base

/-- what a reader of `/variable/<id>` takes to be in force on day `d` -/
def apiFormulaAt (d : Int) (served : List (Int × Option V)) : Option V := apiGetValue d served

/-- `Variable.get_formula`: nothing past `end`; else the latest formula started on or before `d`
(`formulas` ascending, scanned in reverse) -/
def latestStarted (d : Int) : List (Int × V) → Option V
  | [] => none
  | (s, f) :: r =>
    match latestStarted d r with
    | some g => some g
    | none => if s ≤ d then some f else none

def engineFormulaAt (formulas : List (Int × V)) (stop : Option Int) (d : Int) : Option V :=
  match stop with
  | some e => if e < d then none else latestStarted d formulas
  | none => latestStarted d formulas

end Listings

/-! ### scales (`build_api_scale`) -/

/-- a bracket of a scale as `build_api_scale` reads it: the served histories (`build_api_values_history`)
of its threshold and of its rate / amount -/
structure ApiBracket where
  thresholds : List (Int × Option Rat)
  values : List (Int × Option Rat)
deriving Repr

/-- `dates`: every date at which something changes in the scale (with repetitions; Python makes a set) -/
def bracketDates (brs : List ApiBracket) : List Int :=
  brs.flatMap (fun b => b.thresholds.map (·.1) ++ b.values.map (·.1))

/-- `api_scale[date][threshold] = value` : a `dict` assignment -/
def rowSet (t : Rat) (v : Option Rat) : List (Rat × Option Rat) → List (Rat × Option Rat)
  | [] => [(t, v)]
  | (t', v') :: r => if t' = t then (t, v) :: r else (t', v') :: rowSet t v r

/-- the row for date `d`: `{threshold at d: value at d}` over the brackets whose threshold is not null at `d` -/
def scaleRow (d : Int) (brs : List ApiBracket) : List (Rat × Option Rat) :=
  brs.foldl (fun row b => match apiGetValue d b.thresholds with
    | some t => rowSet t (apiGetValue d b.values) row
    | none => row) []

def dedupDates : List Int → List Int
  | [] => []
  | x :: xs => x :: (dedupDates xs).filter (· ≠ x)

/-- the loop over `dates`: a date at which no bracket has a threshold gets no entry (`none` = JSON null) -/
def servedScale (brs : List ApiBracket) : List (Int × Option (List (Rat × Option Rat))) :=
  (dedupDates (bracketDates brs)).filterMap (fun d =>
    if (scaleRow d brs).isEmpty then none else some (d, some (scaleRow d brs)))

/-- `max(brackets[0]["thresholds"].keys())` with its value -/
def latestEntry : List (Int × Option Rat) → Option (Int × Option Rat)
  | [] => none
  | (k, v) :: r =>
    match latestEntry r with
    | some (k', v') => if k' < k then some (k, v) else some (k', v')
    | none => some (k, v)

/-- `build_api_scale`: the rows, then "a parameter is stopped if its first bracket is stopped":
`api_scale[latest date of the first threshold] = None` when that threshold is null -/
def buildApiScale (brs : List ApiBracket) : List (Int × Option (List (Rat × Option Rat))) :=
  match brs with
  | [] => servedScale brs
  | b0 :: _ =>
    match latestEntry b0.thresholds with
    | some (d, none) => setKey d none (servedScale brs)
    | some (_, some _) => servedScale brs
    | none => servedScale brs

/-- what a reader of `/parameter/<scale>` takes to be in force on day `d`: the row of the latest date
on or before `d` (`none` = no row or a stopped scale), without the brackets whose value is null -/
def apiScaleAt (d : Int) (served : List (Int × Option (List (Rat × Option Rat)))) : Option (List (Rat × Rat)) :=
  (apiGetValue d served).map (fun row => row.filterMap (fun tv => tv.2.map (fun v => (tv.1, v))))

mutual
/-- `/parameters`: the ids (dotted) of the descendants that are not nodes, in `get_descendants`
order; a node is an object, anything else is a parameter or a scale -/
def listedParameters (pre : String) : J → List String
  | .obj kvs => listedParametersKV pre kvs
  | .null => [pre]
  | .bool _ => [pre]
  | .int _ => [pre]
  | .num _ => [pre]
  | .str _ => [pre]
  | .arr _ => [pre]
def listedParametersKV (pre : String) : List (String × J) → List String
  | [] => []
  | (k, v) :: r => listedParameters (if pre = "" then k else pre ++ "." ++ k) v ++ listedParametersKV pre r
end

/-! ## YAML rule tests -/

/-- a scalar of the `output` section as the YAML loader types it -/
inductive Exp where
  | int (n : Int)
  | num (q : Rat)
  | bool (b : Bool)
  | str (s : String)
  | date (d : YMD)
deriving DecidableEq, Repr

/-- an expected value: one scalar (broadcast) or a list (element-wise) -/
inductive Target where
  | scalar (e : Exp)
  | list (es : List Exp)
deriving DecidableEq, Repr

/-- a node of the `output` section -/
inductive Y where
  | leaf (e : Exp)
  | list (es : List Exp)
  | map (kvs : List (String × Y))
deriving Repr, Inhabited

/-- `absolute_error_margin` / `relative_error_margin` after `build_test`: a `{variable: margin}`
table with an optional `default` entry (`none` = no such key); a margin may be `None` -/
structure Margins where
  default : Option (Option Rat)
  per : List (String × Option Rat)
deriving Repr

def lookupM (k : String) : List (String × Option Rat) → Option (Option Rat)
  | [] => none
  | (k', v) :: r => if k' = k then some v else lookupM k r

/-- `ErrorMargin.__getitem__` (`KeyError` when neither the variable nor `default` is there) -/
def marginFor (m : Margins) (var : String) : Except String (Option Rat) :=
  match lookupM var m.per with
  | some x => .ok x
  | none => optE "KeyError: 'default'" m.default

structure YTest where
  period : Option String
  absM : Margins
  relM : Margins
  output : Option (List (String × Y))
  /-- the runner's option `only_variables` (`none` = not given) -/
  only : Option (List String) := none
  /-- the runner's option `ignore_variables` -/
  ignore : Option (List String) := none

/-- `YamlItem.should_ignore_variable` -/
def shouldIgnore (t : YTest) (var : String) : Bool :=
  (match t.ignore with
   | some l => l.contains var
   | none => false) ||
  (match t.only with
   | some l => !l.contains var
   | none => false)

/-- one comparison the test performs -/
structure Expectation where
  /-- the key of the layout: `none` by variable, an entity singular or plural otherwise -/
  entity : Option String
  /-- by entity instance: the instance id -/
  inst : Option String
  var : String
  period : Option String
  expected : Target
deriving DecidableEq, Repr

mutual
/-- `check_variable`: a mapping is `{period: expected}` (recursively), anything else is compared -/
def flattenVar (ent inst : Option String) (var : String) : Option String → Y → List Expectation
  | per, .leaf e => [⟨ent, inst, var, per, .scalar e⟩]
  | per, .list es => [⟨ent, inst, var, per, .list es⟩]
  | _, .map kvs => flattenPeriods ent inst var kvs
def flattenPeriods (ent inst : Option String) (var : String) : List (String × Y) → List Expectation
  | [] => []
  | (p, y) :: r => flattenVar ent inst var (some p) y ++ flattenPeriods ent inst var r
end

/-- by entity: `{variable: expected}` -/
def flattenVars (ent inst : Option String) (per : Option String) : List (String × Y) → List Expectation
  | [] => []
  | (var, y) :: r => flattenVar ent inst var per y ++ flattenVars ent inst per r

/-- by entity instance: `{instance: {variable: expected}}` (`.items()` of a non-mapping raises) -/
def flattenInstances (ent : String) (per : Option String) : List (String × Y) → Except String (List Expectation)
  | [] => .ok []
  | (id, .map kvs) :: r =>
    match flattenInstances ent per r with
    | .error e => .error e
    | .ok xs => .ok (flattenVars (some ent) (some id) per kvs ++ xs)
  | (_, .leaf _) :: _ => .error "not a mapping"
  | (_, .list _) :: _ => .error "not a mapping"

/-- one key of `output` in `check_output`: a variable, else an entity singular, else an entity
plural, else `VariableNotFound` -/
def expectationsOfKey (w : Sim) (per : Option String) (key : String) (y : Y) : Except String (List Expectation) :=
  if (w.vtype key).isSome then .ok (flattenVar none none key per y)
  else if w.singular key then
    match y with
    | .map kvs => .ok (flattenVars (some key) none per kvs)
    | .leaf _ => .error "not a mapping"
    | .list _ => .error "not a mapping"
  else if w.plural key then
    match y with
    | .map kvs => flattenInstances key per kvs
    | .leaf _ => .error "not a mapping"
    | .list _ => .error "not a mapping"
  else .error "VariableNotFound"

def expectationsOfOutput (w : Sim) (per : Option String) : List (String × Y) → Except String (List Expectation)
  | [] => .ok []
  | (key, y) :: r =>
    match expectationsOfKey w per key y with
    | .error e => .error e
    | .ok xs =>
      match expectationsOfOutput w per r with
      | .error e => .error e
      | .ok ys => .ok (xs ++ ys)

/-- every comparison of a test, whatever the layout (`output` missing: `ValueError`) -/
def expectations (w : Sim) (t : YTest) : Except String (List Expectation) :=
  match t.output with
  | none => .error "Missing key 'output'"
  | some out => expectationsOfOutput w t.period out

/-! ### `assert_near` -/

def absQ (q : Rat) : Rat := if q < 0 then -q else q

/-- the numeric decision of `assert_near` on one element: no margin at all means absolute margin
0; each given margin is asserted with `<=` (absolute: `diff <= margin`; relative:
`diff <= abs(margin * target)`) -/
def near (abs rel : Option Rat) (e a : Rat) : Bool :=
  let abs' := if abs.isNone && rel.isNone then some 0 else abs
  (match abs' with
   | some m => decide (absQ (e - a) ≤ m)
   | none => true) &&
  (match rel with
   | some r => decide (absQ (e - a) ≤ absQ (r * e))
   | none => true)

inductive Mode where
  | enum | date | text | numeric
deriving DecidableEq, Repr

/-- `_is_number` on a scalar (repair C20c); text that Python's `float()` accepts is outside the
claim domain and counted as text -/
def Exp.isNum : Exp → Bool
  | .int _ => true | .num _ => true | .bool _ => true | .str _ => false | .date _ => false

def Target.isNum : Target → Bool
  | .scalar e => e.isNum
  | .list es => es.all Exp.isNum

/-- which comparison `assert_near` performs, from the dtype family of the calculated array and
(for text) the expected value as a whole -/
def cmpMode : VType → Target → Mode
  | .enum, _ => .enum
  | .date, _ => .date
  | .str, tg => if tg.isNum then .numeric else .text
  | .int, _ => .numeric
  | .float, _ => .numeric
  | .bool, _ => .numeric

def single? {α : Type} : List α → Option α
  | [] => none
  | [a] => some a
  | _ :: _ :: _ => none

/-- numpy broadcasting of the calculated vector against the expected value -/
def pairUp (vs : List Val) : Target → Except String (List (Val × Exp))
  | .scalar e => .ok (vs.map fun v => (v, e))
  | .list es =>
    if vs.length = es.length then .ok (vs.zip es)
    else
      match single? es with
      | some e => .ok (vs.map fun v => (v, e))
      | none =>
        match single? vs with
        | some v => .ok (es.map fun e => (v, e))
        | none => .error "operands could not be broadcast together"

/-- `astype(float32)` of a calculated element -/
def Val.toNum : Val → Except String Rat
  | .int n => .ok n
  | .num q => .ok q
  | .bool b => .ok (if b then 1 else 0)
  | .str _ => .error "could not convert string to float"
  | .date _ => .error "not numeric"
  | .enum _ => .error "not numeric"

/-- `numpy.array(target).astype(float32)` of an expected scalar (text: `eval_expression` left it
as it is, claim domain) -/
def Exp.toNum : Exp → Except String Rat
  | .int n => .ok n
  | .num q => .ok q
  | .bool b => .ok (if b then 1 else 0)
  | .str _ => .error "could not convert string to float"
  | .date _ => .error "float() argument must be a string or a real number"

def parseNat? (cs : List Char) : Option Nat :=
  if cs.isEmpty then none
  else cs.foldl (fun acc c => match acc with
    | some n => if c.isDigit then some (n * 10 + (c.toNat - '0'.toNat)) else none
    | none => none) (some 0)

/-- `numpy.array(text, dtype='datetime64[D]')` on the full ISO form `YYYY-MM-DD` -/
def parseIso (s : String) : Option YMD :=
  match s.toList with
  | [y1, y2, y3, y4, '-', m1, m2, '-', d1, d2] =>
    match parseNat? [y1, y2, y3, y4], parseNat? [m1, m2], parseNat? [d1, d2] with
    | some y, some m, some d => some ⟨y, m, d⟩
    | _, _, _ => none
  | _ => none

/-- the expected scalar as a day, for a date variable -/
def Exp.toDate : Exp → Except String YMD
  | .date d => .ok d
  | .str s => optE "not a date" (parseIso s)
  | .int _ => .error "claim domain: a number expected of a date"
  | .num _ => .error "claim domain: a number expected of a date"
  | .bool _ => .error "claim domain: a number expected of a date"

/-- `numpy.array(target).astype(str)` of an expected scalar, for a text variable -/
def Exp.toText : Exp → Except String String
  | .str s => .ok s
  | .date d => .ok d.iso
  | .int _ => .error "claim domain: mixed list"
  | .num _ => .error "claim domain: mixed list"
  | .bool _ => .error "claim domain: mixed list"

/-- the comparison of one calculated element with one expected scalar -/
def cmp1 (mode : Mode) (abs rel : Option Rat) (v : Val) (e : Exp) : Except String Bool :=
  match mode with
  | .enum =>                                   -- assert_enum_equals: names compared
    match v, e with
    | .enum name, .str s => .ok (decide (name = s))
    | .enum _, .int _ => .ok false
    | .enum _, .num _ => .ok false
    | .enum _, .bool _ => .ok false
    | .enum _, .date _ => .ok false
    | .int _, _ => .error "not an enum"
    | .num _, _ => .error "not an enum"
    | .bool _, _ => .error "not an enum"
    | .str _, _ => .error "not an enum"
    | .date _, _ => .error "not an enum"
  | .date =>                                   -- assert_datetime_equals, then the numeric tail on diff 0
    match v with
    | .date d =>
      match e.toDate with
      | .error x => .error x
      | .ok d' => .ok (decide (d = d') && near abs rel 0 0)
    | .int _ => .error "not a date"
    | .num _ => .error "not a date"
    | .bool _ => .error "not a date"
    | .str _ => .error "not a date"
    | .enum _ => .error "not a date"
  | .text =>                                   -- assert_text_equals (repair C20c)
    match v with
    | .str s =>
      match e.toText with
      | .error x => .error x
      | .ok s' => .ok (decide (s = s'))
    | .int _ => .error "not text"
    | .num _ => .error "not text"
    | .bool _ => .error "not text"
    | .date _ => .error "not text"
    | .enum _ => .error "not text"
  | .numeric =>
    match v.toNum with
    | .error x => .error x
    | .ok a =>
      match e.toNum with
      | .error x => .error x
      | .ok t => .ok (near abs rel t a)

/-- an assertion that holds (a raise or a failed assertion both abort the test) -/
def holds1 (mode : Mode) (abs rel : Option Rat) (p : Val × Exp) : Bool :=
  match cmp1 mode abs rel p.1 p.2 with
  | .ok b => b
  | .error _ => false

/-- `assert_near(value, target, abs, message, rel)` does not raise -/
def assertNear (t : VType) (vs : List Val) (tg : Target) (abs rel : Option Rat) : Bool :=
  match pairUp vs tg with
  | .error _ => false
  | .ok ps => ps.all (holds1 (cmpMode t tg) abs rel)

/-- the vector `check_variable` compares: the whole one, or `actual[[index]]` (repair C20a) -/
def selectInst (w : Sim) (x : Expectation) (vec : List Val) : Except String (List Val) :=
  match x.inst with
  | none => .ok vec
  | some id =>
    match w.index (x.entity.getD "") id with
    | none => .error "not in list"
    | some i =>
      match vec[i]? with
      | some v => .ok [v]
      | none => .error "index out of bounds"

/-- `population.get_index(instance_id)` in `check_output`, before `check_variable` is entered -/
def instKnown (w : Sim) (x : Expectation) : Bool :=
  match x.inst with
  | none => true
  | some id => (w.index (x.entity.getD "") id).isSome

/-- `check_variable` on one leaf, options set aside -/
def checkValue (w : Sim) (t : YTest) (x : Expectation) : Bool :=
  match x.period with
  | none => false                                   -- calculate(variable, None) raises
  | some per =>
    match w.vtype x.var with
    | none => false                                 -- VariableNotFoundError
    | some ty =>
      match w.calcv x.var per with
      | .error _ => false
      | .ok vec =>
        match selectInst w x vec with
        | .error _ => false
        | .ok vs =>
          match marginFor t.absM x.var, marginFor t.relM x.var with
          | .ok a, .ok r => assertNear ty vs x.expected a r
          | .ok _, .error _ => false
          | .error _, _ => false

/-- one leaf of the `output` section does not raise: the instance is looked up first (an unknown
one raises whatever the options), an ignored variable is skipped, anything else is compared -/
def checkExpectation (w : Sim) (t : YTest) (x : Expectation) : Bool :=
  if instKnown w x = false then false
  else if shouldIgnore t x.var = true then true
  else checkValue w t x

/-- the verdict of `YamlItem.runtest` on a built simulation: `true` = the test passes -/
def verdictSim (w : Sim) (t : YTest) : Bool :=
  match expectations w t with
  | .error _ => false
  | .ok xs => xs.all (checkExpectation w t)

/-- … and when building the simulation from `input` may itself fail -/
def verdict (built : Except String Sim) (t : YTest) : Bool :=
  match built with
  | .error _ => false
  | .ok w => verdictSim w t

end OFCore.Api
