import OFCore.Engine
/-!
# The reads a formula performs (what `FullTracer` records as the children of a calculation)

`runET` is `runE` instrumented: it also returns, in order, every `population(variable, period)`
read made directly by the expression, with the result that read returned.  The full tracer's
tree has one child per such read (`record_calculation_start` … `record_calculation_end` around
every `Simulation.calculate`), in this order.
-/
namespace OFCore.Engine

variable {P : Type} [DecidableEq P]

def runET (sys : Sys P) (n : Nat) (s : St P) : Expr P → Option (Res × Bool × St P × List (Node P × Res))
  | .const k => some (.ok k, false, s, [])
  | .bad => some (.error .fault, false, s, [])
  | .ref v p =>
    match run sys n s v p with
    | none => none
    | some (r, g, s') => some (r, g, s', [((v, p), r)])
  | .fail id a => if sys.armed id then some (.error .fault, false, s, []) else runET sys n s a
  | .op1 o a =>
    match runET sys n s a with
    | none => none
    | some (.error e, g, s1, t) => some (.error e, g, s1, t)
    | some (.ok x, g, s1, t) => some (.ok (sys.f1 o x), g, s1, t)
  | .op2 o a b =>
    match runET sys n s a with
    | none => none
    | some (.error e, g, s1, t) => some (.error e, g, s1, t)
    | some (.ok x, g1, s1, t1) =>
      match runET sys n s1 b with
      | none => none
      | some (.error e, g2, s2, t2) => some (.error e, g1 || g2, s2, t1 ++ t2)
      | some (.ok y, g2, s2, t2) => some (.ok (sys.f2 o x y), g1 || g2, s2, t1 ++ t2)

/-- forget the trace -/
def eraseT (x : Res × Bool × St P × List (Node P × Res)) : Res × Bool × St P := (x.1, x.2.1, x.2.2.1)

/-- the reads the formula in force at a node performs when it completes -/
def readsOf (sys : Sys P) (k : Node P) : List (Node P) :=
  match sys.formula k.1 k.2 with
  | some e => refs e
  | none => []

end OFCore.Engine
