import OFCore.Engine
/-!
# The reads a formula performs (what `FullTracer` records as the children of a calculation)

`runET` is `runE` instrumented: it also returns, in order, every `population(variable, period)`
read made directly by the expression, with the result that read returned.  The full tracer's
tree has one child per such read (`record_calculation_start` … `record_calculation_end` around
every `Simulation.calculate`), in this order.
-/
namespace OFCore.Engine

variable {P : Type} [DecidableEq P]

def runET (sys : Sys P) (n : Nat) (s : St P) : Expr P → Option (Res × Bool × St P × List (Node P × Res))
  | .const k => some (.ok k, false, s, [])
  | .bad => some (.error .fault, false, s, [])
  | .ref v p =>
    match run sys n s v p with
    | none => none
    | some (r, g, s') => some (r, g, s', [((v, p), r)])
  | .fail id a => if sys.armed id then some (.error .fault, false, s, []) else runET sys n s a
  | .op1 o a =>
    match runET sys n s a with
    | none => none
    | some (.error e, g, s1, t) => some (.error e, g, s1, t)
    | some (.ok x, g, s1, t) => some (.ok (sys.f1 o x), g, s1, t)
  | .op2 o a b =>
    match runET sys n s a with
    | none => none
    | some (.error e, g, s1, t) => some (.error e, g, s1, t)
    | some (.ok x, g1, s1, t1) =>
      match runET sys n s1 b with
      | none => none
      | some (.error e, g2, s2, t2) => some (.error e, g1 || g2, s2, t1 ++ t2)
      | some (.ok y, g2, s2, t2) => some (.ok (sys.f2 o x y), g1 || g2, s2, t1 ++ t2)

/-- forget the trace -/
def eraseT (x : Res × Bool × St P × List (Node P × Res)) : Res × Bool × St P := (x.1, x.2.1, x.2.2.1)

/-- the reads the formula in force at a node performs when it completes -/
def readsOf (sys : Sys P) (k : Node P) : List (Node P) :=
  match sys.formula k.1 k.2 with
  | some e => refs e
  | none => []


/-! ## the whole trace of a request

`runL` is `run` instrumented at every level: it returns the LOG of the request — one entry per
calculation opened (`Simulation.calculate` → `record_calculation_start`), in chronological order
(a calculation before the calculations it opens): the node, what it returned, and its direct
reads with what they returned.  This is the content of `FullTracer.trees` / `get_flat_trace`
(`dependencies` = the direct reads; a read served from the cache, an input, a substituted spiral
default or a refused cycle opens no further calculation). -/

/-- one recorded calculation -/
abbrev Entry (P : Type) := Node P × Res × List (Node P × Res)
abbrev Log (P : Type) := List (Entry P)

mutual
def runL (sys : Sys P) : Nat → St P → Nat → P → Option (Res × Bool × St P × Log P)
  | 0, _, _, _ => none
  | n+1, s, v, p =>
    match lookup s.cache (sys.slot (v, p)) with
    | some (x, g) =>
      let s' := if sys.slot (v, p) ∈ s.inval.map sys.slot then { s with inval := s.stack ++ s.inval } else s
      some (.ok x, g, s', [((v, p), .ok x, [])])
    | none =>
      match sys.input v p with
      | some x => some (.ok x, false, s, [((v, p), .ok x, [])])
      | none =>
        if (v, p) ∈ s.stack then some (.error .cycle, false, s, [((v, p), .error .cycle, [])])
        else if sys.msl ≤ (s.stack.filter (fun k => k.1 = v)).length then
          some (.ok (sys.dflt v), true,
            { s with inval := (v, p) :: markSpiral v (if sys.markAll then s.stack.length + 1 else sys.msl) s.stack ++ s.inval },
            [((v, p), .ok (sys.dflt v), [])])
        else
        match sys.formula v p with
        | none =>
          let x := sys.post v (sys.dflt v)
          some (.ok x, false, { s with cache := store sys s.cache (sys.slot (v, p)) x false }, [((v, p), .ok x, [])])
        | some e =>
          match runLE sys n { s with stack := (v, p) :: s.stack } e with
          | none => none
          | some (.error er, g, s', t, l) =>
            some (.error er, g, { s' with stack := s'.stack.tail }, ((v, p), .error er, t) :: l)
          | some (.ok x, g, s', t, l) =>
            some (.ok (sys.post v x), g,
              { s' with cache := store sys s'.cache (sys.slot (v, p)) (sys.post v x) g, stack := s'.stack.tail },
              ((v, p), .ok (sys.post v x), t) :: l)
def runLE (sys : Sys P) : Nat → St P → Expr P → Option (Res × Bool × St P × List (Node P × Res) × Log P)
  | _, s, .const k => some (.ok k, false, s, [], [])
  | _, s, .bad => some (.error .fault, false, s, [], [])
  | n, s, .ref v p =>
    match runL sys n s v p with
    | none => none
    | some (r, g, s', l) => some (r, g, s', [((v, p), r)], l)
  | n, s, .fail id a => if sys.armed id then some (.error .fault, false, s, [], []) else runLE sys n s a
  | n, s, .op1 o a =>
    match runLE sys n s a with
    | none => none
    | some (.error e, g, s1, t, l) => some (.error e, g, s1, t, l)
    | some (.ok x, g, s1, t, l) => some (.ok (sys.f1 o x), g, s1, t, l)
  | n, s, .op2 o a b =>
    match runLE sys n s a with
    | none => none
    | some (.error e, g, s1, t, l) => some (.error e, g, s1, t, l)
    | some (.ok x, g1, s1, t1, l1) =>
      match runLE sys n s1 b with
      | none => none
      | some (.error e, g2, s2, t2, l2) => some (.error e, g1 || g2, s2, t1 ++ t2, l1 ++ l2)
      | some (.ok y, g2, s2, t2, l2) => some (.ok (sys.f2 o x y), g1 || g2, s2, t1 ++ t2, l1 ++ l2)
end

/-- forget the log -/
def eraseL (x : Res × Bool × St P × Log P) : Res × Bool × St P := (x.1, x.2.1, x.2.2.1)
def eraseLE (x : Res × Bool × St P × List (Node P × Res) × Log P) : Res × Bool × St P := (x.1, x.2.1, x.2.2.1)

/-- what the statement asks of one recorded calculation: it lists no read at all (a value served
    from the cache, an input, a default), or exactly the reads of the formula in force at its
    node, in order, each with a value — all of them when it completed, a prefix ending at the read
    that failed otherwise -/
def TraceOK (sys : Sys P) (en : Entry P) : Prop :=
  en.2.2 = [] ∨ ∃ e, sys.formula en.1.1 en.1.2 = some e ∧ (en.2.2.map (·.1)) <+: refs e ∧
    ((∃ x, en.2.1 = .ok x) → en.2.2.map (·.1) = refs e ∧ ∀ kr ∈ en.2.2, ∃ y, kr.2 = .ok y)

end OFCore.Engine
