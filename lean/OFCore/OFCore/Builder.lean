import OFCore.PeriodText
/-!
# Situation document → simulation (import-free apart from the period model)

Transcription of the REPAIRED code (fixes C12a … C12f and C12gh, C12i, C12j, C12k, C12l, C12n, C12-errclass-axes applied):

* `openfisca_core/simulations/simulation_builder.py` : `build_from_dict`, `build_from_entities`,
  `explicit_singular_entities`, `add_person_entity`, `add_group_entity`,
  `add_default_group_entity`, `check_persons_to_allocate`, `init_variable_values`,
  `add_variable_value`, `get_input`, `expand_axes`, `finalize_variables_init`
* `_build_from_variables.py`, `_build_default_simulation.py`, `helpers.py`, `_type_guards.py`
* `openfisca_core/variables/variable.py` : `check_set_value`, `default_array`

A document is a JSON-like tree (`Doc`); objects are association lists whose keys are text or
integers (a Python `dict` built from YAML may have integer keys).  Period keys are read ONLY
through `parseKey` (= `periods.period`), the input buffer is keyed by the canonical text
`Period.text (parseKey k)` on the reading and on the writing side (repair C12a).

The distribution of an input over sub-periods (`Holder.set_input`, `set_input_dispatch_by_period`,
`set_input_divide_by_period`) is NOT modelled here: `finalize` takes it as a parameter
`setInput`.  `stdSetInput` at the end of the file is the instance the driver runs.

Errors: `situation` = `SituationParsingError`; `other` = any other exception;
`unmodelled` = the input leaves the part of Python/numpy behaviour this model transcribes
(never produced on the claimed streams of the correspondence check).
-/
namespace OFCore.Bld

/-! ## documents -/

/-- a `dict` key -/
inductive DKey
  | s (v : String)
  | i (v : Int)
deriving DecidableEq, Repr, Inhabited

/-- Python `str(key)` -/
def DKey.text : DKey → String
  | .s v => v
  | .i v => toString v

inductive Doc
  | null
  | bool (b : Bool)
  | int (i : Int)
  | num (r : Rat)
  | str (s : String)
  | date (o : Int)                       -- a `datetime.date` (YAML), as its proleptic ordinal
  | arr (xs : List Doc)
  | obj (kvs : List (DKey × Doc))
deriving Inhabited

inductive BErr | situation | other | unmodelled
deriving DecidableEq, Repr, Inhabited

abbrev R := Except BErr

/-- `dict.get(key)` for a text key -/
def lookupS (k : String) : List (DKey × Doc) → Option Doc
  | [] => none
  | (k', v) :: r => if k' = DKey.s k then some v else lookupS k r

/-! ## the tax-benefit system, as far as the builder reads it -/

structure Role where
  key : String
  plural : Option String
  max : Option Nat
  subroles : List String
deriving Repr, Inhabited, DecidableEq

/-- `role.plural or role.key` -/
def Role.docKey (r : Role) : String := r.plural.getD r.key

/-- `role.max` after `GroupEntity.__init__` (`len(subroles)` when there are sub-roles) -/
def Role.effMax (r : Role) : Option Nat :=
  if r.subroles = [] then r.max else some r.subroles.length

/-- `role.subroles or [role]`, as keys -/
def Role.flat (r : Role) : List String := if r.subroles = [] then [r.key] else r.subroles

/-- `role.subroles[index] if role.subroles else role`, as a key -/
def Role.roleAt (r : Role) (t : Nat) : String :=
  if r.subroles = [] then r.key else r.subroles.getD t ""

structure GroupKind where
  key : String
  plural : String
  roles : List Role
deriving Repr, Inhabited, DecidableEq

def GroupKind.flatRoles (g : GroupKind) : List String := g.roles.flatMap Role.flat

inductive VType | int | float | bool | str | date | enum (names : List String)
deriving DecidableEq, Repr, Inhabited

inductive SRule | absent | dispatch | divide
deriving DecidableEq, Repr, Inhabited

inductive Val
  | int (i : Int)
  | num (r : Rat)
  | bool (b : Bool)
  | str (s : String)
  | date (o : Int)       -- proleptic ordinal
  | enum (k : Nat)       -- index
deriving DecidableEq, Repr, Inhabited

abbrev Vec := List Val

structure Var where
  name : String
  entity : String        -- key of its entity
  vtype : VType
  defUnit : DUnit
  default : Val
  rule : SRule
  stop : Option Date := none     -- the variable's `end` attribute (inclusive)
deriving Repr, Inhabited, DecidableEq

structure Sys where
  personKey : String
  personPlural : String
  groups : List GroupKind
  vars : List Var
deriving Repr, Inhabited

def Sys.var? (sys : Sys) (name : String) : Option Var := sys.vars.find? (fun v => v.name == name)

/-- `tax_benefit_system.entities_plural()` -/
def Sys.plurals (sys : Sys) : List String := sys.personPlural :: sys.groups.map (·.plural)

/-- `tax_benefit_system.entities_by_singular()` : (key, plural) -/
def Sys.singulars (sys : Sys) : List (String × String) :=
  (sys.personKey, sys.personPlural) :: sys.groups.map (fun g => (g.key, g.plural))

/-! ## period keys -/

/-- `periods.period(key)` on a text or integer key -/
def parseKey : DKey → Except String Period
  | .s v => parsePeriod v.toList
  | .i n => .ok ⟨.year, ⟨n, 1, 1⟩, 1⟩

/-- `str(periods.period(key))` : the key of the input buffer -/
def canonKey (k : DKey) : Except String (List Char) := (parseKey k).map Period.text

/-! ## `Variable.check_set_value` -/

/-- float → int32 : truncation towards zero -/
def truncR (x : Rat) : Int := Int.tdiv x.num (x.den : Int)

inductive ETok | num (r : Rat) | plus | minus | times
deriving DecidableEq, Repr

/-- value of a string of digits read after the decimal point: (numerator, 10^digits) -/
def fracVal (ds : List Char) : Rat :=
  ds.foldr (fun c acc => (((digitVal c).getD 0 : Nat) + acc) / 10) 0

def digitsNat (ds : List Char) : Nat := ds.foldl (fun a c => a * 10 + (digitVal c).getD 0) 0

/-- a Python decimal literal `digits[.digits]` / `.digits` at the head of the text; an integer
literal with a leading zero that is not all zeros is a syntax error -/
def lexNumber (cs : List Char) : Option (Rat × List Char) :=
  let ip := cs.takeWhile isDigit
  let r1 := cs.dropWhile isDigit
  match r1 with
  | '.' :: r2 =>
    let fp := r2.takeWhile isDigit
    if ip = [] ∧ fp = [] then none
    else some ((digitsNat ip : Rat) + fracVal fp, r2.dropWhile isDigit)
  | _ =>
    if ip = [] then none
    else if ip.length > 1 ∧ ip.head? = some '0' ∧ ip.any (· ≠ '0') then none
    else some ((digitsNat ip : Rat), r1)

/-- tokens of an arithmetic expression over `0-9 . + - * blank`; `none` = not in that language -/
def lexExpr : Nat → List Char → Option (List ETok)
  | 0, _ => none
  | _ + 1, [] => some []
  | fuel + 1, c :: cs =>
    if c = ' ' then lexExpr fuel cs
    else if c = '+' then (lexExpr fuel cs).map (ETok.plus :: ·)
    else if c = '-' then (lexExpr fuel cs).map (ETok.minus :: ·)
    else if c = '*' then (lexExpr fuel cs).map (ETok.times :: ·)
    else match lexNumber (c :: cs) with
      | none => none
      | some (r, rest) =>
        if rest.length < (c :: cs).length then (lexExpr fuel rest).map (ETok.num r :: ·) else none

/-- `('+'|'-')* number` : the signed value and the remaining tokens -/
def parseUnary : List ETok → Option (Rat × List ETok)
  | .plus :: r => parseUnary r
  | .minus :: r => (parseUnary r).map (fun (v, rest) => (-v, rest))
  | .num v :: r => some (v, r)
  | _ => none

/-- `unary (op unary)*` with the usual precedence: `acc` = finished sum, `cur` = running product -/
def parseRest : Nat → Rat → Rat → List ETok → Option Rat
  | _, acc, cur, [] => some (acc + cur)
  | 0, _, _, _ :: _ => none
  | fuel + 1, acc, cur, .plus :: r =>
    match parseUnary r with
    | some (v, rest) => parseRest fuel (acc + cur) v rest
    | none => none
  | fuel + 1, acc, cur, .minus :: r =>
    match parseUnary r with
    | some (v, rest) => parseRest fuel (acc + cur) (-v) rest
    | none => none
  | fuel + 1, acc, cur, .times :: r =>
    match parseUnary r with
    | some (v, rest) => parseRest fuel acc (cur * v) rest
    | none => none
  | _ + 1, _, _, .num _ :: _ => none

def exprAlphabet (c : Char) : Bool := isDigit c || c = '.' || c = '+' || c = '-' || c = '*' || c = ' '

def hasPower : List Char → Bool
  | '*' :: '*' :: _ => true
  | _ :: r => hasPower r
  | [] => false

def isLetter (c : Char) : Bool := ('a' ≤ c ∧ c ≤ 'z') || ('A' ≤ c ∧ c ≤ 'Z')

/-- words `numexpr` or numpy give a meaning to -/
def specialWords : List String :=
  ["true", "false", "nan", "inf", "infinity", "none", "expression", "numexpr", "numpy", "t", "e", "pi"]

/-- a word that `numexpr` does not know (`KeyError`: the text is kept) and numpy cannot read as
a number -/
def isPlainWord (cs : List Char) : Bool :=
  cs ≠ [] && cs.all isLetter && !(specialWords.contains (String.ofList (lower cs)))

/-- `commons.eval_expression(text)` followed by the conversion to a number:
`ok r` the value, `situation` a `SyntaxError` or a text that is not a number -/
def numOfText (s : String) : R Rat :=
  let cs := s.toList
  if cs.all exprAlphabet then
    if hasPower cs then .error .unmodelled
    else if cs.head? = some ' ' then .error .situation          -- IndentationError
    else match lexExpr (cs.length + 1) cs with
      | none => .error .situation
      | some toks =>
        match parseUnary toks with
        | none => .error .situation
        | some (v, rest) =>
          match parseRest (rest.length + 1) 0 v rest with
          | some r => .ok r
          | none => .error .situation
  else if isPlainWord cs then .error .situation
  else .error .unmodelled

/-- ordinal of 1970-01-01 -/
def epochOrd : Int := 719163

/-- numpy `datetime64[D]` from ISO text `YYYY`, `YYYY-MM`, `YYYY-MM-DD` -/
def dateOfText (s : String) : R Int :=
  let cs := s.toList
  match lexIso cs with
  | some (.y y) => if dateOk ⟨y, 1, 1⟩ then .ok (ord ⟨y, 1, 1⟩) else .error .unmodelled
  | some (.ym y m) => if dateOk ⟨y, m, 1⟩ then .ok (ord ⟨y, m, 1⟩) else .error .unmodelled
  | some (.ymd y m d) =>
    if y = 0 then .error .unmodelled
    else if dateOk ⟨y, m, d⟩ then .ok (ord ⟨y, m, d⟩) else .error .situation
  | some (.yw _ _) => .error .situation
  | some (.ywd _ _ _) => .error .situation
  | some (.yd _ _) => .error .unmodelled
  | none =>
    if isPlainWord cs then .error .situation
    else match cs with
      -- YYYY-MM-DD with a month or a day outside the ranges the ISO expression lets through
      | [a, b, c, d, '-', m1, m2, '-', d1, d2] =>
        if [a, b, c, d, m1, m2, d1, d2].all isDigit ∧ a ≠ '0' then .error .situation else .error .unmodelled
      | _ => .error .unmodelled

/-- what fits a C `long`: beyond it numpy raises `OverflowError` ("too large") -/
def inInt64 (i : Int) : Bool := decide (-9223372036854775808 ≤ i ∧ i ≤ 9223372036854775807)

def inInt32 (i : Int) : Bool := decide (-2147483648 ≤ i ∧ i ≤ 2147483647)

/-- `numpy.iinfo(dtype).min <= value <= numpy.iinfo(dtype).max` (repair C12n) for the `int32` of an
integer variable / the `int16` of an enum index; the value itself is compared, not its truncation -/
def ratIn (lo hi : Int) (r : Rat) : Bool := decide ((lo : Rat) ≤ r ∧ r ≤ (hi : Rat))
def ratInInt32 (r : Rat) : Bool := ratIn (-2147483648) 2147483647 r
def ratInInt16 (r : Rat) : Bool := ratIn (-32768) 32767 r

/-- a list given where one value is expected: `array[index] = sequence` raises (repair C12c) -/
def listAsScalar (xs : List Doc) : R Val :=
  if xs.length = 1 then .error .unmodelled else .error .situation

/-- `Variable.check_set_value(value)` followed by `array[instance_index] = value`
(the value is not `None`) -/
def checkSetValue (var : Var) (d : Doc) : R Val :=
  match var.vtype, d with
  | _, .null => .error .unmodelled
  -- a `datetime.date`
  | .date, .date o => .ok (.date o)
  | .float, .date _ => .error .situation
  | .int, .date _ => .error .situation
  | .enum _, .date _ => .error .situation
  | .bool, .date _ => .ok (.bool true)
  | .str, .date _ => .error .unmodelled
  -- float
  | .float, .int i => .ok (.num i)
  | .float, .num r => .ok (.num r)
  | .float, .bool b => .ok (.num (if b then 1 else 0))
  | .float, .str s => (numOfText s).map Val.num
  | .float, .arr xs => listAsScalar xs
  | .float, .obj _ => .error .situation
  -- int
  | .int, .int i => if ratInInt32 i then .ok (.int i) else .error .situation
  | .int, .num r => if ratInInt32 r then .ok (.int (truncR r)) else .error .situation
  | .int, .bool b => .ok (.int (if b then 1 else 0))
  | .int, .str s => match numOfText s with
    | .error e => .error e
    | .ok r => if inInt32 (truncR r) then .ok (.int (truncR r)) else .error .unmodelled
  | .int, .arr xs => listAsScalar xs
  | .int, .obj _ => .error .situation
  -- bool
  | .bool, .bool b => .ok (.bool b)
  | .bool, .int i => .ok (.bool (i != 0))
  | .bool, .num r => .ok (.bool (r != 0))
  | .bool, .str s => .ok (.bool (s != ""))
  | .bool, .arr xs => if xs.length ≥ 2 then .error .situation else .error .unmodelled
  | .bool, .obj _ => .error .unmodelled
  -- str
  | .str, .str s => .ok (.str s)
  | .str, .bool _ => .error .unmodelled
  | .str, .int _ => .error .unmodelled
  | .str, .num _ => .error .unmodelled
  | .str, .arr _ => .error .unmodelled
  | .str, .obj _ => .error .unmodelled
  -- date
  | .date, .str s => (dateOfText s).map Val.date
  | .date, .int i =>
    if !inInt64 i then .error .situation
    else if -700000 ≤ i ∧ i ≤ 2900000 then .ok (.date (epochOrd + i)) else .error .unmodelled
  | .date, .bool _ => .error .unmodelled
  | .date, .num _ => .error .situation
  | .date, .arr _ => .error .situation
  | .date, .obj _ => .error .situation
  -- enum
  | .enum names, .str s => if s ∈ names then .ok (.enum (names.idxOf s)) else .error .situation
  | .enum names, .int i =>
    if !ratInInt16 i then .error .situation
    else if 0 ≤ i ∧ i < names.length then .ok (.enum i.toNat) else .error .unmodelled
  | .enum _, .bool _ => .error .unmodelled
  | .enum _, .num r => if ratInInt16 r then .error .unmodelled else .error .situation
  | .enum _, .arr xs => listAsScalar xs
  | .enum _, .obj _ => .error .situation


/-! ## small tools -/

/-- `Except` fold, left to right, first error wins -/
def foldE {α σ : Type} (f : σ → α → R σ) : σ → List α → R σ
  | s, [] => .ok s
  | s, x :: xs => match f s x with
    | .error e => .error e
    | .ok s' => foldE f s' xs

/-- `Except` map, left to right, first error wins -/
def mapE {α β : Type} (f : α → R β) : List α → R (List β)
  | [] => .ok []
  | x :: xs => match f x with
    | .error e => .error e
    | .ok y => match mapE f xs with
      | .error e => .error e
      | .ok ys => .ok (y :: ys)

def Doc.asObj? : Doc → Option (List (DKey × Doc))
  | .obj kvs => some kvs
  | .null => none | .bool _ => none | .int _ => none | .num _ => none | .str _ => none | .arr _ => none
  | .date _ => none

def Doc.asArr? : Doc → Option (List Doc)
  | .arr xs => some xs
  | .null => none | .bool _ => none | .int _ => none | .num _ => none | .str _ => none | .obj _ => none
  | .date _ => none

def Doc.str? : Doc → Option String
  | .str s => some s
  | .null => none | .bool _ => none | .int _ => none | .num _ => none | .arr _ => none | .obj _ => none
  | .date _ => none

def Doc.isNull : Doc → Bool
  | .null => true
  | .bool _ => false | .int _ => false | .num _ => false | .str _ => false | .arr _ => false | .obj _ => false
  | .date _ => false

/-- association list read: the first entry for the key -/
def alGet {κ β : Type} [DecidableEq κ] : List (κ × β) → κ → Option β
  | [], _ => none
  | (k', v) :: r, k => if k' = k then some v else alGet r k

/-- association list write: replaces the entry in place, or appends a new one (`dict[k] = v`) -/
def alSet {κ β : Type} [DecidableEq κ] : List (κ × β) → κ → β → List (κ × β)
  | [], k, v => [(k, v)]
  | (k', v') :: r, k, v => if k' = k then (k, v) :: r else (k', v') :: alSet r k v

/-! ## the input buffer: (variable, canonical period text) → array under construction -/

abbrev Buffer := List ((String × List Char) × Vec)

/-- one `add_variable_value` that passed its checks: `array[idx] = val` on the array buffered
under `(var, key)`, created with `size` defaults when it does not exist yet -/
structure Write where
  var : String
  key : List Char
  idx : Nat
  val : Val
  size : Nat
  dflt : Val
deriving Repr, Inhabited, DecidableEq

/-- `get_input` (canonical key, repair C12a), `default_array`, `array[idx] = value`,
`input_buffer[name][canonical key] = array` -/
def applyWrite (buf : Buffer) (w : Write) : Buffer :=
  let arr := (alGet buf (w.var, w.key)).getD (List.replicate w.size w.dflt)
  alSet buf (w.var, w.key) (arr.set w.idx w.val)

def applyWrites (buf : Buffer) (ws : List Write) : Buffer := ws.foldl applyWrite buf

/-- `variable.definition_period == ETERNITY`, by name -/
def isEternal (sys : Sys) (name : String) : Bool :=
  match sys.var? name with
  | some v => decide (v.defUnit = .eternity)
  | none => false

/-- the key of the first write, in document order, to variable `var` -/
def firstKeyOf (ws : List Write) (var : String) : Option (List Char) :=
  (ws.find? (fun w => w.var == var)).map (·.key)

/-- `get_buffer_key` (repair C12j) on the writes of ONE entity (the variables of an entity are
buffered by that entity's instances only): the canonical text of the period — except that every
input of a variable defined for eternity joins the entry buffered first for that variable, whatever
period key it is given under -/
def resolveKeys (sys : Sys) (ws : List Write) : List Write :=
  ws.map (fun w => if isEternal sys w.var then { w with key := (firstKeyOf ws w.var).getD w.key } else w)

/-- `get_buffer_key` against a buffer (axes): the entry buffered first for an eternal variable -/
def bufferKey (sys : Sys) (buf : Buffer) (name : String) (ck : List Char) : List Char :=
  if isEternal sys name then
    match buf.find? (fun e => e.1.1 == name) with
    | some e => e.1.2
    | none => ck
  else ck

/-- `add_variable_value` up to the buffer write, for one `(period key, value)` pair -/
def valueWrite (var : Var) (size idx : Nat) (kv : DKey × Doc) : R (Option Write) :=
  match canonKey kv.1 with
  | .error _ => .error .situation
  | .ok ck =>
    if kv.2.isNull then .ok none
    else match checkSetValue var kv.2 with
      | .error e => .error e
      | .ok v => .ok (some ⟨var.name, ck, idx, v, size, var.default⟩)

/-- the `{period: value}` pairs of one variable of one instance (`init_variable_values`): a value
that is not an object is read at the default period -/
def variablePairs (dp : Option String) (d : Doc) : Option (List (DKey × Doc)) :=
  match d.asObj? with
  | some kvs => some kvs
  | none => dp.map (fun p => [(DKey.s p, d)])

/-- one variable of one instance -/
def variableWrites (sys : Sys) (entKey : String) (dp : Option String) (size idx : Nat)
    (kv : DKey × Doc) : R (List Write) :=
  match sys.var? kv.1.text with
  | none => .error .situation
  | some var =>
    if var.entity ≠ entKey then .error .situation else
    match variablePairs dp kv.2 with
    | none => .error .situation
    | some kvs => (mapE (valueWrite var size idx) kvs).map (fun ws => ws.filterMap id)

/-- `init_variable_values(entity, instance_object, instance_id)` -/
def instanceWrites (sys : Sys) (entKey : String) (dp : Option String) (ids : List String)
    (id : String) (vars : List (DKey × Doc)) : R (List Write) :=
  (mapE (variableWrites sys entKey dp ids.length (ids.idxOf id)) vars).map List.flatten

/-! ## entities -/

structure Ent where
  key : String
  plural : String
  isPerson : Bool
  ids : List String
  memb : List Nat          -- members_entity_id (empty for the person entity)
  roles : List String      -- members_role keys (empty for the person entity)
deriving Repr, Inhabited, DecidableEq

def Ent.count (e : Ent) : Nat := e.ids.length

/-- one instance of the person entity -/
def personInstance (sys : Sys) (dp : Option String) (ids : List String) (kv : DKey × Doc) : R (List Write) :=
  match kv.2.asObj? with
  | none => .error .situation
  | some vars => instanceWrites sys sys.personKey dp ids kv.1.text vars

/-- `add_person_entity` : ids and buffer writes -/
def addPersonEntity (sys : Sys) (dp : Option String) (d : Doc) : R (List String × List Write) :=
  match d.asObj? with
  | none => .error .situation
  | some kvs =>
    let ids := kvs.map (fun kv => kv.1.text)
    (mapE (personInstance sys dp ids) kvs).map (fun ws => (ids, ws.flatten))

def strictItem : Doc → Doc
  | .int i => .str (toString i)
  | .bool b => .str (if b then "True" else "False")
  | .null => .null | .num r => .num r | .str s => .str s | .arr xs => .arr xs | .obj kvs => .obj kvs
  | .date o => .date o

/-- `helpers.transform_to_strict_syntax` -/
def strictSyntax : Doc → Doc
  | .str s => .arr [.str s]
  | .int i => .arr [.str (toString i)]
  | .bool b => .arr [.str (if b then "True" else "False")]
  | .arr xs => .arr (xs.map strictItem)
  | .null => .null | .num r => .num r | .obj kvs => .obj kvs | .date o => .date o

/-- `roles_json` of one instance: for every role, the strict form of what the instance gives
under `role.plural or role.key` (nothing = `[]`) -/
def roleDocs (g : GroupKind) (ikvs : List (DKey × Doc)) : List (Role × Doc) :=
  g.roles.map (fun r => (r, strictSyntax ((lookupS r.docKey ikvs).getD (.arr []))))

/-- `variables_json` : the instance without its role entries -/
def variablesJson (g : GroupKind) (ikvs : List (DKey × Doc)) : List (DKey × Doc) :=
  ikvs.filter (fun kv => !(g.roles.map (fun r => DKey.s r.docKey)).contains kv.1)

/-- the persons a role entry lists -/
def Doc.strs (d : Doc) : List String := (d.asArr?.getD []).filterMap Doc.str?

/-- `check_persons_to_allocate` + `persons_to_allocate.discard` -/
def allocOne (personsIds : List String) (ta : List String) (d : Doc) : R (List String) :=
  match d.str? with
  | none => .error .situation
  | some pid =>
    if pid ∉ personsIds then .error .situation
    else if pid ∉ ta then .error .situation
    else .ok (ta.filter (· ≠ pid))

def allocRole (personsIds : List String) (ta : List String) (rd : Role × Doc) : R (List String) :=
  match rd.2.asArr? with
  | none => .error .situation
  | some xs => foldE (allocOne personsIds) ta xs

/-- `role.max is not None and len(persons_with_role) > role.max` -/
def maxOk (rd : Role × Doc) : Bool :=
  match rd.1.effMax with
  | none => true
  | some m => decide ((rd.2.asArr?.getD []).length ≤ m)

/-- `memberships[person_index] = entity_index; roles[person_index] = …` -/
structure MWrite where
  pidx : Nat
  gidx : Nat
  role : String
deriving Repr, Inhabited, DecidableEq

def roleMWrites (personsIds : List String) (gidx : Nat) (rd : Role × Doc) : List MWrite :=
  (List.zipIdx rd.2.strs).map (fun (pid, t) => ⟨personsIds.idxOf pid, gidx, rd.1.roleAt t⟩)

structure GAcc where
  toAlloc : List String
  mws : List MWrite
  ws : List Write
deriving Repr, Inhabited

/-- one iteration of the instance loop of `add_group_entity` -/
def groupStep (sys : Sys) (dp : Option String) (g : GroupKind) (personsIds gids : List String)
    (acc : GAcc) (kv : DKey × Doc) : R GAcc :=
  match kv.2.asObj? with
  | none => .error .situation
  | some ikvs =>
    let rds := roleDocs g ikvs
    match foldE (allocRole personsIds) acc.toAlloc rds with
    | .error e => .error e
    | .ok ta =>
      let gidx := gids.idxOf kv.1.text
      if !(rds.all maxOk) then .error .situation else
      match instanceWrites sys g.key dp gids kv.1.text (variablesJson g ikvs) with
      | .error e => .error e
      | .ok ws => .ok ⟨ta, acc.mws ++ rds.flatMap (roleMWrites personsIds gidx), acc.ws ++ ws⟩

def applyM (n : Nat) (mws : List MWrite) : List Nat × List String :=
  mws.foldl (fun (acc : List Nat × List String) w => (acc.1.set w.pidx w.gidx, acc.2.set w.pidx w.role))
    (List.replicate n 0, List.replicate n "")

/-- arrays of the variables of entity `key` buffered so far are resized to `n` (repair C12f) -/
def padBuffer (sys : Sys) (key : String) (n : Nat) (buf : Buffer) : Buffer :=
  buf.map (fun e => match sys.var? e.1.1 with
    | some var => if var.entity = key then (e.1, e.2 ++ List.replicate (n - e.2.length) var.default) else e
    | none => e)

/-- `add_group_entity` -/
def addGroupEntity (sys : Sys) (dp : Option String) (g : GroupKind) (personsIds : List String)
    (d : Doc) (buf : Buffer) : R (Ent × Buffer) :=
  match d.asObj? with
  | none => .error .situation
  | some kvs =>
    let gids := kvs.map (fun kv => kv.1.text)
    match foldE (groupStep sys dp g personsIds gids) ⟨personsIds, [], []⟩ kvs with
    | .error e => .error e
    | .ok acc =>
      let buf1 := applyWrites buf (resolveKeys sys acc.ws)
      if acc.toAlloc = [] then
        let mr := applyM personsIds.length acc.mws
        .ok (⟨g.key, g.plural, false, gids, mr.1, mr.2⟩, buf1)
      else
        match g.flatRoles.head? with
        | none => .error .other
        | some r0 =>
          let gids' := gids ++ acc.toAlloc
          -- repair C12i: the own-group is located by its position, not by looking the id up
          let own := (List.zipIdx acc.toAlloc).map (fun (pid, off) =>
            (⟨personsIds.idxOf pid, gids.length + off, r0⟩ : MWrite))
          let mr := applyM personsIds.length (acc.mws ++ own)
          .ok (⟨g.key, g.plural, false, gids', mr.1, mr.2⟩, padBuffer sys g.key gids'.length buf1)

/-- `add_default_group_entity` -/
def addDefaultGroupEntity (g : GroupKind) (personsIds : List String) : R Ent :=
  match g.flatRoles.head? with
  | none => .error .other
  | some r0 => .ok ⟨g.key, g.plural, false, personsIds, List.range personsIds.length,
      List.replicate personsIds.length r0⟩

/-- `params.get(plural)` : JSON `null` is Python's `None` -/
def getEntityDoc (plural : String) (params : List (DKey × Doc)) : Option Doc :=
  match lookupS plural params with
  | none => none
  | some d => if d.isNull then none else some d

structure BState where
  ents : List Ent
  buf : Buffer
deriving Repr, Inhabited

def groupsStep (sys : Sys) (dp : Option String) (params : List (DKey × Doc)) (hasAxes : Bool)
    (personsIds : List String) (st : BState) (g : GroupKind) : R BState :=
  match getEntityDoc g.plural params with
  | some d =>
    match addGroupEntity sys dp g personsIds d st.buf with
    | .error e => .error e
    | .ok (e, buf) => .ok ⟨st.ents ++ [e], buf⟩
  | none =>
    if hasAxes then .error .situation
    else match addDefaultGroupEntity g personsIds with
      | .error e => .error e
      | .ok e => .ok ⟨st.ents ++ [e], st.buf⟩

/-- `helpers.has_unexpected_entities` : a truthy key that is not an entity plural -/
def unexpectedKey (sys : Sys) : DKey → Bool
  | .s v => v ≠ "" && !(sys.plurals.contains v)
  | .i n => n ≠ 0

/-- Python truthiness of `persons_json` -/
def Doc.truthy : Doc → Bool
  | .null => false
  | .bool b => b
  | .int i => i ≠ 0
  | .num r => r ≠ 0
  | .str s => s ≠ ""
  | .date _ => true
  | .arr xs => !xs.isEmpty
  | .obj kvs => !kvs.isEmpty

/-- `build_from_entities` up to (excluding) the axes: entities, memberships, buffered inputs -/
def buildEntities (sys : Sys) (dp : Option String) (params : List (DKey × Doc)) (hasAxes : Bool) : R BState :=
  if params.any (fun kv => unexpectedKey sys kv.1) then .error .situation else
  match lookupS sys.personPlural params with
  | none => .error .situation
  | some pj =>
    if !pj.truthy then .error .situation else
    match addPersonEntity sys dp pj with
    | .error e => .error e
    | .ok (pids, pws) =>
      let st0 : BState := ⟨[⟨sys.personKey, sys.personPlural, true, pids, [], []⟩], applyWrites [] (resolveKeys sys pws)⟩
      foldE (groupsStep sys dp params hasAxes pids) st0 sys.groups


/-! ## axes -/

structure Axis where
  name : String
  count : Nat
  min : Rat
  max : Rat
  index : Nat
  period : Option DKey
deriving Repr, Inhabited

def Doc.rat? : Doc → Option Rat
  | .int i => some i
  | .num r => some r
  | .null => none | .bool _ => none | .str _ => none | .arr _ => none | .obj _ => none | .date _ => none

def Doc.nat? : Doc → Option Nat
  | .int i => if 0 ≤ i then some i.toNat else none
  | .null => none | .bool _ => none | .num _ => none | .str _ => none | .arr _ => none | .obj _ => none
  | .date _ => none

def Doc.key? : Doc → Option DKey
  | .str s => some (.s s)
  | .int i => some (.i i)
  | .null => none | .bool _ => none | .num _ => none | .arr _ => none | .obj _ => none | .date _ => none

/-- one axis description; anything but the documented shape is outside the model -/
def parseAxis (d : Doc) : R Axis :=
  match d.asObj? with
  | none => .error .unmodelled
  | some kvs =>
    match (lookupS "name" kvs).bind Doc.str?, (lookupS "count" kvs).bind Doc.nat?,
          (lookupS "min" kvs).bind Doc.rat?, (lookupS "max" kvs).bind Doc.rat? with
    | some name, some count, some mn, some mx =>
      if count = 0 then .error .unmodelled else
      let index := match lookupS "index" kvs with
        | none => some 0
        | some d => d.nat?
      let period := match lookupS "period" kvs with
        | none => some none
        | some d => (d.key?).map some
      match index, period with
      | some i, some p => .ok ⟨name, count, mn, mx, i, p⟩
      | _, _ => .error .unmodelled
    | _, _, _, _ => .error .unmodelled

/-- the lists of parallel axes, one per perpendicular dimension (repair C12k: every axis of every
list) -/
def parseAxes (d : Doc) : R (List (List Axis)) :=
  match d.asArr? with
  | none => .error .unmodelled
  | some [] => .error .unmodelled
  | some (d0 :: rest) =>
    match d0.asArr? with
    | none => .error .unmodelled
    | some [] => .error .unmodelled
    | some (a :: as) =>
      match mapE parseAxis (a :: as) with
      | .error e => .error e
      | .ok par =>
        match mapE (fun (dd : Doc) => match dd.asArr? with
            | some (x :: xs) => mapE parseAxis (x :: xs)
            | some [] => .error .unmodelled
            | none => .error .unmodelled) rest with
        | .error e => .error e
        | .ok perp => .ok (par :: perp)

/-- Python `list * n` / `numpy.tile(array, n)` -/
def tile {α : Type} (n : Nat) (xs : List α) : List α := (List.replicate n xs).flatten

/-- replication of one entity: counts multiply, ids get the running index as a suffix, roles are
repeated, memberships are repeated and shifted by the prototype's count per copy -/
def expandEnt (cell : Nat) (e : Ent) : Ent :=
  { e with
    ids := List.zipWith (fun id (k : Nat) => id ++ toString k) (tile cell e.ids) (List.range (cell * e.ids.length))
    roles := tile cell e.roles
    memb := if e.isPerson then e.memb else
      List.zipWith (· + ·) (tile cell e.memb)
        ((List.range cell).flatMap (fun c => List.replicate e.memb.length (c * e.ids.length))) }

/-- assignment of a float64 axis value into the variable's array -/
def axisCast (var : Var) (r : Rat) : R Val :=
  match var.vtype with
  | .float => .ok (.num r)
  | .int => .ok (.int (truncR r))
  | .bool => .error .unmodelled | .str => .error .unmodelled | .date => .error .unmodelled
  | .enum _ => .error .unmodelled

/-- `array[idx::step] = vals` -/
def strideSet (arr : Vec) (idx step : Nat) (vals : Vec) : R Vec :=
  let hit (j : Nat) : Bool := decide (idx ≤ j) && (j - idx) % step == 0
  let n := ((List.range arr.length).filter hit).length
  if step = 0 then .error .other
  else if n ≠ vals.length then (if vals.length = 1 then .error .unmodelled else .error .other)
  else .ok ((List.zipIdx arr).map (fun (x, j) => if hit j then vals.getD ((j - idx) / step) x else x))

def natProd (l : List Nat) : Nat := l.foldl (· * ·) 1

/-- shape of `numpy.meshgrid(*linspaces)` (default `indexing="xy"`: the first two axes swap) -/
def meshShape : List Nat → List Nat
  | [] => []
  | [a] => [a]
  | a :: b :: r => b :: a :: r

def meshPos (d : Nat) : Nat := if d = 0 then 1 else if d = 1 then 0 else d

/-- `axes_meshes[d].reshape(cell_count)[k]` -/
def meshCoord (counts : List Nat) (d k : Nat) : Nat :=
  let S := meshShape counts
  let j := if counts.length < 2 then d else meshPos d
  (k / natProd (S.drop (j + 1))) % S.getD j 1

/-- the value of the axis in each cell: `linspace(min, max, count)` (one list of parallel axes) or
`min + mesh * (max - min) / (count - 1)` (perpendicular axes) -/
def axisValue (a : Axis) (cnt c : Nat) : Rat :=
  if cnt = 1 then a.min else a.min + (c : Rat) * (a.max - a.min) / ((cnt : Rat) - 1)

/-- `axis.get("period", self.default_period)` -/
def axisKey (dp : Option String) (a : Axis) : Option DKey :=
  match a.period with
  | some k => some k
  | none => dp.map DKey.s

/-- the array the axis values are laid on: the buffered one replicated `cell` times when it still
has the prototype's size, or `cell * step` defaults -/
def axisArray (buf : Buffer) (k : String × List Char) (cell step : Nat) (d : Val) : Vec :=
  match alGet buf k with
  | none => List.replicate (cell * step) d
  | some x => if x.length = step then tile cell x else x

/-- one axis: replicate (or create) the buffered array of its variable at its period, then lay
the values on the indexed instance of every copy -/
def layAxis (sys : Sys) (dp : Option String) (entKey : String) (step cell cnt : Nat) (multi : Bool)
    (coords : List Nat) (buf : Buffer) (a : Axis) : R Buffer :=
  match sys.var? a.name with
  | none => .error .other
  | some var =>
    if var.entity ≠ entKey then .error .unmodelled else
    match axisKey dp a with
    | none => .error .other
    | some k =>
      match canonKey k with
      | .error _ => .error .other
      | .ok ck0 =>
        let ck := bufferKey sys buf a.name ck0          -- repair C12j
        if cnt = 1 ∧ multi then .error .unmodelled else
        match mapE (fun c => axisCast var (axisValue a cnt c)) coords with
        | .error e => .error e
        | .ok vals =>
          match strideSet (axisArray buf (a.name, ck) cell step var.default) a.index step vals with
          | .error e => .error e
          | .ok arr' => .ok (alSet buf (a.name, ck) arr')

def entCountOf (ents : List Ent) (key : String) : Nat :=
  match ents.find? (fun e => e.key == key) with
  | some e => e.count
  | none => 0

/-- one list of parallel axes (dimension `d`) -/
def layDim (sys : Sys) (dp : Option String) (ents : List Ent) (counts : List Nat) (cell : Nat)
    (multi : Bool) (buf : Buffer) (dd : Nat × List Axis) : R Buffer :=
  match dd.2 with
  | [] => .error .unmodelled
  | first :: _ =>
    match sys.var? first.name with
    | none => .error .other                    -- KeyError in get_variable_entity
    | some fv =>
      let step := entCountOf ents fv.entity
      let coords := (List.range cell).map (fun k => if multi then meshCoord counts dd.1 k else k)
      foldE (layAxis sys dp fv.entity step cell first.count multi coords) buf dd.2

/-- `expand_axes` -/
def expandAxes (sys : Sys) (dp : Option String) (st : BState) (dims : List (List Axis)) : R BState :=
  let counts := dims.map (fun l => match l.head? with | some a => a.count | none => 1)
  let cell := natProd counts
  let multi := decide (dims.length ≠ 1)
  match foldE (layDim sys dp st.ents counts cell multi) st.buf (List.zipIdx dims |>.map (fun (l, d) => (d, l))) with
  | .error e => .error e
  | .ok buf => .ok ⟨st.ents.map (expandEnt cell), buf⟩

/-! ## flushing the buffer -/

abbrev Store := List ((String × Period) × Vec)

/-- `Holder.set_input(period, array)` of variable `var` whose population has `count` members;
`situation` stands for `PeriodMismatchError` -/
abbrev SetInput := Store → Var → Nat → Period → Vec → R Store

/-- the sort key of `finalize_variables_init` (repairs C12b, C12l):
`(inf if eternity else size_in_days, unit_weight)`; `none` is `float("inf")` -/
def flushKey (p : Period) : R (Option Int × Int) :=
  if p.unit = .eternity then .ok (none, unitWeight p.unit)
  else match p.sizeInDays with
    | .ok d => .ok (some d, unitWeight p.unit)
    | .error _ => .error .other

/-- tuple order of the keys -/
def keyLe (a b : Option Int × Int) : Bool :=
  match a.1, b.1 with
  | none, none => decide (a.2 ≤ b.2)
  | none, some _ => false
  | some _, none => true
  | some x, some y => decide (x < y) || (decide (x = y) && decide (a.2 ≤ b.2))

/-- `p` is not flushed after `q` -/
def flushLe (p q : Period) : Bool :=
  match flushKey p, flushKey q with
  | .ok a, .ok b => keyLe a b
  | .ok _, .error _ => false
  | .error _, .ok _ => false
  | .error _, .error _ => false

def keyedPeriod (p : Period) : R ((Option Int × Int) × Period) :=
  match flushKey p with
  | .ok k => .ok (k, p)
  | .error e => .error e

/-- stable insertion: `x` goes before the first element it is not greater than -/
def insertBy {α : Type} (le : α → α → Bool) (x : α) : List α → List α
  | [] => [x]
  | y :: ys => if le x y then x :: y :: ys else y :: insertBy le x ys

/-- Python's `sorted(..., key=...)` (stable): insertion sort from the right -/
def sortBy {α : Type} (le : α → α → Bool) (l : List α) : List α := l.foldr (insertBy le) []

/-- variables of the buffer in first-use order -/
def dedup : List String → List String
  | [] => []
  | x :: xs => x :: (dedup xs).filter (· ≠ x)

def bufferVars (buf : Buffer) : List String := dedup (buf.map (fun e => e.1.1))

/-- the buffered period texts of one variable, in insertion order -/
def varKeys (buf : Buffer) (v : String) : List (List Char) :=
  (buf.filter (fun e => e.1.1 = v)).map (fun e => e.1.2)

def parseBuffered (ck : List Char) : R Period :=
  match parsePeriod ck with
  | .ok p => .ok p
  | .error _ => .error .other

/-- `[periods.period(s) for s in buffer]` then `sorted(..., key=…)` (stable) -/
def sortedPeriods (buf : Buffer) (v : String) : R (List Period) :=
  match mapE parseBuffered (varKeys buf v) with
  | .error e => .error e
  | .ok ps =>
    match mapE keyedPeriod ps with
    | .error e => .error e
    | .ok kps => .ok ((sortBy (fun a b => keyLe a.1 b.1) kps).map (fun kp => kp.2))

/-- `variable.end is None or period.start.date <= variable.end` : the end date is INCLUSIVE;
`ok false` = the input is ignored; the start of `ETERNITY` has no date (`ValueError`) -/
def endGuard (var : Var) (q : Period) : R Bool :=
  match var.stop with
  | none => .ok true
  | some e => if q.unit = .eternity then .error .other else .ok (decide (q.start.le e))

/-- `values = buffer[str(period)]; array = tile(values, count // len(values));`
`if variable.end is None or period.start.date <= variable.end: set_input` -/
def callStep (si : SetInput) (buf : Buffer) (var : Var) (count : Nat) (store : Store) (q : Period) : R Store :=
  match alGet buf (var.name, q.text) with
  | none => .error .other
  | some values =>
    if values.length = 0 then .error .other
    else match endGuard var q with
      | .error e => .error e
      | .ok false => .ok store
      | .ok true => si store var count q (tile (count / values.length) values)

def flushVar (sys : Sys) (si : SetInput) (buf : Buffer) (e : Ent) (store : Store) (vname : String) : R Store :=
  match sys.var? vname with
  | none => .ok store
  | some var =>
    if var.entity ≠ e.key then .ok store else
    match sortedPeriods buf vname with
    | .error x => .error x
    | .ok ps => foldE (callStep si buf var e.count) store ps

/-- `finalize_variables_init(population)` -/
def finalizeEnt (sys : Sys) (si : SetInput) (buf : Buffer) (store : Store) (e : Ent) : R Store :=
  foldE (flushVar sys si buf e) store (bufferVars buf)

structure Sim where
  ents : List Ent
  store : Store
deriving Repr, Inhabited

def finalize (sys : Sys) (si : SetInput) (st : BState) : R Sim :=
  match foldE (finalizeEnt sys si st.buf) [] st.ents with
  | .error e => .error e
  | .ok store => .ok ⟨st.ents, store⟩

/-! ## the three document shapes -/

def isAxesKey (k : DKey) : Bool := k == DKey.s "axes"

/-- `check_axis` (repair C12-errclass-axes): an axis over an unknown variable, or over a period that
cannot be read (`periods.period(None)` when neither the axis nor the builder gives one), is refused
with a situation error before anything is expanded -/
def checkAxis (sys : Sys) (dp : Option String) (a : Axis) : R Unit :=
  match sys.var? a.name with
  | none => .error .situation
  | some _ =>
    match axisKey dp a with
    | none => .error .situation
    | some k =>
      match canonKey k with
      | .error _ => .error .situation
      | .ok _ => .ok ()

/-- `build_from_entities` -/
def buildFromEntities (sys : Sys) (dp : Option String) (si : SetInput) (kvs : List (DKey × Doc)) : R Sim :=
  let params := kvs.filter (fun kv => !isAxesKey kv.1)
  let axes := getEntityDoc "axes" kvs
  match buildEntities sys dp params axes.isSome with
  | .error e => .error e
  | .ok st =>
    match axes with
    | none => finalize sys si st
    | some ad =>
      match parseAxes ad with
      | .error e => .error e
      | .ok dims =>
        match foldE (fun (_ : Unit) a => checkAxis sys dp a) () dims.flatten with
        | .error e => .error e
        | .ok _ =>
          match expandAxes sys dp st dims with
          | .error e => .error e
          | .ok st' => finalize sys si st'

def keyIn (l : List String) : DKey → Bool
  | .s v => l.contains v
  | .i _ => false

/-- `explicit_singular_entities` (repair C12gh: every key that is not a singular entity key is kept,
`axes` and unknown keys included) : `entity: {...}` becomes `entities: {entity: {...}}` and
overrides a plural entry of the same entity -/
def explicitSingular (sys : Sys) (kvs : List (DKey × Doc)) : List (DKey × Doc) :=
  (sys.singulars.filterMap (fun (sp : String × String) => (lookupS sp.1 kvs).map (fun d =>
      (DKey.s sp.2, Doc.obj [(DKey.s sp.1, d)])))) ++
  kvs.filter (fun kv => !keyIn (sys.singulars.map (·.1)) kv.1)

/-- `_person_count` -/
def personCount (kvs : List (DKey × Doc)) : R Nat :=
  let ofValue (d : Doc) : R Nat :=
    match d with
    | .str _ => .ok 1
    | .arr xs => if xs = [] then .error .unmodelled else .ok xs.length
    | .obj _ => .error .unmodelled
    | .null => .ok 1 | .bool _ => .ok 1 | .int _ => .ok 1 | .num _ => .ok 1 | .date _ => .ok 1
  match kvs with
  | [] => .ok 1
  | (_, d) :: _ =>
    match d with
    | .obj [] => .ok 1
    | .obj ((_, d') :: _) => ofValue d'
    | .str _ => ofValue d | .arr _ => ofValue d
    | .null => ofValue d | .bool _ => ofValue d | .int _ => ofValue d | .num _ => ofValue d
    | .date _ => ofValue d

/-- element of a list handed to `Holder._to_array` (`numpy.asarray(...).astype(dtype)`,
`Enum.encode`); every refusal is an ordinary exception here -/
def scalarConv (var : Var) (d : Doc) : R Val :=
  match var.vtype, d with
  | .float, .int i => .ok (.num i)
  | .float, .num r => .ok (.num r)
  | .float, .bool b => .ok (.num (if b then 1 else 0))
  | .int, .int i => .ok (.int i)
  | .int, .num r => .ok (.int (truncR r))
  | .int, .bool b => .ok (.int (if b then 1 else 0))
  | .bool, .bool b => .ok (.bool b)
  | .bool, .int i => .ok (.bool (i != 0))
  | .bool, .num r => .ok (.bool (r != 0))
  | .str, .str s => .ok (.str s)
  | .date, .str s => match dateOfText s with
    | .ok o => .ok (.date o)
    | .error .situation => .error .other
    | .error .other => .error .other
    | .error .unmodelled => .error .unmodelled
  | .enum names, .str s => if s ∈ names then .ok (.enum (names.idxOf s)) else .error .other
  | .date, .date o => .ok (.date o)
  | .float, .date _ => .error .other | .int, .date _ => .error .other
  | .bool, .date _ => .error .unmodelled | .str, .date _ => .error .unmodelled | .enum _, .date _ => .error .unmodelled
  | .float, .str _ => .error .unmodelled | .float, .null => .error .unmodelled
  | .float, .arr _ => .error .unmodelled | .float, .obj _ => .error .unmodelled
  | .int, .str _ => .error .unmodelled | .int, .null => .error .unmodelled
  | .int, .arr _ => .error .unmodelled | .int, .obj _ => .error .unmodelled
  | .bool, .str _ => .error .unmodelled | .bool, .null => .error .unmodelled
  | .bool, .arr _ => .error .unmodelled | .bool, .obj _ => .error .unmodelled
  | .str, .null => .error .unmodelled | .str, .bool _ => .error .unmodelled | .str, .int _ => .error .unmodelled
  | .str, .num _ => .error .unmodelled | .str, .arr _ => .error .unmodelled | .str, .obj _ => .error .unmodelled
  | .date, .null => .error .unmodelled | .date, .bool _ => .error .unmodelled | .date, .int _ => .error .unmodelled
  | .date, .num _ => .error .unmodelled | .date, .arr _ => .error .unmodelled | .date, .obj _ => .error .unmodelled
  | .enum _, .null => .error .unmodelled | .enum _, .bool _ => .error .unmodelled | .enum _, .int _ => .error .unmodelled
  | .enum _, .num _ => .error .unmodelled | .enum _, .arr _ => .error .unmodelled | .enum _, .obj _ => .error .unmodelled

def toArrayDoc (var : Var) (d : Doc) : R Vec :=
  match d with
  | .arr xs => if xs = [] then .error .unmodelled else mapE (scalarConv var) xs
  | .null => .error .unmodelled
  | .obj _ => .error .unmodelled
  | .bool _ => (scalarConv var d).map (fun v => [v])
  | .int _ => (scalarConv var d).map (fun v => [v])
  | .num _ => (scalarConv var d).map (fun v => [v])
  | .date _ => (scalarConv var d).map (fun v => [v])
  | .str _ =>
    match var.vtype with
    | .float => .error .unmodelled        -- `eval_expression` on a bare text
    | .int => .error .unmodelled
    | .bool => (scalarConv var d).map (fun v => [v])
    | .str => (scalarConv var d).map (fun v => [v])
    | .date => (scalarConv var d).map (fun v => [v])
    | .enum _ => (scalarConv var d).map (fun v => [v])

/-- `Simulation.set_input(name, period, value)` : nothing is wrapped in a situation error -/
def setInputDoc (sys : Sys) (si : SetInput) (count : Nat) (store : Store) (name pk : DKey) (value : Doc) : R Store :=
  match sys.var? name.text with
  | none => .error .other
  | some var =>
    match parseKey pk with
    | .error _ => .error .other
    | .ok p =>
      -- `if variable.end is not None and period.start.date > variable.end: return`
      match endGuard var p with
      | .error e => .error e
      | .ok false => .ok store
      | .ok true =>
      match toArrayDoc var value with
      | .error e => .error e
      | .ok arr =>
        match si store var count p arr with
        | .ok s => .ok s
        | .error .situation => .error .other
        | .error .other => .error .other
        | .error .unmodelled => .error .unmodelled

def datedStep (sys : Sys) (si : SetInput) (count : Nat) (store : Store) (kv : DKey × Doc) : R Store :=
  match kv.2.asObj? with
  | some pvs => foldE (fun s (pv : DKey × Doc) => setInputDoc sys si count s kv.1 pv.1 pv.2) store pvs
  | none => .ok store

def undatedStep (sys : Sys) (dp : Option String) (si : SetInput) (count : Nat) (store : Store) (kv : DKey × Doc) : R Store :=
  match kv.2.asObj? with
  | some _ => .ok store
  | none =>
    match dp with
    | none => .error .situation
    | some p => setInputDoc sys si count store kv.1 (.s p) kv.2

/-- `_BuildDefaultSimulation` : `count` instances of every entity, one person per group -/
def defaultEnts (sys : Sys) (count : Nat) : List Ent :=
  let ids := (List.range count).map (fun (k : Nat) => toString k)
  ⟨sys.personKey, sys.personPlural, true, ids, [], []⟩ ::
    sys.groups.map (fun g => ⟨g.key, g.plural, false, ids, List.range count,
      List.replicate count (g.flatRoles.headD "")⟩)

/-- `build_from_variables` -/
def buildFromVariables (sys : Sys) (dp : Option String) (si : SetInput) (kvs : List (DKey × Doc)) : R Sim :=
  match personCount kvs with
  | .error e => .error e
  | .ok count =>
    match foldE (datedStep sys si count) [] kvs with
    | .error e => .error e
    | .ok s1 =>
      match foldE (undatedStep sys dp si count) s1 kvs with
      | .error e => .error e
      | .ok s2 => .ok ⟨defaultEnts sys count, s2⟩

def isIntKey : DKey → Bool
  | .i _ => true
  | .s _ => false

def isEntityKey (sys : Sys) (k : DKey) : Bool := isAxesKey k || keyIn sys.plurals k

/-- `build_from_dict` : the three shapes (and the fall-through of repair C12d) -/
def buildFromDict (sys : Sys) (dp : Option String) (si : SetInput) (d : Doc) : R Sim :=
  match d.asObj? with
  | none => .error .unmodelled
  | some kvs =>
    if kvs.any (fun kv => isIntKey kv.1) then .error .unmodelled
    else if kvs.any (fun kv => keyIn (sys.singulars.map (·.1)) kv.1) then
      buildFromEntities sys dp si (explicitSingular sys kvs)
    else if !kvs.isEmpty ∧ kvs.all (fun kv => isEntityKey sys kv.1) then
      buildFromEntities sys dp si kvs
    else if kvs.isEmpty ∨ kvs.any (fun kv => keyIn (sys.vars.map (·.name)) kv.1) then
      buildFromVariables sys dp si kvs
    else buildFromEntities sys dp si kvs

/-- `set_default_period(text)` : the builder keeps the canonical text -/
def setDefaultPeriod (raw : String) : Except String String :=
  (canonKey (.s raw)).map String.ofList

/-! ## the instance of `setInput` run by the driver (`Holder.set_input` and the two helpers of
`holders/helpers.py`, repaired C16a/C16b); NOT used by the theorems about the builder -/

def storeKey (var : Var) (p : Period) : Period :=
  if var.defUnit = .eternity then Period.eternity else p

/-- `Holder._set` (the array already has the variable's type) -/
def holderSet (store : Store) (var : Var) (count : Nat) (p : Period) (arr : Vec) : R Store :=
  if arr.length ≠ count then .error .other
  else if var.defUnit ≠ .eternity ∧ (var.defUnit ≠ p.unit ∨ p.size > 1) then .error .situation
  else .ok (alSet store (var.name, storeKey var p) arr)

/-- `while sub.start < after: …; sub = sub.offset(1)` -/
def walkFrom (after : Date) : Nat → Period → R (List Period)
  | 0, _ => .error .other
  | fuel + 1, sub =>
    if sub.start.lt after then
      match sub.offset (.n 1) none with
      | .error _ => .error .other
      | .ok nxt => match walkFrom after fuel nxt with
        | .error e => .error e
        | .ok rest => .ok (sub :: rest)
    else .ok []

def walk (defU : DUnit) (p : Period) : R (List Period) :=
  match instOffset p.start (.n p.size) p.unit with
  | .error _ => .error .other
  | .ok none => .error .other
  | .ok (some after) => walkFrom after ((ord after - ord p.start).toNat + 1) ⟨defU, p.start, 1⟩

def fillUnknown (name : String) (arr : Vec) (store : Store) (q : Period) : Store :=
  match alGet store (name, q) with
  | none => alSet store (name, q) arr
  | some _ => store

def Val.rat? : Val → Option Rat
  | .num r => some r
  | .int _ => none | .bool _ => none | .str _ => none | .date _ => none | .enum _ => none

def vecRat? (v : Vec) : Option (List Rat) := v.mapM Val.rat?

def stdSetInput : SetInput := fun store var count p arr =>
  if p.unit = .eternity ∧ var.defUnit ≠ .eternity then .error .situation else
  match var.rule with
  | .absent => holderSet store var count p arr
  | .dispatch =>
    if arr.length ≠ count then .error .other
    else if var.defUnit = .eternity then .error .other
    else match walk var.defUnit p with
      | .error e => .error e
      | .ok subs => .ok (subs.foldl (fillUnknown var.name arr) store)
  | .divide =>
    if arr.length ≠ count then .error .other
    else if var.defUnit = .eternity then .error .other
    else match walk var.defUnit p, vecRat? arr with
      | .error e, _ => .error e
      | .ok _, none => .error .unmodelled
      | .ok subs, some a =>
        let known := subs.filterMap (fun q => alGet store (var.name, q))
        match known.mapM vecRat? with
        | none => .error .unmodelled
        | some ks =>
          let remaining := ks.foldl (fun acc k => List.zipWith (· - ·) acc k) a
          let n := subs.length - known.length
          if n > 0 then
            .ok (subs.foldl (fillUnknown var.name (remaining.map (fun x => Val.num (x / (n : Rat))))) store)
          else if remaining.all (· == 0) then .ok store
          else .error .other

/-! ## the other construction routes

* `SimulationBuilder.build_default_simulation(system, count)` ↦ `buildDefault`
* `build_from_entities` called directly (the web API's `handlers.calculate` does, without the
  dispatch of `build_from_dict`) ↦ `buildFromEntitiesDoc`
* `create_entities` / `declare_person_entity` / `declare_entity` / `join_with_persons` / `build`
  ↦ `buildJoined` (`joinMemb`, `joinRoles`) -/

/-- `build_default_simulation(system, count)` : `count` persons, one group of each kind per person,
first role, no input -/
def buildDefault (sys : Sys) (count : Nat) : Sim := ⟨defaultEnts sys count, []⟩

/-- `build_from_entities(system, input)` : `helpers.check_type(input_dict, dict, ["error"])` first -/
def buildFromEntitiesDoc (sys : Sys) (dp : Option String) (si : SetInput) (d : Doc) : R Sim :=
  match d.asObj? with
  | none => .error .situation
  | some kvs => buildFromEntities sys dp si kvs

/-- `join_with_persons` (repair F-C11b), memberships: the position, among the DECLARED group ids,
of the id each person is assigned to.  `numpy.searchsorted` on ids that are not pairwise distinct,
or for an id that is not declared, is outside the model. -/
def joinMemb (gids assign : List String) : R (List Nat) :=
  if gids.Nodup then
    mapE (fun a => if a ∈ gids then .ok (gids.idxOf a) else .error .unmodelled) assign
  else .error .unmodelled

/-- a role given to `join_with_persons`: a key of a flattened role, or an index into them -/
inductive RoleRef | key (k : String) | idx (i : Nat)
deriving DecidableEq, Repr, Inhabited

/-- `join_with_persons`, roles: all indices (`numpy.array(flattened_roles)[roles_array]`) or all
keys (`numpy.select`; a key that is no role would leave the integer 0 in the array: outside the
model, like a mixed or an empty list) -/
def joinRoles (flat : List String) (roles : List RoleRef) : R (List String) :=
  match roles with
  | [] => .error .unmodelled
  | .idx _ :: _ =>
    mapE (fun r => match r with
      | .idx i => (match flat[i]? with | some k => .ok k | none => .error .other)
      | .key _ => .error .unmodelled) roles
  | .key _ :: _ =>
    mapE (fun r => match r with
      | .key k => if k ∈ flat then .ok k else .error .unmodelled
      | .idx _ => .error .unmodelled) roles

/-- one `declare_entity` + `join_with_persons` -/
structure Joined where
  kind : String
  ids : List String
  assign : List String
  roles : List RoleRef
deriving Repr, Inhabited

def joinOne (sys : Sys) (npersons : Nat) (j : Joined) : R Ent :=
  match sys.groups.find? (fun g => g.key == j.kind) with
  | none => .error .other
  | some g =>
    if j.assign.length ≠ npersons ∨ j.roles.length ≠ npersons then .error .unmodelled else
    match joinMemb j.ids j.assign with
    | .error e => .error e
    | .ok memb =>
      match joinRoles g.flatRoles j.roles with
      | .error e => .error e
      | .ok roles => .ok ⟨g.key, g.plural, false, j.ids, memb, roles⟩

/-- `create_entities`, `declare_person_entity`, one `declare_entity` + `join_with_persons` per group
kind of the system (in system order), `build` -/
def buildJoined (sys : Sys) (pids : List String) (js : List Joined) : R Sim :=
  if js.map (·.kind) ≠ sys.groups.map (·.key) then .error .unmodelled else
  match mapE (joinOne sys pids.length) js with
  | .error e => .error e
  | .ok ents => .ok ⟨⟨sys.personKey, sys.personPlural, true, pids, [], []⟩ :: ents, []⟩

end OFCore.Bld
