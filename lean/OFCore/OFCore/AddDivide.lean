import OFCore.Period
import OFCore.PeriodSpec
import OFCore.PeriodText
/-!
# Plain / ADD / DIVIDE requests (import-free apart from the period and period-text models)

Transcription of the REPAIRED code (fixes F-C03a: eternal-period guard in `calculate_add`,
F-C03b: DAY and WEEKDAY branches in `_check_period_consistency`):

* `openfisca_core/simulations/simulation.py` : `Simulation.calculate` / `_calculate` (as far as
  the period checks go), `_check_period_consistency`, `calculate_add`, `calculate_divide`
* `openfisca_core/holders/holder.py` : the period check of `Holder._set` reached through
  `put_in_cache` (skipped when the value is not stored: `variables_to_drop`, cache blacklist)
* `openfisca_core/populations/_core_population.py` : `CorePopulation.__call__`
  (`periods.period`, `check_period_validity`, option dispatch)
* the conversion `periods.period(period)` every entry point applies to an argument that is not a
  `Period` (`parsePeriod`, the C05 model), and `Simulation.calculate_output`

The engine is abstracted by `val : Period → Int`: the value the variable's formula (or input,
or default) yields for a period. The correspondence check instantiates it with a function that
is different on every sub-period (`ord start mod M`), so that a wrong, missing or duplicated
sub-period changes a sum. Every branch that raises in Python returns `.error`.
-/
namespace OFCore

/-- `unit in DateUnit.isoformat + DateUnit.isocalendar` (tuples extracted from the source) -/
def isDated (u : DUnit) : Bool :=
  Generated.isoformatUnits.contains u.name || Generated.isocalendarUnits.contains u.name

/-- `Simulation._check_period_consistency` -/
def checkPeriodConsistency (defUnit : DUnit) (p : Period) : Except String Unit :=
  if defUnit = .eternity then .ok ()
  else if defUnit = .year ∧ p.unit ≠ .year then .error "year"
  else if defUnit = .month ∧ p.unit ≠ .month then .error "month"
  else if defUnit = .week ∧ p.unit ≠ .week then .error "week"
  else if defUnit = .day ∧ p.unit ≠ .day then .error "day"
  else if defUnit = .weekday ∧ p.unit ≠ .weekday then .error "weekday"
  else if p.size ≠ 1 then .error "size"
  else .ok ()

/-- the period check of `Holder._set` (`PeriodMismatchError`) -/
def holderStoreCheck (defUnit : DUnit) (p : Period) : Except String Unit :=
  if defUnit = .eternity then .ok ()
  else if defUnit ≠ p.unit ∨ p.size > 1 then .error "mismatch"
  else .ok ()

/-- `Simulation.calculate` on a fresh simulation: consistency check, the formula's value for the
    requested period, then `put_in_cache` (`store = false`: the value is not kept, `_set` is
    not reached) -/
def calcPlain (val : Period → Int) (store : Bool) (defUnit : DUnit) (p : Period) : Except String Int := do
  checkPeriodConsistency defUnit p
  let v := val p
  if store then holderStoreCheck defUnit p
  .ok v

/-- `Simulation.calculate_add` -/
def calcAdd (val : Period → Int) (store : Bool) (defUnit : DUnit) (p : Period) : Except String Int :=
  if unitWeight defUnit > unitWeight p.unit then .error "shorter than the definition period"
  else if !isDated defUnit then .error "eternal variable"
  else if !isDated p.unit then .error "eternal period"
  else do
    let qs ← p.subperiods defUnit
    let vs ← qs.mapM (calcPlain val store defUnit)
    .ok vs.sum

/-- the period `calculate_divide` computes the variable for -/
def enclosing (defUnit : DUnit) (p : Period) : Except String Period :=
  match defUnit with
  | .year => p.thisYear
  | .month => p.firstMonth
  | .day => .ok p.firstDay
  | .week => p.firstWeek
  | .weekday => .ok p.firstWeekday
  | .eternity => .ok p.firstWeekday

/-- the denominator `calculate_divide` takes: the size of that period in the requested unit -/
def denominator (u : DUnit) (c : Period) : Except String Int :=
  match u with
  | .year => c.sizeInYears
  | .month => c.sizeInMonths
  | .day => c.sizeInDays
  | .week => c.sizeInWeeks
  | .weekday => c.sizeInWeekdays
  | .eternity => c.sizeInWeekdays

/-- `Simulation.calculate_divide` -/
def calcDivide (val : Period → Int) (store : Bool) (defUnit : DUnit) (p : Period) : Except String Rat :=
  if unitWeight defUnit < unitWeight p.unit ∨ p.size > 1 then .error "longer than the definition period"
  else if !isDated defUnit then .error "eternal variable"
  else if !isDated p.unit ∨ p.size ≠ 1 then .error "eternal period"
  else do
    let c ← enclosing defUnit p
    let n ← denominator p.unit c
    let v ← calcPlain val store defUnit c
    .ok ((v : Rat) / (n : Rat))

/-- an element of the `options` sequence: `ADD`, `DIVIDE`, or anything else -/
inductive Opt | add | divide | other
deriving DecidableEq, Repr, Inhabited

/-- `CorePopulation.__call__(variable, period, options)`; `parg = none` is a period argument
    that is neither an `int`, a `str` nor a `Period`; `opts = none` is `options=None` -/
def callWithOptions (val : Period → Int) (store : Bool) (defUnit : DUnit) (parg : Option Period)
    (opts : Option (List Opt)) : Except String Rat :=
  match parg with
  | none => .error "period validity"
  | some p =>
    match opts with
    | none => (calcPlain val store defUnit p).map (fun (v : Int) => (v : Rat))
    | some os =>
      if os.contains .add ∧ os.contains .divide then .error "incompatible options"
      else if os.contains .add then (calcAdd val store defUnit p).map (fun (v : Int) => (v : Rat))
      else if os.contains .divide then calcDivide val store defUnit p
      else .error "invalid option"

/-! ## the period argument as the caller writes it -/

/-- a `Period` object, a `str` / `int` (its text), or something that is none of these -/
inductive PArg
  | period (p : Period)
  | text (cs : List Char)
  | invalid
deriving Repr, Inhabited

/-- `periods.period(value)` as the entry points apply it: a `Period` is kept, text is parsed -/
def resolveArg : PArg → Except String Period
  | .period p => .ok p
  | .text cs => parsePeriod cs
  | .invalid => .error "period"

/-- `Simulation.calculate(variable, period)` -/
def calcPlainArg (val : Period → Int) (store : Bool) (defUnit : DUnit) (a : PArg) : Except String Int := do
  calcPlain val store defUnit (← resolveArg a)

/-- `Simulation.calculate_add(variable, period)` -/
def calcAddArg (val : Period → Int) (store : Bool) (defUnit : DUnit) (a : PArg) : Except String Int := do
  calcAdd val store defUnit (← resolveArg a)

/-- `Simulation.calculate_divide(variable, period)` -/
def calcDivideArg (val : Period → Int) (store : Bool) (defUnit : DUnit) (a : PArg) : Except String Rat := do
  calcDivide val store defUnit (← resolveArg a)

/-- `population(variable, period, options)`: `periods.period(period)` first, then the dispatch -/
def callWithArg (val : Period → Int) (store : Bool) (defUnit : DUnit) (a : PArg)
    (opts : Option (List Opt)) : Except String Rat :=
  match resolveArg a with
  | .error e => .error e
  | .ok p => callWithOptions val store defUnit (some p) opts

/-- `CorePopulation.check_period_validity`: only the type of the argument is looked at -/
def checkPeriodValidity : PArg → Except String Unit
  | .period _ => .ok ()
  | .text _ => .ok ()
  | .invalid => .error "period validity"

/-- `Simulation.calculate_output`: the variable's `calculate_output` attribute (`none`,
    `calculate_output_add`, `calculate_output_divide`) chooses the request; the period is
    converted by the request it forwards to -/
def calcOutput (val : Period → Int) (store : Bool) (defUnit : DUnit) (co : Option Opt) (a : PArg) :
    Except String Rat :=
  match co with
  | none => (calcPlainArg val store defUnit a).map (fun (v : Int) => (v : Rat))
  | some .add => (calcAddArg val store defUnit a).map (fun (v : Int) => (v : Rat))
  | some .divide => calcDivideArg val store defUnit a
  | some .other => .error "no such calculate_output"

end OFCore
