/-!
# Dated legislation parameters (import-free model) — property C06

Python counterparts (openfisca_core/parameters):

* `Parameter.values_list`           ↦ `List (Entry V)` in reverse chronological order
* `Parameter.__init__(data=…)`      ↦ `ofData` (keys sorted in reverse, `expected` placeholders skipped)
* `Parameter._get_at_instant`       ↦ `pget`
* `Parameter.update`                ↦ `updateCall` (argument checking) and `update` (the five phases)
* `ParameterNode._get_at_instant` / `ParameterNodeAtInstant.__init__` ↦ `PNode.atInstant` / `childrenAt`
* `ParameterScale._get_at_instant`  ↦ `scaleAt` (+ `scaleAdd` for the tax scales' `add_bracket`)

Abstraction. The code keeps instants as zero-padded ISO strings `YYYY-MM-DD` and compares them as
strings; the model keeps the proleptic ordinal of the same date (`datetime.date.toordinal`, `ord` in
`Calendar.lean`). On valid dates of years 1..9999 string order is the lexicographic order on
`(y, m, d)`, which `Lemmas/Calendar.lean` (`ord_lt_of_lex`, `ord_inj`) proves to be the order of the
ordinals; `stop.offset(1, "day")` is `ordinal + 1`. Values are an arbitrary type `V`
(`float | int | bool | list` in the code); a YAML `null` is `none`.
-/
namespace OFCore.Param

/-- one `ParameterAtInstant`: `instant_str` (as an ordinal) and `value` (`none` = null) -/
structure Entry (V : Type) where
  date : Int
  val  : Option V
deriving Repr, DecidableEq

variable {V : Type}

/-! ## Reading -/

/-- `Parameter._get_at_instant`: the first entry (in list order) dated on or before `d`;
    `None` when there is none — and also when that entry's value is null. -/
def pget : List (Entry V) → Int → Option V
  | [], _ => none
  | e :: r, d => if e.date ≤ d then e.val else pget r d

/-- the state invariant `Parameter.values_list` is documented to have: strictly decreasing dates -/
def Sorted : List (Entry V) → Prop
  | [] => True
  | [_] => True
  | e :: f :: r => f.date < e.date ∧ Sorted (f :: r)

instance decSorted : (l : List (Entry V)) → Decidable (Sorted l)
  | [] => isTrue trivial
  | [_] => isTrue trivial
  | e :: f :: r =>
    match decSorted (f :: r) with
    | isTrue h => if h' : f.date < e.date then isTrue ⟨h', h⟩ else isFalse (fun c => h' c.1)
    | isFalse h => isFalse (fun c => h c.2)

/-! ## Construction from a `{date: …}` mapping -/

/-- what a date key maps to in the `data` dict -/
inductive Item (V : Type) where
  | value (v : Option V)      -- `{value: v}` or a bare `v`
  | expected                  -- `"expected"` or `{expected: …}`: metadata only, skipped
deriving Repr, DecidableEq

/-- insertion into a list sorted by decreasing key (model of `sorted(keys, reverse=True)`) -/
def insertDesc (x : Int × Item V) : List (Int × Item V) → List (Int × Item V)
  | [] => [x]
  | y :: r => if y.1 ≤ x.1 then x :: y :: r else y :: insertDesc x r

def sortDesc : List (Int × Item V) → List (Int × Item V)
  | [] => []
  | x :: r => insertDesc x (sortDesc r)

/-- the loop of `Parameter.__init__` over the sorted instants -/
def keepValues : List (Int × Item V) → List (Entry V)
  | [] => []
  | (d, .value v) :: r => ⟨d, v⟩ :: keepValues r
  | (_, .expected) :: r => keepValues r

/-- `Parameter.__init__`: `items` is the mapping in declaration order (keys distinct) -/
def ofData (items : List (Int × Item V)) : List (Entry V) := keepValues (sortDesc items)

/-! ## `Parameter.update` -/

/-- phase 1, `while i < n and old[i].instant_str >= stop_str: new.append(old[i]); i += 1`:
    the entries appended -/
def keepFrom : List (Entry V) → Int → List (Entry V)
  | [], _ => []
  | e :: r, s => if s ≤ e.date then e :: keepFrom r s else []

/-- the same loop seen from the index: `old[i:]` once the leading entries dated `≥ s` are passed
    (phase 1 with `s = stop_str`, phase 4 with `s = start_str`) -/
def skipFrom : List (Entry V) → Int → List (Entry V)
  | [], _ => []
  | e :: r, s => if s ≤ e.date then skipFrom r s else e :: r

/-- `new_values[-1].instant_str` -/
def lastDate : List (Entry V) → Option Int
  | [] => none
  | [e] => some e.date
  | _ :: f :: r => lastDate (f :: r)

/-- phase 2 ("right-overlapped interval"): what is appended at `s = stop + 1 day` -/
def reopen (future rest : List (Entry V)) (s : Int) : List (Entry V) :=
  if lastDate future = some s then []            -- such interval is empty
  else match rest with
    | e :: _ => [⟨s, e.val⟩]                      -- `elif i < n`: the overlapped value goes on after `stop`
    | [] => [⟨s, none⟩]                           -- nothing earlier: undefined after `stop`

/-- the body of `Parameter.update` for a closed range: `a` = `start_str`, `s` = `stop_str`
    (the day after `stop`). All five phases, in the code's order. -/
def updateSpan (l : List (Entry V)) (a s : Int) (v : Option V) : List (Entry V) :=
  let future := keepFrom l s                          -- phase 1
  let rest := skipFrom l s                            -- `old_values[i:]`
  future ++ reopen future rest s                      -- phase 2
    ++ (⟨a, v⟩ :: skipFrom rest a)                    -- phases 3, 4, 5

/-- `Parameter.update` once `start` / `stop` are known; `stop = none` is the open-ended form.
    `a` = start, `b` = stop (inclusive last day); `stop.offset(1, "day")` is `b + 1`. -/
def update (l : List (Entry V)) (a : Int) (stop : Option Int) (v : Option V) : List (Entry V) :=
  match stop with
  | none => ⟨a, v⟩ :: skipFrom l a                      -- phases 1-2 do not run
  | some b => updateSpan l a (b + 1) v

/-- the argument checking at the top of `Parameter.update`: `period` (given as its first and last
    day) excludes `start` / `stop`; a start is mandatory -/
def updateCall (l : List (Entry V)) (period : Option (Int × Int)) (start stop : Option Int)
    (v : Option V) : Except String (List (Entry V)) :=
  match period with
  | some (ps, pe) =>
    if start.isSome || stop.isSome then .error "TypeError: both period and start/stop"
    else .ok (update l ps (some pe) v)
  | none =>
    match start with
    | none => .error "ValueError: neither start nor period"
    | some a => .ok (update l a stop v)

/-- a well-formed update request: start, optional inclusive stop, new value -/
structure Upd (V : Type) where
  a : Int
  b : Option Int
  v : Option V
deriving Repr

/-- the dates an update is meant to cover -/
def Upd.covers (u : Upd V) (d : Int) : Prop :=
  u.a ≤ d ∧ match u.b with | some b => d ≤ b | none => True

instance (u : Upd V) (d : Int) : Decidable (u.covers d) := by
  unfold Upd.covers; cases u.b <;> infer_instance

/-- claim domain: `start ≤ stop` -/
def Upd.WF (u : Upd V) : Prop := match u.b with | some b => u.a ≤ b | none => True

instance (u : Upd V) : Decidable u.WF := by unfold Upd.WF; cases u.b <;> infer_instance

def applyUpd (l : List (Entry V)) (u : Upd V) : List (Entry V) := update l u.a u.b u.v

/-- a finite sequence of updates, applied in order -/
def updates (l : List (Entry V)) (us : List (Upd V)) : List (Entry V) := us.foldl applyUpd l

/-! ## Scales at an instant -/

/-- a `ParameterScaleBracket`: four dated parameters (a missing key is an empty history) -/
structure Bracket where
  threshold   : List (Entry Rat)
  rate        : List (Entry Rat)
  amount      : List (Entry Rat)
  averageRate : List (Entry Rat)
deriving Repr

inductive ScaleKind where
  | singleAmount | marginalAmount | linearAverageRate | marginalRate
deriving Repr, DecidableEq

def ScaleKind.name : ScaleKind → String
  | .singleAmount => "single_amount" | .marginalAmount => "marginal_amount"
  | .linearAverageRate => "linear_average_rate" | .marginalRate => "marginal_rate"

/-- the dated field a scale kind reads besides the threshold -/
def Bracket.field (b : Bracket) : ScaleKind → List (Entry Rat)
  | .singleAmount => b.amount | .marginalAmount => b.amount
  | .linearAverageRate => b.averageRate | .marginalRate => b.rate

/-- `rates[i] += rate` at the first row whose threshold is `t` -/
def bumpRow : List (Rat × Rat) → Rat → Rat → List (Rat × Rat)
  | [], _, _ => []
  | (t', r') :: rest, t, r => if t' = t then (t', r' + r) :: rest else (t', r') :: bumpRow rest t r

/-- `insert(bisect_left(thresholds, t), …)` on a sorted list: before the first row `≥ t` -/
def insertRow : List (Rat × Rat) → Rat → Rat → List (Rat × Rat)
  | [], t, r => [(t, r)]
  | (t', r') :: rest, t, r => if t ≤ t' then (t, r) :: (t', r') :: rest else (t', r') :: insertRow rest t r

/-- `RateTaxScaleLike.add_bracket` / `AmountTaxScaleLike.add_bracket` -/
def scaleAdd (rows : List (Rat × Rat)) (t r : Rat) : List (Rat × Rat) :=
  if rows.any (fun p => p.1 == t) then bumpRow rows t r else insertRow rows t r

/-- `"amount" in bracket._children` etc.: the dated field has a non-null value at `d` -/
def hasAt (l : List (Entry Rat)) (d : Int) : Bool := (pget l d).isSome

/-- the class of scale `ParameterScale._get_at_instant` builds at `d` -/
def scaleKindAt (singleAmount : Bool) (bs : List Bracket) (d : Int) : ScaleKind :=
  if singleAmount then .singleAmount
  else if bs.any (fun b => hasAt b.amount d) then .marginalAmount
  else if bs.any (fun b => hasAt b.averageRate d) then .linearAverageRate
  else .marginalRate

/-- the `(threshold, value)` a bracket contributes at `d`, if both are defined there -/
def bracketPair (k : ScaleKind) (d : Int) (b : Bracket) : Option (Rat × Rat) :=
  match pget (b.field k) d, pget b.threshold d with
  | some x, some t => some (t, x)
  | _, _ => none

structure ScaleAt where
  kind : ScaleKind
  rows : List (Rat × Rat)      -- (threshold, rate | amount), as the tax scale stores them
deriving Repr

/-- `for bracket in brackets: if … in bracket._children: scale.add_bracket(threshold, value)` -/
def addAll (k : ScaleKind) (d : Int) : List Bracket → List (Rat × Rat) → List (Rat × Rat)
  | [], rows => rows
  | b :: bs, rows =>
    match bracketPair k d b with
    | some (t, x) => addAll k d bs (scaleAdd rows t x)
    | none => addAll k d bs rows

/-- `ParameterScale._get_at_instant`; `singleAmount` = (`metadata["type"] == "single_amount"`) -/
def scaleAt (singleAmount : Bool) (bs : List Bracket) (d : Int) : ScaleAt :=
  let k := scaleKindAt singleAmount bs d
  ⟨k, addAll k d bs []⟩

/-! ## Nodes at an instant -/

/-- a parameter tree: `Parameter`, `ParameterScale`, `ParameterNode` (children in dict order) -/
inductive PNode (V : Type) where
  | param (l : List (Entry V))
  | scale (singleAmount : Bool) (bs : List Bracket)
  | node (cs : List (String × PNode V))

/-- what `_get_at_instant` returns: a value, a tax scale, a `ParameterNodeAtInstant` -/
inductive Snap (V : Type) where
  | val (v : V)
  | scale (s : ScaleAt)
  | node (cs : List (String × Snap V))

mutual
/-- `child._get_at_instant(instant_str)`; `none` is Python's `None` -/
def PNode.atInstant : PNode V → Int → Option (Snap V)
  | .param l, d => (pget l d).map .val
  | .scale m bs, d => some (.scale (scaleAt m bs d))
  | .node cs, d => some (.node (childrenAt cs d))
/-- the loop of `ParameterNodeAtInstant.__init__`: keep the children that are not `None` -/
def childrenAt : List (String × PNode V) → Int → List (String × Snap V)
  | [], _ => []
  | (k, c) :: r, d =>
    match c.atInstant d with
    | some s => (k, s) :: childrenAt r d
    | none => childrenAt r d
end

/-- "child is defined at `d`", stated without running `atInstant`: a parameter needs a non-null
    value in force; sub-nodes and scales are always exposed -/
def PNode.definedAt : PNode V → Int → Bool
  | .param l, d => (pget l d).isSome
  | .scale _ _, _ => true
  | .node _, _ => true

/-! ## Building a node: `add_child`, `merge` -/

/-- `ParameterNode.add_child`: a name already present is refused (`ValueError`), otherwise the
    child is appended (dict insertion order). Every construction route — `data=` dict, directory
    of YAML files, explicit `add_child`, `merge` — goes through it. -/
def addChild (cs : List (String × PNode V)) (name : String) (c : PNode V) :
    Except String (List (String × PNode V)) :=
  if cs.any (fun p => p.1 == name) then .error "ValueError: already a child of that name"
  else .ok (cs ++ [(name, c)])

/-- `ParameterNode.merge`: `add_child` for every child of the other node, in its order -/
def mergeChildren (cs : List (String × PNode V)) : List (String × PNode V) →
    Except String (List (String × PNode V))
  | [] => .ok cs
  | (k, c) :: rest =>
    match addChild cs k c with
    | .ok cs' => mergeChildren cs' rest
    | .error e => .error e

/-! ## Keys spelled `YYYY`, `YYYY-MM`, `YYYY-MM-DD`

`INSTANT_PATTERN` accepts the three spellings; the code keeps the key TEXT as `instant_str` and compares
texts. A short key is a proper prefix of the full spelling of its first day, hence sorts just BEFORE it
and after every earlier day: `"2014-12-31" < "2015" < "2015-01" < "2015-01-01" < "2015-01-02"`. The
model keeps three ticks per day: the full spelling of day `o` is `3 * o`, the month spelling whose first
day is `o` is `3 * o - 1`, the year spelling `3 * o - 2` (`Lemmas/Param.lean`, `fine_lt_of_lex`: the order
of the ticks is the order of the texts). Query dates and the bounds of `update` are full dates. -/

inductive Spell where
  | year | month | day
deriving Repr, DecidableEq

/-- the tick of a key whose first day has ordinal `o` -/
def fine (o : Int) : Spell → Int
  | .day => 3 * o
  | .month => 3 * o - 1
  | .year => 3 * o - 2

/-- `Parameter.update` on a history whose keys are ticks: `start_str` and `stop_str` are full dates -/
def updateFine (l : List (Entry V)) (a : Int) (stop : Option Int) (v : Option V) : List (Entry V) :=
  match stop with
  | none => ⟨3 * a, v⟩ :: skipFrom l (3 * a)
  | some b => updateSpan l (3 * a) (3 * (b + 1)) v

/-- the same argument checking as `updateCall` -/
def updateCallFine (l : List (Entry V)) (period : Option (Int × Int)) (start stop : Option Int)
    (v : Option V) : Except String (List (Entry V)) :=
  match period with
  | some (ps, pe) =>
    if start.isSome || stop.isSome then .error "TypeError: both period and start/stop"
    else .ok (updateFine l ps (some pe) v)
  | none =>
    match start with
    | none => .error "ValueError: neither start nor period"
    | some a => .ok (updateFine l a stop v)

/-! ## Construction from YAML-like data: `helpers._parse_child` and the constructors it dispatches to

`Parameter.__init__`, `ParameterAtInstant.__init__` / `validate`, `ParameterNode.__init__(data=…)`,
`ParameterScale.__init__`, `ParameterScaleBracket` — with every branch that raises. Which exception class is
raised is not modelled (`.error` carries a hint only). -/

/-- a mapping key as the YAML loader / a Python dict hands it over -/
inductive YKey where
  | date (o : Int) (sp : Spell) (text : String)   -- a text matching `INSTANT_PATTERN`; `o` = ordinal of its first day
  | name (s : String)                             -- any other text
  | int (i : Int)                                 -- an integer (YAML `2: …`)
deriving Repr, DecidableEq

/-- what `yaml.load` returns (numbers as canonical tokens) -/
inductive Y where
  | null
  | bool (b : Bool)
  | num (tok : String)
  | str (s : String)
  | list (xs : List Y)
  | map (kvs : List (YKey × Y))

/-- `str(key)` -/
def YKey.text : YKey → String
  | .date _ _ t => t
  | .name s => s
  | .int i => toString i

/-- `periods.INSTANT_PATTERN.match(str(key))` (an integer prints as four digits iff it is in 1000..9999) -/
def YKey.isInstant : YKey → Bool
  | .date _ _ _ => true
  | .name _ => false
  | .int i => decide (1000 ≤ i) && decide (i ≤ 9999)

def YKey.isName (k : YKey) (s : String) : Bool :=
  match k with
  | .name t => t == s
  | .date _ _ _ => false
  | .int _ => false

/-- `data.get(s)` -/
def lookupName : List (YKey × Y) → String → Option Y
  | [], _ => none
  | (k, y) :: r, s => if k.isName s then some y else lookupName r s

/-- `s in data` -/
def hasName (kvs : List (YKey × Y)) (s : String) : Bool := (lookupName kvs s).isSome

def commonKeys : List String := ["description", "metadata", "unit", "reference", "documentation"]

def YKey.within (k : YKey) (allowed : List String) : Bool :=
  match k with
  | .name s => allowed.contains s
  | .date _ _ _ => false
  | .int _ => false

/-- `_validate_parameter(…, allowed_keys=…)` passes -/
def keysWithin (kvs : List (YKey × Y)) (allowed : List String) : Bool := kvs.all (fun p => p.1.within allowed)

/-- Python truthiness -/
def Y.truthy : Y → Bool
  | .null => false
  | .bool b => b
  | .num t => t != "0"
  | .str s => s != ""
  | .list xs => !xs.isEmpty
  | .map kvs => !kvs.isEmpty

/-- `self.metadata.update(data.get("metadata", {}))` succeeds (a mapping, or no such key) -/
def metaOk (kvs : List (YKey × Y)) : Bool :=
  match lookupName kvs "metadata" with
  | none => true
  | some (.map _) => true
  | some .null => false
  | some (.bool _) => false
  | some (.num _) => false
  | some (.str _) => false
  | some (.list _) => false

/-- the token of a list element -/
def Y.elemTok : Y → String
  | .null => "none"
  | .bool b => if b then "T" else "F"
  | .num t => t
  | .str _ => "?"
  | .list _ => "?"
  | .map _ => "?"

/-- `isinstance(x, ALLOWED_PARAM_TYPES)` (float, int, bool, None, list) and the value's token -/
def Y.valTok : Y → Option (Option String)
  | .null => some none
  | .bool b => some (some (if b then "T" else "F"))
  | .num t => some (some t)
  | .list xs => some (some ("L" ++ "_".intercalate (xs.map Y.elemTok)))
  | .str _ => none
  | .map _ => none

def atInstantKeys : List String := ["value", "metadata", "unit", "reference"]

/-- what a date key maps to: the `expected` test of `Parameter.__init__`, then `ParameterAtInstant.__init__` -/
def itemOf : Y → Except String (Item String)
  | .str s => if s == "expected" then .ok .expected else .error "must be of type object"
  | .map kvs =>
    if (match lookupName kvs "expected" with | some e => e.truthy | none => false) then .ok .expected
    else if !keysWithin kvs atInstantKeys then .error "Unexpected property"
    else match lookupName kvs "value" with
      | none => .error "Missing 'value' property"
      | some v =>
        match v.valTok with
        | none => .error "not one of the allowed types"
        | some tok => if metaOk kvs then .ok (.value tok) else .error "metadata"
  | .null => .ok (.value none)
  | .bool b => .ok (.value (some (if b then "T" else "F")))
  | .num t => .ok (.value (some t))
  | .list xs => .ok (.value (some ("L" ++ "_".intercalate (xs.map Y.elemTok))))

/-- the loop of `Parameter.__init__` over the keys: every key must be an instant TEXT -/
def paramItems : List (YKey × Y) → Except String (List (Int × Item String))
  | [] => .ok []
  | (.date o sp _, y) :: r =>
    match itemOf y, paramItems r with
    | .ok it, .ok its => .ok ((fine o sp, it) :: its)
    | .error e, _ => .error e
    | _, .error e => .error e
  | (.name _, _) :: _ => .error "Invalid property: must be a valid YYYY-MM-DD instant"
  | (.int _, _) :: _ => .error "TypeError: expected string"

/-- the mapping holding the dated values: under `values` (the declaration with description and metadata)
    or the data itself (simplified declaration) -/
def paramValues (kvs : List (YKey × Y)) : Except String (List (YKey × Y)) :=
  match lookupName kvs "values" with
  | some vs =>
    if vs.truthy then
      if !keysWithin kvs (commonKeys ++ ["values"]) then .error "Unexpected property"
      else if !metaOk kvs then .error "metadata"
      else match vs with
        | .map vkvs => .ok vkvs
        | .null => .error "must be of type object"
        | .bool _ => .error "must be of type object"
        | .num _ => .error "must be of type object"
        | .str _ => .error "must be of type object"
        | .list _ => .error "must be of type object"
    else .ok kvs          -- `if data.get("values")` is false: the key `values` is then taken for an instant
  | none => .ok kvs

/-- `Parameter.__init__(name, data)` for a mapping `data`: the values list, in ticks -/
def buildParam (kvs : List (YKey × Y)) : Except String (List (Entry String)) :=
  match paramValues kvs with
  | .error e => .error e
  | .ok vs =>
    match paramItems vs with
    | .error e => .error e
    | .ok its => .ok (ofData its)

def bracketKeys : List String := ["amount", "threshold", "rate", "average_rate"]

/-- `metadata.get("type") == "single_amount"` -/
def isSingleAmount (kvs : List (YKey × Y)) : Bool :=
  match lookupName kvs "metadata" with
  | some (.map m) =>
    (match lookupName m "type" with
     | some (.str s) => s == "single_amount"
     | _ => false)
  | _ => false

/-- a bracket field must be a dated parameter with numeric values (anything else is outside the model:
    `UNSUP`) -/
def ratEntries (rat : String → Option Rat) : List (Entry String) → Option (List (Entry Rat))
  | [] => some []
  | e :: r =>
    match (match e.val with
           | none => some none
           | some t => (rat t).map some), ratEntries rat r with
    | some v, some r' => some (⟨e.date, v⟩ :: r')
    | _, _ => none

def setField (b : Bracket) (k : String) (l : List (Entry Rat)) : Bracket :=
  if k == "threshold" then { b with threshold := l }
  else if k == "rate" then { b with rate := l }
  else if k == "amount" then { b with amount := l }
  else { b with averageRate := l }

mutual
/-- `helpers._parse_child(name, child, path)` -/
def parseChild (rat : String → Option Rat) : Y → Except String (PNode String)
  | .map kvs =>
    if hasName kvs "values" then
      match buildParam kvs with
      | .ok l => .ok (.param l)
      | .error e => .error e
    else if hasName kvs "brackets" then
      -- `ParameterScale.__init__`
      if !keysWithin kvs (commonKeys ++ ["brackets"]) then .error "Unexpected property"
      else if !metaOk kvs then .error "metadata"
      else match scaleBrackets rat kvs with
        | .ok bs => .ok (.scale (isSingleAmount kvs) bs)
        | .error e => .error e
    else if kvs.all (fun p => p.1.isInstant) then
      match buildParam kvs with
      | .ok l => .ok (.param l)
      | .error e => .error e
    else
      -- `ParameterNode.__init__(name, data=child)`
      if !metaOk kvs then .error "metadata"
      else match nodeKids rat kvs [] with
        | .ok cs => .ok (.node cs)
        | .error e => .error e
  | .null => .error "TypeError: argument of type 'NoneType' is not iterable"
  | .bool _ => .error "TypeError: argument of type 'bool' is not iterable"
  | .num _ => .error "TypeError: argument of type 'int' is not iterable"
  | .str _ => .error "must be of type object"
  | .list _ => .error "must be of type object"
/-- the loop of `ParameterNode.__init__` over `data.items()`: reserved keys are not members, a key is
    turned into text, the child is parsed and handed to `add_child` -/
def nodeKids (rat : String → Option Rat) : List (YKey × Y) → List (String × PNode String) →
    Except String (List (String × PNode String))
  | [], acc => .ok acc
  | (k, y) :: r, acc =>
    if k.within commonKeys then nodeKids rat r acc
    else match parseChild rat y with
      | .error e => .error e
      | .ok c =>
        match addChild acc k.text c with
        | .error e => .error e
        | .ok acc' => nodeKids rat r acc'
/-- `data.get("brackets", [])`, which must be a list -/
def scaleBrackets (rat : String → Option Rat) : List (YKey × Y) → Except String (List Bracket)
  | [] => .ok []
  | (k, y) :: r =>
    if k.isName "brackets" then
      match y with
      | .list xs => bracketList rat xs
      | .null => .error "must be of type array"
      | .bool _ => .error "must be of type array"
      | .num _ => .error "must be of type array"
      | .str _ => .error "must be of type array"
      | .map _ => .error "must be of type array"
    else scaleBrackets rat r
def bracketList (rat : String → Option Rat) : List Y → Except String (List Bracket)
  | [] => .ok []
  | b :: r =>
    match bracketOf rat b with
    | .error e => .error e
    | .ok x =>
      match bracketList rat r with
      | .error e => .error e
      | .ok xs => .ok (x :: xs)
/-- `ParameterScaleBracket(name, data)`: a node whose keys are restricted to the four fields -/
def bracketOf (rat : String → Option Rat) : Y → Except String Bracket
  | .map kvs =>
    if !keysWithin kvs bracketKeys then .error "Unexpected property"
    else bracketFields rat kvs ⟨[], [], [], []⟩
  | .null => .error "must be of type object"
  | .bool _ => .error "must be of type object"
  | .num _ => .error "must be of type object"
  | .str _ => .error "must be of type object"
  | .list _ => .error "must be of type object"
def bracketFields (rat : String → Option Rat) : List (YKey × Y) → Bracket → Except String Bracket
  | [], b => .ok b
  | (k, y) :: r, b =>
    match parseChild rat y with
    | .error e => .error e
    | .ok (.param l) =>
      (match ratEntries rat l with
       | some l' => bracketFields rat r (setField b k.text l')
       | none => .error "UNSUP")
    | .ok (.scale _ _) => .error "UNSUP"
    | .ok (.node _) => .error "UNSUP"
end

/-! ## Construction from a directory of YAML files: `ParameterNode.__init__(name, directory_path=…)` -/

/-- an entry of a directory listing: a file (`os.path.splitext` of its name, and what `yaml.load` makes of its
    content) or a sub-directory -/
inductive DirEnt where
  | file (stem ext : String) (content : Y)
  | dir (name : String) (entries : List DirEnt)

/-- `config.FILE_EXTENSIONS` -/
def yamlExts : List String := [".yaml", ".yml"]

/-- `index.yaml`: `data = _load_yaml_file(path) or {}`, the keys must be the reserved ones, the metadata a
    mapping (a content that is true but not a mapping has no `.keys()`) -/
def indexOk : Y → Bool
  | .map kvs => keysWithin kvs commonKeys && metaOk kvs
  | .null => true
  | .bool b => !b
  | .num t => t == "0"
  | .str t => t == ""
  | .list xs => xs.isEmpty

mutual
/-- one entry of the listing: files of other types are ignored, `index` describes the node itself, any other
    YAML file is a child named by its stem (`load_parameter_file` → `_parse_child`), a sub-directory is a child
    node; every child goes through `add_child`, so `a.yaml` beside `a.yml` or beside a directory `a` is refused -/
def buildEnt (rat : String → Option Rat) : DirEnt → List (String × PNode String) →
    Except String (List (String × PNode String))
  | .file stem ext content, acc =>
    if !yamlExts.contains ext then .ok acc
    else if stem == "index" then
      if indexOk content then .ok acc else .error "index: unexpected property"
    else
      match parseChild rat content with
      | .error e => .error e
      | .ok c => addChild acc stem c
  | .dir name entries, acc =>
    match buildDir rat entries [] with
    | .error e => .error e
    | .ok cs => addChild acc name (.node cs)
/-- the loop over `os.listdir(directory_path)`, in listing order -/
def buildDir (rat : String → Option Rat) : List DirEnt → List (String × PNode String) →
    Except String (List (String × PNode String))
  | [], acc => .ok acc
  | e :: r, acc =>
    match buildEnt rat e acc with
    | .error err => .error err
    | .ok acc' => buildDir rat r acc'
end

/-! ## Names: what a missing member is called -/

/-- `helpers._compose_name(path, child_name)` -/
def composeChild (path child : String) : String := if path == "" then child else path ++ "." ++ child

/-- `helpers._compose_name(path, item_name=key)`, the name `ParameterNotFoundError` carries when
    `node_at_instant.key` misses (Python's `None` for a node without a name) -/
def composeItem (path key : String) : String := if path == "" then "None" else path ++ "[" ++ key ++ "]"

/-- the children of a node that `node(d)` does NOT expose, each with the name the error carries -/
def absentAt (name : String) : List (String × PNode V) → Int → List (String × String)
  | [], _ => []
  | (k, c) :: r, d => if c.definedAt d then absentAt name r d else (k, composeItem name k) :: absentAt name r d

/-! ## `get_descendants` -/

mutual
/-- the `name`s of `node.get_descendants()`: every child followed by its own descendants, in dict order
    (a parameter and a scale have none: brackets are not descendants) -/
def PNode.descNames (name : String) : PNode V → List String
  | .param _ => []
  | .scale _ _ => []
  | .node cs => descAll name cs
def descAll (name : String) : List (String × PNode V) → List String
  | [] => []
  | (k, c) :: r => composeChild name k :: (c.descNames (composeChild name k) ++ descAll name r)
end

/-! ## Histories over several objects: `clone()` -/

/-- one step of a history over several objects (`Parameter`, `ParameterNode`, `ParameterScale`):
    `x.clone()` creates a new object (numbered after the existing ones), an update addresses one
    object. `U` is whatever an update request is for the kind of object at hand. -/
inductive HOp (U : Type) where
  | clone (src : Nat)
  | upd (obj : Nat) (u : U)
deriving Repr

/-- the object an operation writes to -/
def HOp.target {U : Type} : HOp U → Option Nat
  | .clone _ => none
  | .upd i _ => some i

/-- The objects are pure values: `clone()` (which rebuilds `values_list`, the children, the
    brackets) is a copy; an update replaces the addressed object only. `f` applies one update
    request to one object. Out-of-range indices leave the state as it is. -/
def runOp {σ U : Type} (f : σ → U → σ) (st : List σ) : HOp U → List σ
  | .clone s => match st[s]? with
    | some x => st ++ [x]
    | none => st
  | .upd i u => match st[i]? with
    | some x => st.set i (f x u)
    | none => st

def runOps {σ U : Type} (f : σ → U → σ) (st : List σ) (ops : List (HOp U)) : List σ :=
  ops.foldl (runOp f) st

/-- bookkeeping for the specification: an object's *own* sequence of updates is extended by the
    updates addressed to it and inherited by its clones -/
def snoc {U : Type} (us : List U) (u : U) : List U := us ++ [u]

/-! ## Specification vocabulary (used by the theorems of `Props/C06.lean`) -/

/-- `e` is the most recent entry of `l` on or before `d` -/
def IsLatest (l : List (Entry V)) (d : Int) (e : Entry V) : Prop :=
  e ∈ l ∧ e.date ≤ d ∧ ∀ e' ∈ l, e'.date ≤ d → e'.date ≤ e.date

/-- what one update is meant to do to the value read at `d` -/
def specStep (d : Int) (acc : Option V) (u : Upd V) : Option V :=
  if u.covers d then u.v else acc

/-- the rate / amount stored for threshold `t` (0 when `t` is not a threshold) -/
def rowVal : List (Rat × Rat) → Rat → Rat
  | [], _ => 0
  | (t', r') :: rest, t => if t' = t then r' else rowVal rest t

/-- the sum of the values of the brackets whose threshold at `d` is `t` (both defined at `d`) -/
def contribSum (k : ScaleKind) (d : Int) : List Bracket → Rat → Rat
  | [], _ => 0
  | b :: bs, t =>
    (match bracketPair k d b with
      | some (t', x) => if t' = t then x else 0
      | none => 0) + contribSum k d bs t

end OFCore.Param
