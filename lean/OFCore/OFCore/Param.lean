/-!
# Dated legislation parameters (import-free model) — property C06

Python counterparts (openfisca_core/parameters):

* `Parameter.values_list`           ↦ `List (Entry V)` in reverse chronological order
* `Parameter.__init__(data=…)`      ↦ `ofData` (keys sorted in reverse, `expected` placeholders skipped)
* `Parameter._get_at_instant`       ↦ `pget`
* `Parameter.update`                ↦ `updateCall` (argument checking) and `update` (the five phases)
* `ParameterNode._get_at_instant` / `ParameterNodeAtInstant.__init__` ↦ `PNode.atInstant` / `childrenAt`
* `ParameterScale._get_at_instant`  ↦ `scaleAt` (+ `scaleAdd` for the tax scales' `add_bracket`)

Abstraction. The code keeps instants as zero-padded ISO strings `YYYY-MM-DD` and compares them as
strings; the model keeps the proleptic ordinal of the same date (`datetime.date.toordinal`, `ord` in
`Calendar.lean`). On valid dates of years 1..9999 string order is the lexicographic order on
`(y, m, d)`, which `Lemmas/Calendar.lean` (`ord_lt_of_lex`, `ord_inj`) proves to be the order of the
ordinals; `stop.offset(1, "day")` is `ordinal + 1`. Values are an arbitrary type `V`
(`float | int | bool | list` in the code); a YAML `null` is `none`.
-/
namespace OFCore.Param

/-- one `ParameterAtInstant`: `instant_str` (as an ordinal) and `value` (`none` = null) -/
structure Entry (V : Type) where
  date : Int
  val  : Option V
deriving Repr, DecidableEq

variable {V : Type}

/-! ## Reading -/

/-- `Parameter._get_at_instant`: the first entry (in list order) dated on or before `d`;
    `None` when there is none — and also when that entry's value is null. -/
def pget : List (Entry V) → Int → Option V
  | [], _ => none
  | e :: r, d => if e.date ≤ d then e.val else pget r d

/-- the state invariant `Parameter.values_list` is documented to have: strictly decreasing dates -/
def Sorted : List (Entry V) → Prop
  | [] => True
  | [_] => True
  | e :: f :: r => f.date < e.date ∧ Sorted (f :: r)

instance decSorted : (l : List (Entry V)) → Decidable (Sorted l)
  | [] => isTrue trivial
  | [_] => isTrue trivial
  | e :: f :: r =>
    match decSorted (f :: r) with
    | isTrue h => if h' : f.date < e.date then isTrue ⟨h', h⟩ else isFalse (fun c => h' c.1)
    | isFalse h => isFalse (fun c => h c.2)

/-! ## Construction from a `{date: …}` mapping -/

/-- what a date key maps to in the `data` dict -/
inductive Item (V : Type) where
  | value (v : Option V)      -- `{value: v}` or a bare `v`
  | expected                  -- `"expected"` or `{expected: …}`: metadata only, skipped
deriving Repr, DecidableEq

/-- insertion into a list sorted by decreasing key (model of `sorted(keys, reverse=True)`) -/
def insertDesc (x : Int × Item V) : List (Int × Item V) → List (Int × Item V)
  | [] => [x]
  | y :: r => if y.1 ≤ x.1 then x :: y :: r else y :: insertDesc x r

def sortDesc : List (Int × Item V) → List (Int × Item V)
  | [] => []
  | x :: r => insertDesc x (sortDesc r)

/-- the loop of `Parameter.__init__` over the sorted instants -/
def keepValues : List (Int × Item V) → List (Entry V)
  | [] => []
  | (d, .value v) :: r => ⟨d, v⟩ :: keepValues r
  | (_, .expected) :: r => keepValues r

/-- `Parameter.__init__`: `items` is the mapping in declaration order (keys distinct) -/
def ofData (items : List (Int × Item V)) : List (Entry V) := keepValues (sortDesc items)

/-! ## `Parameter.update` -/

/-- phase 1, `while i < n and old[i].instant_str >= stop_str: new.append(old[i]); i += 1`:
    the entries appended -/
def keepFrom : List (Entry V) → Int → List (Entry V)
  | [], _ => []
  | e :: r, s => if s ≤ e.date then e :: keepFrom r s else []

/-- the same loop seen from the index: `old[i:]` once the leading entries dated `≥ s` are passed
    (phase 1 with `s = stop_str`, phase 4 with `s = start_str`) -/
def skipFrom : List (Entry V) → Int → List (Entry V)
  | [], _ => []
  | e :: r, s => if s ≤ e.date then skipFrom r s else e :: r

/-- `new_values[-1].instant_str` -/
def lastDate : List (Entry V) → Option Int
  | [] => none
  | [e] => some e.date
  | _ :: f :: r => lastDate (f :: r)

/-- phase 2 ("right-overlapped interval"): what is appended at `s = stop + 1 day` -/
def reopen (future rest : List (Entry V)) (s : Int) : List (Entry V) :=
  if lastDate future = some s then []            -- such interval is empty
  else match rest with
    | e :: _ => [⟨s, e.val⟩]                      -- `elif i < n`: the overlapped value goes on after `stop`
    | [] => [⟨s, none⟩]                           -- nothing earlier: undefined after `stop`

/-- `Parameter.update` once `start` / `stop` are known; `stop = none` is the open-ended form.
    `a` = start, `b` = stop (inclusive last day). All five phases, in the code's order. -/
def update (l : List (Entry V)) (a : Int) (stop : Option Int) (v : Option V) : List (Entry V) :=
  match stop with
  | none => ⟨a, v⟩ :: skipFrom l a                      -- phases 1-2 do not run
  | some b =>
    let s := b + 1                                      -- `stop.offset(1, "day")`
    let future := keepFrom l s                          -- phase 1
    let rest := skipFrom l s                            -- `old_values[i:]`
    future ++ reopen future rest s                      -- phase 2
      ++ (⟨a, v⟩ :: skipFrom rest a)                    -- phases 3, 4, 5

/-- the argument checking at the top of `Parameter.update`: `period` (given as its first and last
    day) excludes `start` / `stop`; a start is mandatory -/
def updateCall (l : List (Entry V)) (period : Option (Int × Int)) (start stop : Option Int)
    (v : Option V) : Except String (List (Entry V)) :=
  match period with
  | some (ps, pe) =>
    if start.isSome || stop.isSome then .error "TypeError: both period and start/stop"
    else .ok (update l ps (some pe) v)
  | none =>
    match start with
    | none => .error "ValueError: neither start nor period"
    | some a => .ok (update l a stop v)

/-- a well-formed update request: start, optional inclusive stop, new value -/
structure Upd (V : Type) where
  a : Int
  b : Option Int
  v : Option V
deriving Repr

/-- the dates an update is meant to cover -/
def Upd.covers (u : Upd V) (d : Int) : Prop :=
  u.a ≤ d ∧ match u.b with | some b => d ≤ b | none => True

instance (u : Upd V) (d : Int) : Decidable (u.covers d) := by
  unfold Upd.covers; cases u.b <;> infer_instance

/-- claim domain: `start ≤ stop` -/
def Upd.WF (u : Upd V) : Prop := match u.b with | some b => u.a ≤ b | none => True

instance (u : Upd V) : Decidable u.WF := by unfold Upd.WF; cases u.b <;> infer_instance

def applyUpd (l : List (Entry V)) (u : Upd V) : List (Entry V) := update l u.a u.b u.v

/-- a finite sequence of updates, applied in order -/
def updates (l : List (Entry V)) (us : List (Upd V)) : List (Entry V) := us.foldl applyUpd l

/-! ## Scales at an instant -/

/-- a `ParameterScaleBracket`: four dated parameters (a missing key is an empty history) -/
structure Bracket where
  threshold   : List (Entry Rat)
  rate        : List (Entry Rat)
  amount      : List (Entry Rat)
  averageRate : List (Entry Rat)
deriving Repr

inductive ScaleKind where
  | singleAmount | marginalAmount | linearAverageRate | marginalRate
deriving Repr, DecidableEq

def ScaleKind.name : ScaleKind → String
  | .singleAmount => "single_amount" | .marginalAmount => "marginal_amount"
  | .linearAverageRate => "linear_average_rate" | .marginalRate => "marginal_rate"

/-- the dated field a scale kind reads besides the threshold -/
def Bracket.field (b : Bracket) : ScaleKind → List (Entry Rat)
  | .singleAmount => b.amount | .marginalAmount => b.amount
  | .linearAverageRate => b.averageRate | .marginalRate => b.rate

/-- `rates[i] += rate` at the first row whose threshold is `t` -/
def bumpRow : List (Rat × Rat) → Rat → Rat → List (Rat × Rat)
  | [], _, _ => []
  | (t', r') :: rest, t, r => if t' = t then (t', r' + r) :: rest else (t', r') :: bumpRow rest t r

/-- `insert(bisect_left(thresholds, t), …)` on a sorted list: before the first row `≥ t` -/
def insertRow : List (Rat × Rat) → Rat → Rat → List (Rat × Rat)
  | [], t, r => [(t, r)]
  | (t', r') :: rest, t, r => if t ≤ t' then (t, r) :: (t', r') :: rest else (t', r') :: insertRow rest t r

/-- `RateTaxScaleLike.add_bracket` / `AmountTaxScaleLike.add_bracket` -/
def scaleAdd (rows : List (Rat × Rat)) (t r : Rat) : List (Rat × Rat) :=
  if rows.any (fun p => p.1 == t) then bumpRow rows t r else insertRow rows t r

/-- `"amount" in bracket._children` etc.: the dated field has a non-null value at `d` -/
def hasAt (l : List (Entry Rat)) (d : Int) : Bool := (pget l d).isSome

/-- the class of scale `ParameterScale._get_at_instant` builds at `d` -/
def scaleKindAt (singleAmount : Bool) (bs : List Bracket) (d : Int) : ScaleKind :=
  if singleAmount then .singleAmount
  else if bs.any (fun b => hasAt b.amount d) then .marginalAmount
  else if bs.any (fun b => hasAt b.averageRate d) then .linearAverageRate
  else .marginalRate

/-- the `(threshold, value)` a bracket contributes at `d`, if both are defined there -/
def bracketPair (k : ScaleKind) (d : Int) (b : Bracket) : Option (Rat × Rat) :=
  match pget (b.field k) d, pget b.threshold d with
  | some x, some t => some (t, x)
  | _, _ => none

structure ScaleAt where
  kind : ScaleKind
  rows : List (Rat × Rat)      -- (threshold, rate | amount), as the tax scale stores them
deriving Repr

/-- `for bracket in brackets: if … in bracket._children: scale.add_bracket(threshold, value)` -/
def addAll (k : ScaleKind) (d : Int) : List Bracket → List (Rat × Rat) → List (Rat × Rat)
  | [], rows => rows
  | b :: bs, rows =>
    match bracketPair k d b with
    | some (t, x) => addAll k d bs (scaleAdd rows t x)
    | none => addAll k d bs rows

/-- `ParameterScale._get_at_instant`; `singleAmount` = (`metadata["type"] == "single_amount"`) -/
def scaleAt (singleAmount : Bool) (bs : List Bracket) (d : Int) : ScaleAt :=
  let k := scaleKindAt singleAmount bs d
  ⟨k, addAll k d bs []⟩

/-! ## Nodes at an instant -/

/-- a parameter tree: `Parameter`, `ParameterScale`, `ParameterNode` (children in dict order) -/
inductive PNode (V : Type) where
  | param (l : List (Entry V))
  | scale (singleAmount : Bool) (bs : List Bracket)
  | node (cs : List (String × PNode V))

/-- what `_get_at_instant` returns: a value, a tax scale, a `ParameterNodeAtInstant` -/
inductive Snap (V : Type) where
  | val (v : V)
  | scale (s : ScaleAt)
  | node (cs : List (String × Snap V))

mutual
/-- `child._get_at_instant(instant_str)`; `none` is Python's `None` -/
def PNode.atInstant : PNode V → Int → Option (Snap V)
  | .param l, d => (pget l d).map .val
  | .scale m bs, d => some (.scale (scaleAt m bs d))
  | .node cs, d => some (.node (childrenAt cs d))
/-- the loop of `ParameterNodeAtInstant.__init__`: keep the children that are not `None` -/
def childrenAt : List (String × PNode V) → Int → List (String × Snap V)
  | [], _ => []
  | (k, c) :: r, d =>
    match c.atInstant d with
    | some s => (k, s) :: childrenAt r d
    | none => childrenAt r d
end

/-- "child is defined at `d`", stated without running `atInstant`: a parameter needs a non-null
    value in force; sub-nodes and scales are always exposed -/
def PNode.definedAt : PNode V → Int → Bool
  | .param l, d => (pget l d).isSome
  | .scale _ _, _ => true
  | .node _, _ => true

/-! ## Building a node: `add_child`, `merge` -/

/-- `ParameterNode.add_child`: a name already present is refused (`ValueError`), otherwise the
    child is appended (dict insertion order). Every construction route — `data=` dict, directory
    of YAML files, explicit `add_child`, `merge` — goes through it. -/
def addChild (cs : List (String × PNode V)) (name : String) (c : PNode V) :
    Except String (List (String × PNode V)) :=
  if cs.any (fun p => p.1 == name) then .error "ValueError: already a child of that name"
  else .ok (cs ++ [(name, c)])

/-- `ParameterNode.merge`: `add_child` for every child of the other node, in its order -/
def mergeChildren (cs : List (String × PNode V)) : List (String × PNode V) →
    Except String (List (String × PNode V))
  | [] => .ok cs
  | (k, c) :: rest =>
    match addChild cs k c with
    | .ok cs' => mergeChildren cs' rest
    | .error e => .error e

/-! ## Histories over several objects: `clone()` -/

/-- one step of a history over several objects (`Parameter`, `ParameterNode`, `ParameterScale`):
    `x.clone()` creates a new object (numbered after the existing ones), an update addresses one
    object. `U` is whatever an update request is for the kind of object at hand. -/
inductive HOp (U : Type) where
  | clone (src : Nat)
  | upd (obj : Nat) (u : U)
deriving Repr

/-- the object an operation writes to -/
def HOp.target {U : Type} : HOp U → Option Nat
  | .clone _ => none
  | .upd i _ => some i

/-- The objects are pure values: `clone()` (which rebuilds `values_list`, the children, the
    brackets) is a copy; an update replaces the addressed object only. `f` applies one update
    request to one object. Out-of-range indices leave the state as it is. -/
def runOp {σ U : Type} (f : σ → U → σ) (st : List σ) : HOp U → List σ
  | .clone s => match st[s]? with
    | some x => st ++ [x]
    | none => st
  | .upd i u => match st[i]? with
    | some x => st.set i (f x u)
    | none => st

def runOps {σ U : Type} (f : σ → U → σ) (st : List σ) (ops : List (HOp U)) : List σ :=
  ops.foldl (runOp f) st

/-- bookkeeping for the specification: an object's *own* sequence of updates is extended by the
    updates addressed to it and inherited by its clones -/
def snoc {U : Type} (us : List U) (u : U) : List U := us ++ [u]

/-! ## Specification vocabulary (used by the theorems of `Props/C06.lean`) -/

/-- `e` is the most recent entry of `l` on or before `d` -/
def IsLatest (l : List (Entry V)) (d : Int) (e : Entry V) : Prop :=
  e ∈ l ∧ e.date ≤ d ∧ ∀ e' ∈ l, e'.date ≤ d → e'.date ≤ e.date

/-- what one update is meant to do to the value read at `d` -/
def specStep (d : Int) (acc : Option V) (u : Upd V) : Option V :=
  if u.covers d then u.v else acc

/-- the rate / amount stored for threshold `t` (0 when `t` is not a threshold) -/
def rowVal : List (Rat × Rat) → Rat → Rat
  | [], _ => 0
  | (t', r') :: rest, t => if t' = t then r' else rowVal rest t

/-- the sum of the values of the brackets whose threshold at `d` is `t` (both defined at `d`) -/
def contribSum (k : ScaleKind) (d : Int) : List Bracket → Rat → Rat
  | [], _ => 0
  | b :: bs, t =>
    (match bracketPair k d b with
      | some (t', x) => if t' = t then x else 0
      | none => 0) + contribSum k d bs t

end OFCore.Param
