import OFCore.Param
import OFCore.Calendar
/-!
# Every way of reading parameters (import-free model) — property C07

Python counterparts (the tree WITH the repairs F-C07, F-C07b, F-C07c):

* `TaxBenefitSystem.get_parameters_at_instant` (`functools.lru_cache`, keyed by `(self, instant)`,
  `maxsize = 128`, ONE cache for the whole process: a baseline and its reforms share it) ↦ `viewAt`
  on a `World` (`memo`, `memoTouch`, `cacheSize`)
* `TaxBenefitSystem.load_extension` (`cache_clear()`, own copy for a reform — repairs
  C14f/C14g —, then `ParameterNode.merge` IN PLACE) ↦ `Op.extend`
  (`mergeInto`); `_get_baseline_parameters_at_instant` ↦ `Read.baseView` (`rootOf`)
* `TaxBenefitSystem.load_parameters`                    ↦ `Op.reload`   (tree built, `preprocess_parameters`
  hook run, tree replaced, memo emptied — in that order)
* `Reform.__init__` (`self.parameters = baseline.parameters`) ↦ `Op.newReform`
* `Reform.modify_parameters` (deep copy of the reform's OWN current tree — successive modifiers
  accumulate, repair C14e —, modifier (a `ModProg`: it may read the process while it runs), `isinstance`
  test, replacement, and only then `cache_clear()`)                          ↦ `Op.modify`
* `parameters.a.b(instant)` / `get_at_instant`          ↦ `readTreeAt` (`pdescend`, then `atInstant`)
* `view.a.b`, `ParameterNodeAtInstant.__getattr__`      ↦ `sdescend`
* `Simulation._run_formula`: `parameters_at = trace_parameters_at_instant | get_parameters_at_instant`
  ↦ `Op.readFormula traced`; `TracingParameterNodeAtInstant.__getattr__/get_traced_child` ↦ `tracedDescend`,
  `__getitem__` on vectors ↦ `tracedVec`
* `VectorialParameterNodeAtInstant.check_node_vectorisable` ↦ `homog` (`checkNodes`, `checkNums`, `pool`)
* `VectorialParameterNodeAtInstant.build_from_node`     ↦ `buildVec plainLt` (`vectorise`, `sortFields`)
* `VectorialParameterNodeAtInstant.__getitem__` / `__getattr__` ↦ `vindex` / `vfield` (`KeyVec.strs` is the
  stringification of `Enum` object arrays, `EnumArray`s and integer arrays)
* `VectorialAsofDateParameterNodeAtInstant.build_from_node` / `__getitem__` ↦ `buildVec asofLt` / `asofIndex`

Abstractions. A numpy record array is a list of rows (`VRow`), a float array a list of leaf rows;
instants are proleptic ordinals (as in `Param.lean`); tree OBJECTS have an identity (`World.heap`):
a reform refers to its baseline's object until one of them replaces its tree (`modify_parameters`
installs a deep copy, `load_parameters` a new tree), and `load_extension` changes the object in place. Memo keys keep the *spelling* of the instant argument
(`"2018-01-01"`, `Instant`, `Period` … are different `lru_cache` keys) as an opaque code `form`.
-/
namespace OFCore.PView
open OFCore.Param

variable {V W α β : Type}

/-! ## Association lists (Python dicts: first match wins; real dicts have distinct keys) -/

def assoc (k : String) : List (String × α) → Option α
  | [] => none
  | (k', x) :: r => if k' = k then some x else assoc k r

mutual
/-- every node's child names are distinct (what a Python `dict` guarantees) -/
def treeWF : PNode V → Bool
  | .param _ => true
  | .scale _ _ => true
  | .node cs => wfAll cs
def wfAll : List (String × PNode V) → Bool
  | [] => true
  | (k, c) :: r => (assoc k r).isNone && treeWF c && wfAll r
end

/-! ## Navigation by attribute path -/

/-- `getattr(parameter_node, key)` -/
def pchild : PNode V → String → Except String (PNode V)
  | .node cs, k =>
    match assoc k cs with
    | some c => .ok c
    | none => .error "AttributeError"
  | .param _, _ => .error "AttributeError"
  | .scale _ _, _ => .error "AttributeError"

/-- `parameters.a.b` -/
def pdescend (t : PNode V) : List String → Except String (PNode V)
  | [] => .ok t
  | k :: p =>
    match pchild t k with
    | .ok c => pdescend c p
    | .error e => .error e

/-- `getattr(node_at_instant, key)`: `ParameterNotFoundError` for a missing child -/
def schild : Snap V → String → Except String (Snap V)
  | .node cs, k =>
    match assoc k cs with
    | some c => .ok c
    | none => .error "ParameterNotFoundError"
  | .val _, _ => .error "AttributeError"
  | .scale _, _ => .error "AttributeError"

/-- `view.a.b` -/
def sdescend (s : Snap V) : List String → Except String (Snap V)
  | [] => .ok s
  | k :: p =>
    match schild s k with
    | .ok c => sdescend c p
    | .error e => .error e

/-- the parameter object itself: `parameters.a.b(d)`; `ok none` is Python's `None` -/
def readTreeAt (t : PNode V) (path : List String) (d : Int) : Except String (Option (Snap V)) :=
  match pdescend t path with
  | .ok c => .ok (c.atInstant d)
  | .error e => .error e

/-- navigating what `get_parameters_at_instant` returned (`None` when the system has no tree) -/
def navView (root : Option (Snap V)) (path : List String) : Except String (Option (Snap V)) :=
  match root, path with
  | none, [] => .ok none
  | none, _ :: _ => .error "AttributeError"
  | some s, p =>
    match sdescend s p with
    | .ok x => .ok (some x)
    | .error e => .error e

/-! ## The tracing wrapper -/

/-- one `TraceNode(name, period, value)` appended by `record_parameter_access` -/
structure LogEntry (V : Type) where
  name  : String
  date  : Int
  value : V
deriving Repr, DecidableEq

/-- `helpers._compose_name(path, child_name)` -/
def composeName (path child : String) : String :=
  if path = "" then child else path ++ "." ++ child

/-- `TracingParameterNodeAtInstant.__getattr__` along a path. `name` is the wrapped node's `_name`.
    A sub-node is wrapped again; a value is recorded under `f"{name}.{key}"` and returned bare
    (whatever is navigated after it is navigated on the bare object); a tax scale is returned
    bare and not recorded. -/
def tracedDescend (d : Int) (name : String) (s : Snap V) (path : List String)
    (log : List (LogEntry V)) : Except String (Snap V) × List (LogEntry V) :=
  match path with
  | [] => (.ok s, log)
  | k :: p =>
    match schild s k with
    | .error e => (.error e, log)
    | .ok (.node cs) => tracedDescend d (composeName name k) (.node cs) p log
    | .ok (.val v) => (sdescend (Snap.val v) p, log ++ [⟨name ++ "." ++ k, d, v⟩])
    | .ok (.scale sc) => (sdescend (Snap.scale sc) p, log)

/-- what a formula sees through `parameters(period)` when tracing is on -/
def navTraced (d : Int) (root : Option (Snap V)) (path : List String) (log : List (LogEntry V)) :
    Except String (Option (Snap V)) × List (LogEntry V) :=
  match root, path with
  | none, [] => (.ok none, log)
  | none, _ :: _ => (.error "AttributeError", log)
  | some s, p =>
    match tracedDescend d "" s p log with
    | (.ok x, l) => (.ok (some x), l)
    | (.error e, l) => (.error e, l)

/-! ## The memoised at-instant view and the operations on systems -/

/-- a key of the process-wide `lru_cache`: the system object, the spelling of the instant argument
    (opaque code), the date it denotes -/
structure Key where
  sys  : Nat
  form : Nat
  date : Int
deriving DecidableEq, Repr

/-- a tax-benefit system as far as parameters go: a REFERENCE to its current tree object (`None` until
    loaded) and, for a reform, its baseline. `Reform.__init__` copies the reference
    (`self.parameters = baseline.parameters`): until one of them replaces its tree, a reform and its
    baseline hold the same object, and an in-place change (`load_extension`) is seen by both. -/
structure SysRec where
  tree     : Option Nat
  baseline : Option Nat

/-- the process: the tree objects ever built (index = identity), the systems alive (index = identity)
    and the one shared memo -/
structure World (V : Type) where
  heap    : List (PNode V)
  systems : List SysRec
  memo    : List (Key × Option (Snap V))

/-- `self.parameters.get_at_instant(key)`, `None` when `self.parameters is None` -/
def snapshot (t : Option (PNode V)) (d : Int) : Option (Snap V) :=
  match t with
  | none => none
  | some t => t.atInstant d

/-- `lru_cache(maxsize=128)` -/
def cacheSize : Nat := 128

def memoFind (k : Key) : List (Key × α) → Option α
  | [] => none
  | (k', x) :: r => if k' = k then some x else memoFind k r

def memoErase (k : Key) : List (Key × α) → List (Key × α)
  | [] => []
  | (k', x) :: r => if k' = k then memoErase k r else (k', x) :: memoErase k r

/-- most recently used first; the least recently used entries fall off -/
def memoTouch (k : Key) (x : α) (m : List (Key × α)) : List (Key × α) :=
  ((k, x) :: memoErase k m).take cacheSize

/-- `system.parameters`: the object the system refers to, as it is NOW -/
def World.treeOf (w : World V) (s : Nat) : Option (PNode V) :=
  match w.systems[s]? with
  | some r =>
    match r.tree with
    | some i => w.heap[i]?
    | none => none
  | none => none

/-- `system.get_parameters_at_instant(instant)`: a hit returns the memoised object, a miss evaluates
    the CURRENT tree and memoises the result. `none` = there is no system `s`. -/
def viewAt (w : World V) (s form : Nat) (d : Int) : Option (World V × Option (Snap V)) :=
  match w.systems[s]? with
  | none => none
  | some _ =>
    match memoFind ⟨s, form, d⟩ w.memo with
    | some v => some ({ w with memo := memoTouch ⟨s, form, d⟩ v w.memo }, v)
    | none =>
      let v := snapshot (w.treeOf s) d
      some ({ w with memo := memoTouch ⟨s, form, d⟩ v w.memo }, v)

def isNode : PNode V → Bool
  | .node _ => true
  | .param _ => false
  | .scale _ _ => false

/-- `system.parameters = new_tree` followed by `cache_clear()`: a NEW object, referred to by `s` only -/
def install (w : World V) (s : Nat) (t : PNode V) : World V :=
  { heap := w.heap ++ [t],
    systems := w.systems.modify s (fun r => { r with tree := some w.heap.length }),
    memo := [] }

/-- `_get_baseline_parameters_at_instant`: up the chain of baselines (`fuel` bounds the walk; a
    baseline is always older than its reform) -/
def rootOf (systems : List SysRec) : Nat → Nat → Nat
  | 0, s => s
  | fuel + 1, s =>
    match systems[s]? with
    | some r =>
      match r.baseline with
      | some b => rootOf systems fuel b
      | none => s
    | none => s

inductive Obs (V : Type) where
  /-- a read: the value (`ok none` = Python's `None`) and what the tracer recorded -/
  | value (r : Except String (Option (Snap V))) (log : List (LogEntry V))
  | created (id : Nat)
  | done
  | failed (msg : String)

/-- a read of some system of the process, through one of the routes -/
inductive Read where
  /-- `system.get_parameters_at_instant(instant).<path>` -/
  | view (s form : Nat) (d : Int) (path : List String)
  /-- `system.parameters.<path>(instant)` -/
  | tree (s : Nat) (path : List String) (d : Int)
  /-- inside a formula of a simulation on `s`: `parameters(<instant>).<path>` -/
  | formula (s : Nat) (traced : Bool) (form : Nat) (d : Int) (path : List String)
  /-- `system._get_baseline_parameters_at_instant(instant).<path>`: the view of the root baseline -/
  | baseView (s form : Nat) (d : Int) (path : List String)

/-- one view read (shared by `view` and `baseView`) -/
def readViewOf (w : World V) (s form : Nat) (d : Int) (path : List String) : World V × Obs V :=
  match viewAt w s form d with
  | none => (w, .failed "no such system")
  | some (w', root) => (w', .value (navView root path) [])

/-- one read: the state after it (only the memo can change) and what the caller observes -/
def doRead (w : World V) : Read → World V × Obs V
  | .view s form d path => readViewOf w s form d path
  | .baseView s form d path => readViewOf w (rootOf w.systems w.systems.length s) form d path
  | .tree s path d =>
    match w.systems[s]? with
    | none => (w, .failed "no such system")
    | some _ =>
      match w.treeOf s with
      | none => (w, .value (.error "TypeError: None") [])
      | some t => (w, .value (readTreeAt t path d) [])
  | .formula s traced form d path =>
    match viewAt w s form d with
    | none => (w, .failed "no such system")
    | some (w', root) =>
      if traced then
        let (r, log) := navTraced d root path []
        (w', .value r log)
      else (w', .value (navView root path) [])

/-- What a user function called in the middle of a modification (a reform's modifier function, the
    `preprocess_parameters` hook of `load_parameters`) can do to the process: read any system through
    any route, any number of times, each read chosen from what the earlier ones returned, and finally
    return a tree (or raise). The edits it makes to the tree it was handed are edits of a private copy:
    they are part of the result, not of the process state. -/
inductive ModProg (V : Type) where
  | ret (r : Except String (PNode V))
  | read (rd : Read) (k : Obs V → ModProg V)

/-- running such a function: its reads go through the memo of the process, in order -/
def runProg (w : World V) : ModProg V → World V × Except String (PNode V)
  | .ret r => (w, r)
  | .read rd k => runProg (doRead w rd).1 (k (doRead w rd).2)

/-- `ParameterNode.merge(other)`: `add_child` child by child, in `other`'s order; a name already present
    raises `ValueError`, and what was added before it STAYS (the flag is "completed") -/
def mergeInto (cs : List (String × PNode V)) : List (String × PNode V) → List (String × PNode V) × Bool
  | [] => (cs, true)
  | (k, c) :: r => if (assoc k cs).isSome then (cs, false) else mergeInto (cs ++ [(k, c)]) r

/-- `self.baseline is not None` -/
def isReform (r : SysRec) : Bool := r.baseline.isSome

/-- `self.parameters = copy.deepcopy(self.parameters)`: system `s` now refers to a new object, equal
    to object `i`; every other system keeps its reference -/
def ownCopy (w : World V) (s i : Nat) : World V × Nat :=
  match w.heap[i]? with
  | some t =>
    ({ w with heap := w.heap ++ [t],
              systems := w.systems.modify s (fun r => { r with tree := some w.heap.length }) }, w.heap.length)
  | none => (w, i)

inductive Op (V : Type) where
  /-- `system.get_parameters_at_instant(instant).<path>` -/
  | readView (s form : Nat) (d : Int) (path : List String)
  /-- `system.parameters.<path>(instant)` -/
  | readTree (s : Nat) (path : List String) (d : Int)
  /-- inside a formula of a simulation on `s`: `parameters(<instant>).<path>` -/
  | readFormula (s : Nat) (traced : Bool) (form : Nat) (d : Int) (path : List String)
  /-- any read (`Read.baseView` included) -/
  | read (rd : Read)
  /-- `SomeReform(baseline)` (the body of `apply()` is the operations that follow) -/
  | newReform (b : Nat)
  /-- `reform.modify_parameters(f)`: `f` receives the copy of the reform's tree, may read the process
      while it runs, may raise -/
  | modify (s : Nat) (f : PNode V → ModProg V)
  /-- `system.load_parameters(dir)` where `dir` holds the children `cs`; `hook` is the system's
      `preprocess_parameters` (the only user code that runs inside `load_parameters`; `noHook` when
      the attribute is `None`) -/
  | reload (s : Nat) (cs : List (String × PNode V)) (hook : PNode V → ModProg V)
  /-- `system.load_extension(package)` where the package's `parameters/` directory holds `ext`: the
      tree OBJECT is changed in place -/
  | extend (s : Nat) (ext : List (String × PNode V))
  /-- `system.clone()`: a new system (same baseline) whose tree is `self.parameters.clone()`, a new object -/
  | cloneSys (s : Nat)

/-- a modifier that reads nothing -/
def pureMod (f : PNode V → Except String (PNode V)) : PNode V → ModProg V := fun t => .ret (f t)

/-- `preprocess_parameters is None` -/
def noHook : PNode V → ModProg V := fun t => .ret (.ok t)

/-- One operation: the new state of the process and what the caller observes. `modify` and `reload`
    are the sub-steps the code performs, IN THE CODE'S ORDER: (1) take the input tree (deep copy of the
    reform's own tree / the tree built from the directory); (2) run the user function, whose reads hit
    the memo while the system still has its FORMER tree; (3) install the returned tree — a new object —
    and only then empty the memo. Emptying the memo before (2) would let a read made during (2)
    re-memoise a view of the former tree that survives the installation (`stepClearFirst` below shows
    it). `extend` empties the memo FIRST and then merges in place: no user code runs in between, and a
    merge that stops half-way (a name conflict) has already changed the object. -/
def step (w : World V) : Op V → World V × Obs V
  | .readView s form d path => doRead w (.view s form d path)
  | .readTree s path d => doRead w (.tree s path d)
  | .readFormula s traced form d path => doRead w (.formula s traced form d path)
  | .read rd => doRead w rd
  | .newReform b =>
    match w.systems[b]? with
    | none => (w, .failed "no such system")
    | some r => ({ w with systems := w.systems ++ [⟨r.tree, some b⟩] }, .created w.systems.length)
  | .modify s f =>
    match w.systems[s]? with
    | none => (w, .failed "no such system")
    | some r =>
      match r.baseline with
      | none => (w, .failed "AttributeError: not a reform")   -- only `Reform` has the method
      | some _ =>
        match w.treeOf s with
        | none => (w, .failed "no parameters")
        | some t =>                                   -- (1) `copy.deepcopy(self.parameters)`: modifiers accumulate
          match runProg w (f t) with                  -- (2) `modifier_function(copy)`, reads included
          | (w1, .error e) => (w1, .failed e)         -- the modifier raised: nothing replaced, nothing cleared
          | (w1, .ok t') =>
            if isNode t' then                         -- `isinstance(reform_parameters, ParameterNode)`
              (install w1 s t', .done)                -- (3) install, then clear
            else (w1, .done)                          -- `return ValueError(…)`: silently nothing
  | .reload s cs hook =>
    match w.systems[s]? with
    | none => (w, .failed "no such system")
    | some _ =>
      match runProg w (hook (.node cs)) with          -- `ParameterNode("", directory_path=…)`, then the hook
      | (w1, .error e) => (w1, .failed e)
      | (w1, .ok t') => (install w1 s t', .done)
  | .extend s ext =>
    match w.systems[s]? with
    | none => (w, .failed "no such system")
    | some r =>                                       -- `cache_clear()` first
      match r.tree with
      | none => ({ w with memo := [] }, .failed "AttributeError: None")
      | some i =>
        -- a reform ALWAYS gets a copy of its own first: it may share its tree with any system along its
        -- chain of baselines or with other reforms of them (repairs C14f, C14g)
        match (if isReform r then ownCopy w s i else (w, i)) with
        | (w1, j) =>
          match w1.heap[j]? with                      -- then `self.parameters.merge(…)`, in place
          | some (.node cs) =>
            ({ w1 with heap := w1.heap.set j (.node (mergeInto cs ext).1), memo := [] },
              if (mergeInto cs ext).2 then .done else .failed "ValueError: already a child")
          | some (.param _) => ({ w1 with memo := [] }, .failed "AttributeError")
          | some (.scale _ _) => ({ w1 with memo := [] }, .failed "AttributeError")
          | none => ({ w1 with memo := [] }, .failed "dangling reference")
  | .cloneSys s =>
    match w.systems[s]? with
    | none => (w, .failed "no such system")
    | some r =>
      match w.treeOf s with
      | none => (w, .failed "AttributeError: None")      -- `self.parameters.clone()` on `None`
      | some t =>
        -- the memo is keyed by the system OBJECT: nothing is memoised for the clone, nothing is lost
        ({ w with heap := w.heap ++ [t], systems := w.systems ++ [⟨some w.heap.length, r.baseline⟩] },
          .created w.systems.length)

/-- NOT the code's order (kept to show that the order matters): the memo is emptied BEFORE the
    modifier runs, and not after the tree is installed. -/
def stepClearFirst (w : World V) (s : Nat) (f : PNode V → ModProg V) : World V :=
  match w.treeOf s with
  | none => w
  | some t =>
    match runProg { w with memo := [] } (f t) with
    | (w1, .error _) => w1
    | (w1, .ok t') => if isNode t' then { install w1 s t' with memo := w1.memo } else w1

/-- a finite history -/
def run (w : World V) : List (Op V) → World V
  | [] => w
  | op :: ops => run (step w op).1 ops

/-- a fresh process: one system without parameters, nothing memoised -/
def World.init : World V := ⟨[], [⟨none, none⟩], []⟩

/-- a process whose systems 0 … n-1 were each given their own tree (system `i` refers to object `i`) -/
def World.ofTrees (ts : List (PNode V × Option Nat)) : World V :=
  ⟨ts.map (·.1), (List.range ts.length).zip (ts.map (·.2)) |>.map (fun p => ⟨some p.1, p.2⟩), []⟩

/-- the system an operation replaces the tree of -/
def Op.target : Op V → Option Nat
  | .modify s _ => some s
  | .reload s _ _ => some s
  | .extend s _ => some s
  | .readView .. => none
  | .readTree .. => none
  | .readFormula .. => none
  | .read _ => none
  | .newReform _ => none
  | .cloneSys _ => none

/-- Does the operation, run in state `w`, leave the tree of system `b` alone? A replacement of another
    system's tree does; an extension does when it is loaded on another system that is a reform (it gets its
    own copy first) or does not refer to `b`'s object. -/
def Op.spares (w : World V) (b : Nat) : Op V → Bool
  | .modify s _ => s != b
  | .reload s _ _ => s != b
  | .extend s _ =>
    s != b &&
    (match w.systems[s]?, w.systems[b]? with
     | some r, some rb => isReform r || r.tree != rb.tree
     | _, _ => true)
  | .readView .. => true
  | .readTree .. => true
  | .readFormula .. => true
  | .read _ => true
  | .newReform _ => true
  | .cloneSys _ => true

/-- every operation of the history, in the state it runs in, leaves the tree of `b` alone -/
def Spared (b : Nat) : World V → List (Op V) → Prop
  | _, [] => True
  | w, op :: ops => op.spares w b = true ∧ Spared b (step w op).1 ops

/-- does the operation change a tree OBJECT in place (so that every system referring to it is affected) -/
def Op.inPlace : Op V → Bool
  | .extend .. => true
  | .modify .. => false
  | .reload .. => false
  | .readView .. => false
  | .readTree .. => false
  | .readFormula .. => false
  | .read _ => false
  | .newReform _ => false
  | .cloneSys _ => false

/-! ## Vectorial nodes -/

/-- one row of a numpy record array: a float field or a nested record -/
inductive VRow (W : Type) where
  | leaf (w : W)
  | record (fs : List (String × VRow W))

/-- stable insertion before the first field that is not smaller -/
def insertField (lt : String → String → Bool) (x : String × α) : List (String × α) → List (String × α)
  | [] => [x]
  | y :: r => if lt y.1 x.1 then y :: insertField lt x r else x :: y :: r

/-- `sorted(names, key=…)` -/
def sortFields (lt : String → String → Bool) : List (String × α) → List (String × α)
  | [] => []
  | x :: r => insertField lt x (sortFields lt r)

/-- `sorted(node._children.keys())` -/
def plainLt (a b : String) : Bool := decide (a < b)

/-- `name.startswith("before")` -/
def isBefore (name : String) : Bool := "before".toList.isPrefixOf name.toList

/-- `sorted(…, key=lambda name: (not name.startswith("before"), name))` (the F-C07c repair) -/
def asofLt (a b : String) : Bool :=
  if isBefore a = isBefore b then decide (a < b) else isBefore a

mutual
/-- the record `build_from_node` makes of a node at an instant (fields in sorted order); `num` is the
    conversion to the `"float"` dtype -/
def vectorise (lt : String → String → Bool) (num : V → Option W) : Snap V → Except String (VRow W)
  | .val v =>
    match num v with
    | some w => .ok (.leaf w)
    | none => .error "TypeError"
  | .scale _ => .error "TypeError"
  | .node cs =>
    match vectoriseAll lt num cs with
    | .ok fs => .ok (.record (sortFields lt fs))
    | .error e => .error e
def vectoriseAll (lt : String → String → Bool) (num : V → Option W) :
    List (String × Snap V) → Except String (List (String × VRow W))
  | [] => .ok []
  | (k, c) :: r =>
    match vectorise lt num c with
    | .error e => .error e
    | .ok x =>
      match vectoriseAll lt num r with
      | .error e => .error e
      | .ok xs => .ok ((k, x) :: xs)
end

mutual
def snapSize : Snap V → Nat
  | .val _ => 1
  | .scale _ => 1
  | .node cs => 1 + sizeAll cs
def sizeAll : List (String × Snap V) → Nat
  | [] => 0
  | (_, c) :: r => snapSize c + sizeAll r
end

def totalSize : List (Snap V) → Nat
  | [] => 0
  | s :: r => snapSize s + totalSize r

/-- the values of `extract_named_children(node)` -/
def kids : Snap V → List (Snap V)
  | .node cs => cs.map (·.2)
  | .val _ => []
  | .scale _ => []

/-- `children.update(extract_named_children(node))` over all the nodes of one level -/
def pool : List (Snap V) → List (Snap V)
  | [] => []
  | s :: r => kids s ++ pool r

theorem totalSize_append (a b : List (Snap V)) : totalSize (a ++ b) = totalSize a + totalSize b := by
  induction a with
  | nil => simp [totalSize]
  | cons x r ih => simp only [List.cons_append, totalSize, ih]; omega

theorem totalSize_map_snd (cs : List (String × Snap V)) : totalSize (cs.map (·.2)) = sizeAll cs := by
  induction cs with
  | nil => simp [totalSize, sizeAll]
  | cons x r ih => obtain ⟨k, c⟩ := x; simp only [List.map_cons, totalSize, sizeAll, ih]

theorem totalSize_kids_lt (s : Snap V) : totalSize (kids s) < snapSize s := by
  cases s with
  | val v => simp [kids, totalSize, snapSize]
  | scale sc => simp [kids, totalSize, snapSize]
  | node cs => simp only [kids, snapSize, totalSize_map_snd]; omega

theorem totalSize_pool_lt (s : Snap V) (r : List (Snap V)) : totalSize (pool (s :: r)) < totalSize (s :: r) := by
  have hle : ∀ l : List (Snap V), totalSize (pool l) ≤ totalSize l := by
    intro l
    induction l with
    | nil => simp [pool, totalSize]
    | cons x l ih =>
      have := totalSize_kids_lt x
      simp only [pool, totalSize, totalSize_append]; omega
  have h1 := totalSize_kids_lt s
  have h2 := hle r
  simp only [pool, totalSize, totalSize_append]; omega

/-- the keys of two nodes are compared as sets (`dict_keys.__ne__`) -/
def sameKeys (a b : List String) : Bool := a.all (fun k => b.contains k) && b.all (fun k => a.contains k)

/-- the loop over the other nodes when the first one is a node -/
def checkNodes (keys0 : List String) : List (Snap V) → Except String Unit
  | [] => .ok ()
  | .node cs :: r =>
    if sameKeys keys0 (cs.map (·.1)) then checkNodes keys0 r else .error "ValueError: key inhomogeneity"
  | .val _ :: _ => .error "ValueError: type inhomogeneity"
  | .scale _ :: _ => .error "ValueError: type inhomogeneity"

/-- the loop over the other nodes when the first one is a number -/
def checkNums (num : V → Option W) : List (Snap V) → Except String Unit
  | [] => .ok ()
  | .val v :: r => if (num v).isSome then checkNums num r else .error "NotImplementedError"
  | .node _ :: _ => .error "ValueError: type inhomogeneity"
  | .scale _ :: _ => .error "NotImplementedError"

/-- `first_node._children.keys()` -/
def snapKeys : Snap V → List String
  | .node cs => cs.map (·.1)
  | .val _ => []
  | .scale _ => []

/-- `check_nodes_homogeneous(named_nodes)`: level by level, all the nodes of a level must be of one
    kind and, if nodes, carry the same key set; their children are pooled for the next level -/
def homog (num : V → Option W) (l : List (Snap V)) : Except String Unit :=
  match l with
  | [] => .error "IndexError"
  | .node cs :: rest =>
    match checkNodes (snapKeys (.node cs)) rest with
    | .error e => .error e
    | .ok () => homog num (pool (.node cs :: rest))
  | .val v :: rest => if (num v).isSome then checkNums num rest else .error "NotImplementedError"
  | .scale _ :: _ => .error "NotImplementedError"
termination_by totalSize l
decreasing_by exact totalSize_pool_lt _ _

/-- `build_from_node(node)`: `check_node_vectorisable`, then the record -/
def buildVec (lt : String → String → Bool) (num : V → Option W) : Snap V → Except String (VRow W)
  | .node cs =>
    match homog num (cs.map (·.2)) with
    | .error e => .error e
    | .ok () => vectorise lt num (.node cs)
  | .val _ => .error "TypeError"
  | .scale _ => .error "TypeError"

/-- `vector[name]` on one row -/
def fieldOf (k : String) : VRow W → Option (VRow W)
  | .record fs => assoc k fs
  | .leaf _ => none

/-- numpy broadcasting of the rows against the key vector -/
def broadcast (rows : List α) (ks : List β) : Option (List (α × β)) :=
  if rows.length = ks.length then some (rows.zip ks)
  else match rows, ks with
    | [r], _ => some (ks.map (fun k => (r, k)))
    | _, [k] => some (rows.map (fun r => (r, k)))
    | _, _ => none

/-- `numpy.select(conditions, values, default=nan)` row by row; `none` = a NaN came out -/
def pickAll : List (VRow W × String) → Option (List (VRow W))
  | [] => some []
  | (r, k) :: ps =>
    match fieldOf k r, pickAll ps with
    | some x, some xs => some (x :: xs)
    | _, _ => none

/-- `VectorialParameterNodeAtInstant.__getitem__(key)` for an (already stringified) key vector -/
def vindex (rows : List (VRow W)) (ks : List String) : Except String (List (VRow W)) :=
  match ks, rows with
  | [], _ => .error "IndexError"                       -- `key[0]`
  | _ :: _, [] => .error "IndexError"
  | k0 :: _, r0 :: _ =>
    if (fieldOf k0 r0).isNone then .error "ValueError: no field"   -- `self.vector[key[0]]`
    else match broadcast rows ks with
      | none => .error "ValueError: broadcast"
      | some ps =>
        match pickAll ps with
        | none => .error "ParameterNotFoundError"
        | some out => .ok out

/-- `VectorialParameterNodeAtInstant.__getattr__(name)` / `[name]` (the F-C07b repair: the result is
    wrapped again with the node's name and instant) -/
def vfield (rows : List (VRow W)) (k : String) : Except String (List (VRow W)) :=
  match rows with
  | [] => .ok []
  | r :: rest =>
    match fieldOf k r, vfield rest k with
    | some x, .ok xs => .ok (x :: xs)
    | none, _ => .error "AttributeError"
    | _, .error e => .error e

/-- the key vectors the code accepts -/
inductive KeyVec where
  | names (ks : List String)                          -- a string array
  | members (enumNames : List String) (is : List Nat) -- an object array of `Enum` members
  | codes (enumNames : List String) (is : List Nat)   -- an `EnumArray`
  | ints (is : List Int)                              -- anything else: `key.astype("str")`

/-- the stringification at the top of `__getitem__` (`numpy.select` defaults to `0`) -/
def KeyVec.strs : KeyVec → List String
  | .names ks => ks
  | .members ns is => is.map (fun i => ns.getD i "0")
  | .codes ns is => is.map (fun i => ns.getD i "0")
  | .ints is => is.map (fun i => toString i)

/-- `node_at_instant[keys]` -/
def fancy (num : V → Option W) (s : Snap V) (ks : List String) : Except String (List (VRow W)) :=
  match buildVec plainLt num s with
  | .error e => .error e
  | .ok row => vindex [row] ks

/-- is the result a plain float array (else a record array, wrapped again in a vectorial node) -/
def leafRows : List (VRow W) → Bool
  | .leaf _ :: _ => true
  | .record _ :: _ => false
  | [] => false

/-- what can follow a vector index -/
inductive VStep where
  | field (k : String)
  | index (ks : List String)
  | dates (ds : List Int)       -- a `datetime64` vector (chained as-of-date indexing)

/-! ## As-of-date nodes -/

def digitsVal (cs : List Char) : Option Nat :=
  if cs.all Char.isDigit then some (cs.foldl (fun n c => n * 10 + (c.toNat - '0'.toNat)) 0) else none

def splitUnderscore : List Char → List (List Char)
  | [] => [[]]
  | c :: cs =>
    if c = '_' then [] :: splitUnderscore cs
    else match splitUnderscore cs with
      | [] => [[c]]
      | w :: ws => (c :: w) :: ws

/-- `numpy.datetime64("-".join(name[len("after_"):].split("_")))` for the canonical spelling
    `after_YYYY_MM_DD` (the six leading characters are dropped whatever they are); `none` for
    anything else (numpy raises, or builds a month/year/`NaT` value: outside the claim domain) -/
def parseAfter (name : String) : Option Int :=
  match splitUnderscore (name.toList.drop 6) with
  | [y, m, d] =>
    if y.length = 4 ∧ m.length = 2 ∧ d.length = 2 then
      match digitsVal y, digitsVal m, digitsVal d with
      | some y, some m, some d =>
        let c : Date := ⟨y, m, d⟩
        if c.Valid then some (ord c) else none
      | _, _, _ => none
    else none
  | _ => none

/-- the dates of the fields that are not `before…`, in field order -/
def afterDates : List String → Option (List Int)
  | [] => some []
  | n :: r =>
    if isBefore n then afterDates r
    else match parseAfter n, afterDates r with
      | some d, some ds => some (d :: ds)
      | _, _ => none

/-- `sum([name <= key for name in names])` for one key -/
def countLE : List Int → Int → Nat
  | [], _ => 0
  | d :: r, t => (if d ≤ t then 1 else 0) + countLE r t

/-- `values[conditions]` -/
def asofPick (vals : List (VRow W)) (ads : List Int) : List Int → Except String (List (VRow W))
  | [] => .ok []
  | t :: r =>
    match vals[countLE ads t]?, asofPick vals ads r with
    | some x, .ok xs => .ok (x :: xs)
    | none, _ => .error "IndexError"
    | _, .error e => .error e

/-- `VectorialAsofDateParameterNodeAtInstant.__getitem__(dates)` on the one-row vector built from
    the node -/
def asofIndex : VRow W → List Int → Except String (List (VRow W))
  | .leaf _, _ => .error "TypeError"
  | .record fs, dates =>
    match afterDates (fs.map (·.1)) with
    | none => .error "ValueError: datetime"
    | some [] => .error "0-d result"                   -- `sum([])` is the integer 0: a scalar comes out
    | some (a :: ads) => asofPick (fs.map (·.2)) (a :: ads) dates

/-- one element of a date index: in the row `r`, the field number `#{after_ dates ≤ t}` -/
def asofOne : VRow W → Int → Except String (VRow W)
  | .leaf _, _ => .error "TypeError"
  | .record fs, t =>
    match afterDates (fs.map (·.1)) with
    | none => .error "ValueError: datetime"
    | some ads =>
      match (fs.map (·.2))[countLE ads t]? with
      | some x => .ok x
      | none => .error "IndexError"

def asofPairs : List (VRow W × Int) → Except String (List (VRow W))
  | [] => .ok []
  | (r, t) :: ps =>
    match asofOne r t, asofPairs ps with
    | .ok x, .ok xs => .ok (x :: xs)
    | .error e, _ => .error e
    | _, .error e => .error e

/-- `VectorialAsofDateParameterNodeAtInstant.__getitem__(dates)` on a vector of SEVERAL rows (what a previous
    date index returned; the F-C07d repair): `values[conditions, rows]` — row `i` with date `i`, numpy
    broadcasting a single row or a single date against the other -/
def asofRows (rows : List (VRow W)) (ds : List Int) : Except String (List (VRow W)) :=
  match broadcast rows ds with
  | none => .error "IndexError: shape mismatch"
  | some ps => asofPairs ps

/-- One step on a vectorial node. `cls = false`: a `VectorialParameterNodeAtInstant` (what a key vector
    returns); `cls = true`: a `VectorialAsofDateParameterNodeAtInstant` (what a date vector returns).
    Attribute access is the same for both (`__getattr__`, the F-C07b repair). A key vector on the as-of
    class fails its `assert`; a date vector on the plain class is stringified and names no field. A date
    vector on the as-of class: the one-row case is `asofIndex` (the vector `build_from_node` makes), several
    rows are indexed row by row (`asofRows`). -/
def vstep (cls : Bool) (rows : List (VRow W)) : VStep → Except String (List (VRow W))
  | .field k => if leafRows rows then .error "AttributeError" else vfield rows k
  | .index ks =>
    if leafRows rows then .error "IndexError"
    else if cls then .error "AssertionError" else vindex rows ks
  | .dates ds =>
    if leafRows rows then .error "IndexError"
    else if cls then
      match rows with
      | [r0] => asofIndex r0 ds
      | [] => .error "IndexError"
      | r0 :: r1 :: rest => asofRows (r0 :: r1 :: rest) ds
    else .error "ValueError: no field"

def vsteps (cls : Bool) (rows : List (VRow W)) : List VStep → Except String (List (VRow W))
  | [] => .ok rows
  | st :: r =>
    match vstep cls rows st with
    | .ok rows' => vsteps cls rows' r
    | .error e => .error e

/-- the tracing wrapper around a vectorial node: a record array is wrapped again, a float array is
    recorded under the NODE's name and returned bare -/
def tracedVec (cls : Bool) (d : Int) (name : String) (rows : List (VRow W)) (steps : List VStep)
    (log : List (LogEntry (List (VRow W)))) :
    Except String (List (VRow W)) × List (LogEntry (List (VRow W))) :=
  if leafRows rows then (vsteps cls rows steps, log ++ [⟨name, d, rows⟩])
  else match steps with
    | [] => (.ok rows, log)
    | st :: r =>
      match vstep cls rows st with
      | .ok rows' => tracedVec cls d name rows' r log
      | .error e => (.error e, log)

/-- `node_at_instant[dates]` for a `datetime64` vector -/
def asof (num : V → Option W) (s : Snap V) (dates : List Int) : Except String (List (VRow W)) :=
  match buildVec asofLt num s with
  | .error e => .error e
  | .ok row => asofIndex row dates

/-! ## Specification vocabulary (used by the theorems of `Props/C07.lean`) -/

mutual
/-- the float values of a row, in field order (to display concrete results) -/
def rowLeaves : VRow W → List W
  | .leaf w => [w]
  | .record fs => fieldLeaves fs
def fieldLeaves : List (String × VRow W) → List W
  | [] => []
  | (_, r) :: t => rowLeaves r ++ fieldLeaves t
end

/-- the rows of a successful vector read, flattened; `none` when it raised -/
def shownRows (r : Except String (List (VRow W))) : Option (List (List W)) :=
  match r with
  | .ok rows => some (rows.map rowLeaves)
  | .error _ => none

/-- the date an `after_…` name stands for (0 when it does not parse) -/
def dateOf (n : String) : Int := (parseAfter n).getD 0

/-- Claim domain of as-of-date indexing, on the child names of the group: distinct names (a `dict`),
    exactly one `before…` child and at least one other child, every other name parses as
    `after_YYYY_MM_DD`, distinct dates, and the names order (as strings, which is how the code sorts
    them) like their dates — true of the zero-padded spelling. -/
def AsofWF (names : List String) : Prop :=
  names.Nodup ∧ (names.filter isBefore).length = 1 ∧ 2 ≤ names.length ∧
  (∀ a ∈ names, isBefore a = false → (parseAfter a).isSome = true) ∧
  (∀ a ∈ names, ∀ b ∈ names, isBefore a = false → isBefore b = false → dateOf a < dateOf b → a < b) ∧
  (∀ a ∈ names, ∀ b ∈ names, isBefore a = false → isBefore b = false → dateOf a = dateOf b → a = b)

instance (names : List String) : Decidable (AsofWF names) := by unfold AsofWF; infer_instance

/-- child `k` is the one in force at date `t`: the `before…` child when `t` precedes every `after_`
    date, else the `after_` child with the greatest date `≤ t` -/
def InForce (names : List String) (t : Int) (k : String) : Prop :=
  k ∈ names ∧
  ((isBefore k = true ∧ ∀ a ∈ names, isBefore a = false → t < dateOf a) ∨
   (isBefore k = false ∧ dateOf k ≤ t ∧ ∀ a ∈ names, isBefore a = false → dateOf a ≤ t → dateOf a ≤ dateOf k))

end OFCore.PView
