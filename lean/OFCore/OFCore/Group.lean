/-!
# Group populations (import-free)

Transcription of `openfisca_core/populations/{group_population,population}.py` and
`openfisca_core/projectors/*.py` (repaired tree: both role-less `numpy.bincount` calls carry
`minlength=self.count`).

A population is a list of persons in storage order, each with the index of its group
(`members_entity_id`) and the flattened role it holds (`members_role`), plus the number `n` of
groups of the simulation (`GroupPopulation.count`).  Groups may have no member at all, the last
ones included.  numpy arrays are lists; the numpy primitives the code uses (`bincount`,
boolean-mask read and write, integer-array indexing, `where`, `argsort`) are transcribed as list
functions.  Values are exact: `Int`, `Bool`, and `EInt` (integers extended with the `±inf` that
`min`/`max`/`get_rank` use as neutral elements).  Every method that can raise returns
`Except String _`.
-/
namespace OFCore.Grp

/-! ## Roles, members, populations -/

/-- `entities.Role`. `id` is the index of the role among the flattened roles when it has no
sub-role (a role with sub-roles is never held directly; it gets an id no member carries). -/
structure Role where
  id : Nat
  subs : List Nat
  max : Option Nat
deriving Repr, DecidableEq, Inhabited

structure Member where
  group : Nat
  role : Nat
deriving Repr, DecidableEq, Inhabited

structure Pop where
  /-- `GroupPopulation.count` -/
  n : Nat
  /-- the persons, in storage order -/
  ms : List Member
deriving Repr

/-- `members_entity_id` -/
def Pop.ids (p : Pop) : List Nat := p.ms.map (·.group)

/-- `Population.has_role(role)` for one person: `members_role == role`, or the `logical_or` over
the sub-roles when the role has some. -/
def Role.holds (r : Role) (m : Member) : Bool :=
  if r.subs.isEmpty then m.role == r.id else r.subs.any (· == m.role)

def Pop.hasRole (p : Pop) (r : Role) : List Bool := p.ms.map r.holds

/-! ## Extended integers -/

inductive EInt | negInf | fin (v : Int) | posInf
deriving DecidableEq, Repr, Inhabited

def EInt.le : EInt → EInt → Bool
  | .negInf, _ => true
  | _, .posInf => true
  | .fin a, .fin b => decide (a ≤ b)
  | _, _ => false

/-- `numpy.minimum` -/
def EInt.min (a b : EInt) : EInt := if a.le b then a else b
/-- `numpy.maximum` -/
def EInt.max (a b : EInt) : EInt := if a.le b then b else a

def b2i (b : Bool) : Int := if b then 1 else 0

/-! ## numpy primitives -/

def maxL (l : List Nat) : Nat := l.foldl Nat.max 0

/-- `array[index_array]` -/
def takeD {α} (a : List α) (idx : List Nat) (d : α) : List α := idx.map (fun i => a.getD i d)

/-- `array[bool_mask]` -/
def maskSel {α} : List Bool → List α → List α
  | b :: bs, x :: xs => if b then x :: maskSel bs xs else maskSel bs xs
  | _, _ => []

/-- `numpy.where(cond, array, scalar)` -/
def whereL {α} (c : List Bool) (a : List α) (d : α) : List α :=
  List.zipWith (fun b x => if b then x else d) c a

/-- length of `numpy.bincount(ids, minlength=m)`: `max(m, max(ids)+1)` -/
def bcLen (ids : List Nat) (m : Nat) : Nat := ids.foldl (fun acc g => Nat.max acc (g + 1)) m

def bcLoop : List Int → List Nat → List Int → List Int
  | acc, g :: gs, x :: xs => bcLoop (acc.set g (acc.getD g 0 + x)) gs xs
  | acc, _, _ => acc

/-- `numpy.bincount(ids, weights=w, minlength=m)` -/
def bincountW (ids : List Nat) (w : List Int) (m : Nat) : List Int :=
  bcLoop (List.replicate (bcLen ids m) 0) ids w

/-- `numpy.bincount(ids, minlength=m)` -/
def bincount (ids : List Nat) (m : Nat) : List Int := bincountW ids (ids.map fun _ => 1) m

/-- sequential write of `vals` at the `True` places of `mask` -/
def assignSeq {α} : List α → List Bool → List α → List α
  | r :: rs, b :: ms, vs =>
    if b then
      match vs with
      | v :: vs' => v :: assignSeq rs ms vs'
      | [] => r :: assignSeq rs ms []
    else r :: assignSeq rs ms vs
  | rs, _, _ => rs

/-- `result[mask] = vals` (1-d): the mask must have the length of `result`; `vals` must have as
many elements as the mask has `True` (or exactly one element, which numpy broadcasts). -/
def maskedAssign {α} (res : List α) (mask : List Bool) (vals : List α) : Except String (List α) :=
  if mask.length ≠ res.length then .error "IndexError: boolean index did not match"
  else if mask.count true = vals.length then .ok (assignSeq res mask vals)
  else match vals with
    | [v] => .ok (List.zipWith (fun r b => if b then v else r) res mask)
    | _ => .error "ValueError: cannot assign input values to the output values"

/-- stable insertion of index `i` in a list of indices sorted by `le` -/
def insertBy (le : Nat → Nat → Bool) (i : Nat) : List Nat → List Nat
  | [] => [i]
  | j :: l => if le i j then i :: j :: l else j :: insertBy le i l

def isort (le : Nat → Nat → Bool) : List Nat → List Nat
  | [] => []
  | i :: is => insertBy le i (isort le is)

/-- `numpy.argsort` of a list of naturals (modelled as a stable sort) -/
def argsortN (v : List Nat) : List Nat :=
  isort (fun i j => decide (v.getD i 0 ≤ v.getD j 0)) (List.range v.length)

/-- `numpy.argsort` of a list of extended integers (modelled as a stable sort) -/
def argsortE (v : List EInt) : List Nat :=
  isort (fun i j => (v.getD i .posInf).le (v.getD j .posInf)) (List.range v.length)

/-! ## Membership structure -/

/-- the counter loop of `GroupPopulation.members_position` -/
def posLoop : List Nat → List Nat → List Nat
  | _, [] => []
  | cnt, g :: gs => cnt.getD g 0 :: posLoop (cnt.set g (cnt.getD g 0 + 1)) gs

/-- `GroupPopulation.members_position` (`numpy.max` of an empty array raises) -/
def membersPosition (ids : List Nat) : Except String (List Nat) :=
  if ids.isEmpty then .error "ValueError: zero-size array to reduction operation maximum"
  else .ok (posLoop (List.replicate (maxL ids + 1) 0) ids)

/-- `GroupPopulation.ordered_members_map`. `numpy.argsort` is not a stable sort; the model uses a
stable one and `C10_members_map_irrelevant` shows that `value_nth_person` / `value_from_person`
give the same result with any other permutation that sorts the persons by group. -/
def orderedMap (ids : List Nat) : List Nat := argsortN ids

/-! ## Aggregations persons -> group -/

/-- `GroupPopulation.sum` -/
def groupSum (p : Pop) (a : List Int) (role : Option Role) : Except String (List Int) :=
  if a.length ≠ p.ms.length then .error "InvalidArraySizeError" else
  match role with
  | some r => .ok (bincountW (maskSel (p.hasRole r) p.ids) (maskSel (p.hasRole r) a) p.n)
  | none => .ok (bincountW p.ids a p.n)

/-- `sum(...) > 0` on an integer array (what `any` computes) -/
def groupAnyI (p : Pop) (a : List Int) (role : Option Role) : Except String (List Bool) :=
  match groupSum p a role with
  | .error e => .error e
  | .ok s => .ok (s.map fun x => decide (0 < x))

/-- `GroupPopulation.any` -/
def groupAny (p : Pop) (a : List Bool) (role : Option Role) : Except String (List Bool) :=
  groupAnyI p (a.map b2i) role

/-- `GroupPopulation.nb_persons` -/
def nbPersons (p : Pop) (role : Option Role) : Except String (List Int) :=
  match role with
  | some r => groupSum p ((p.hasRole r).map b2i) none
  | none => .ok (bincount p.ids p.n)

/-- body of `GroupPopulation.value_nth_person(n, array, default)`, the member positions `pos`
(`members_position`, computed by the counter loop or explicitly assigned through the setter) and
the members map being given -/
def valueNthCore {α} (p : Pop) (pos mp : List Nat) (k : Nat) (a : List α) (d : α) :
    Except String (List α) :=
  if a.length ≠ p.ms.length then .error "InvalidArraySizeError" else
  if pos.length < p.ms.length then .error "IndexError: index out of bounds" else
  let nb := bincount p.ids p.n
  maskedAssign (List.replicate p.n d) (nb.map fun c => decide ((k : Int) < c))
    (maskSel ((takeD pos mp 0).map (· == k)) (takeD a mp d))

/-- `GroupPopulation.value_nth_person(n, array, default)`, the members map being given -/
def valueNthWith {α} (p : Pop) (mp : List Nat) (k : Nat) (a : List α) (d : α) :
    Except String (List α) :=
  if a.length ≠ p.ms.length then .error "InvalidArraySizeError" else
  match membersPosition p.ids with
  | .error e => .error e
  | .ok pos => valueNthCore p pos mp k a d

/-- `value_nth_person` after `members_position` has been assigned (`population.members_position =
…`, as `simulation_dumper.restore_entity` does) -/
def valueNthAssigned {α} (p : Pop) (pos : List Nat) (k : Nat) (a : List α) (d : α) :
    Except String (List α) :=
  valueNthCore p pos (orderedMap p.ids) k a d

/-- `GroupPopulation.value_nth_person(n, array, default)` -/
def valueNth {α} (p : Pop) (k : Nat) (a : List α) (d : α) : Except String (List α) :=
  valueNthWith p (orderedMap p.ids) k a d

/-- `GroupPopulation.value_from_first_person` -/
def valueFromFirst {α} (p : Pop) (a : List α) (zero : α) : Except String (List α) :=
  valueNth p 0 a zero

/-- the loop `for p in range(m): result = reducer(result, value_nth_person(p, ...))` -/
def reduceUpTo {α} (p : Pop) (f : List α) (op : α → α → α) (e : α) : Nat → Except String (List α)
  | 0 => .ok (List.replicate p.n e)
  | m + 1 =>
    match reduceUpTo p f op e m with
    | .error x => .error x
    | .ok res =>
      match valueNth p m f e with
      | .error x => .error x
      | .ok v => .ok (List.zipWith op res v)

/-- `GroupPopulation.reduce(array, reducer, neutral_element, role)` -/
def reduce {α} (p : Pop) (a : List α) (op : α → α → α) (e : α) (role : Option Role) :
    Except String (List α) :=
  if a.length ≠ p.ms.length then .error "InvalidArraySizeError" else
  match membersPosition p.ids with
  | .error x => .error x
  | .ok pos =>
    let filtered := match role with
      | some r => whereL (p.hasRole r) a e
      | none => a
    reduceUpTo p filtered op e (maxL pos + 1)

/-- `GroupPopulation.all` -/
def groupAll (p : Pop) (a : List Bool) (role : Option Role) : Except String (List Bool) :=
  reduce p a (fun x y => x && y) true role

/-- `GroupPopulation.min` (`neutral_element = +inf`) -/
def groupMin (p : Pop) (a : List Int) (role : Option Role) : Except String (List EInt) :=
  reduce p (a.map .fin) EInt.min .posInf role

/-- `GroupPopulation.max` (`neutral_element = -inf`) -/
def groupMax (p : Pop) (a : List Int) (role : Option Role) : Except String (List EInt) :=
  reduce p (a.map .fin) EInt.max .negInf role

/-- `GroupPopulation.value_from_person(array, role, default)`, the members map being given -/
def valueFromPersonWith {α} (p : Pop) (mp : List Nat) (a : List α) (r : Role) (d : α) :
    Except String (List α) :=
  if r.max ≠ some 1 then .error "role is not unique" else
  if a.length ≠ p.ms.length then .error "InvalidArraySizeError" else
  match groupAny p (p.hasRole r) none with
  | .error x => .error x
  | .ok ef =>
    maskedAssign (List.replicate p.n d) ef (maskSel (takeD (p.hasRole r) mp false) (takeD a mp d))

/-- `GroupPopulation.value_from_person(array, role, default)` -/
def valueFromPerson {α} (p : Pop) (a : List α) (r : Role) (d : α) : Except String (List α) :=
  valueFromPersonWith p (orderedMap p.ids) a r d

/-! ## Projection group -> persons -/

/-- `GroupPopulation.project(array, role)`; `zero` is the `0` of `numpy.where(cond, ..., 0)` -/
def project {α} (p : Pop) (x : List α) (zero : α) (role : Option Role) : Except String (List α) :=
  if x.length ≠ p.n then .error "InvalidArraySizeError" else
  if p.ids.any (fun g => decide (x.length ≤ g)) then .error "IndexError: index out of bounds" else
  match role with
  | none => .ok (takeD x p.ids zero)
  | some r => .ok (whereL (p.hasRole r) (takeD x p.ids zero) zero)

/-! ## Partner -/

/-- `numpy.select([c1, c2], [x1, x2])` (default 0) over the persons -/
def select2 {α} (ms : List Member) (c1 c2 : Member → Bool) (x1 x2 : List α) (zero : α) : List α :=
  (ms.zip (x1.zip x2)).map fun mx =>
    if c1 mx.1 then mx.2.1 else if c2 mx.1 then mx.2.2 else zero

/-- `Population.value_from_partner(array, entity, role)` with `entity` the projector
`person.<group entity>`: each holder of one of the two sub-roles of `role` receives the value of
the holder of the other one in its group -/
def valueFromPartner {α} (p : Pop) (a : List α) (role : Role) (zero : α) : Except String (List α) :=
  if a.length ≠ p.ms.length then .error "InvalidArraySizeError" else
  match role.subs with
  | [s1, s2] =>
    let r1 : Role := ⟨s1, [], some 1⟩
    let r2 : Role := ⟨s2, [], some 1⟩
    match valueFromPerson p a r1 zero with
    | .error e => .error e
    | .ok g1 =>
      match project p g1 zero none with
      | .error e => .error e
      | .ok v1 =>
        match valueFromPerson p a r2 zero with
        | .error e => .error e
        | .ok g2 =>
          match project p g2 zero none with
          | .error e => .error e
          | .ok v2 => .ok (select2 p.ms r1.holds r2.holds v2 v1 zero)
  | _ => .error "Projection to partner is only implemented for roles having exactly two subroles."

/-! ## Ranks -/

/-- the list comprehension `[value_nth_person(k, filtered, default=inf) for k in range(m)]` -/
def rankCols (p : Pop) (f : List EInt) : Nat → Except String (List (List EInt))
  | 0 => .ok []
  | m + 1 =>
    match rankCols p f m with
    | .error x => .error x
    | .ok cs =>
      match valueNth p m f .posInf with
      | .error x => .error x
      | .ok c => .ok (cs ++ [c])

/-- row `g` of the transposed matrix -/
def rankRow (cols : List (List EInt)) (g : Nat) : List EInt := cols.map (fun c => c.getD g .posInf)

/-- `Population.get_rank(entity, criteria, condition)`, the inner `numpy.argsort` of the rows being
given (`sort1`); the outer one sorts a permutation, which has no ties -/
def getRankWith (sort1 : List EInt → List Nat) (p : Pop) (crit : List Int) (cond : List Bool) :
    Except String (List Int) :=
  match membersPosition p.ids with
  | .error x => .error x
  | .ok pos =>
    if cond.length ≠ crit.length then .error "ValueError: operands could not be broadcast" else
    let filtered := whereL cond (crit.map .fin) .posInf
    match rankCols p filtered (maxL pos + 1) with
    | .error x => .error x
    | .ok cols =>
      let sorted := (List.range p.n).map (fun g => argsortN (sort1 (rankRow cols g)))
      let result := (p.ids.zip pos).map (fun gk => ((sorted.getD gk.1 []).getD gk.2 0 : Nat))
      .ok (whereL cond (result.map Int.ofNat) (-1))

/-- `Population.get_rank(entity, criteria, condition)`. `numpy.argsort` is not stable and every
row has ties (the `inf` paddings); the model sorts stably and `C10_rank_ties_irrelevant` shows that
with distinct criteria any other sorting permutation gives the same ranks. -/
def getRank (p : Pop) (crit : List Int) (cond : List Bool) : Except String (List Int) :=
  getRankWith argsortE p crit cond

/-- `get_rank` computed on a position matrix with `extra` more columns than the biggest group has
members (`biggest_entity_size = numpy.max(positions) + 1 + extra`): the added columns only hold the
`inf` padding.  `C10_rank_width_irrelevant`: the ranks are the same — the `+ 1` of the code is the
least width that works, nothing depends on its being exact. -/
def getRankWide (extra : Nat) (p : Pop) (crit : List Int) (cond : List Bool) : Except String (List Int) :=
  match membersPosition p.ids with
  | .error x => .error x
  | .ok pos =>
    if cond.length ≠ crit.length then .error "ValueError: operands could not be broadcast" else
    let filtered := whereL cond (crit.map .fin) .posInf
    match rankCols p filtered (maxL pos + 1 + extra) with
    | .error x => .error x
    | .ok cols =>
      let sorted := (List.range p.n).map (fun g => argsortN (argsortE (rankRow cols g)))
      let result := (p.ids.zip pos).map (fun gk => ((sorted.getD gk.1 []).getD gk.2 0 : Nat))
      .ok (whereL cond (result.map Int.ofNat) (-1))

/-! ## Projectors -/

/-- the group populations of a simulation (all over the same persons), and for each group entity
the indices of the entities it declares in `containing_entities` -/
structure World where
  pops : List Pop
  containing : Nat → List Nat

def World.pop (w : World) (e : Nat) : Pop := w.pops.getD e ⟨0, []⟩

/-- a simulation with one group entity -/
def World.single (p : Pop) : World := ⟨[p], fun _ => []⟩

inductive Level | person | group (e : Nat)
deriving DecidableEq, Repr

/-- the attribute used on a population / projector: the key of group entity `e`, `first_person`,
the key of a role (of the entity at hand), `members` (the persons population a group population
holds: a plain attribute, not a projector), or anything else -/
inductive Shortcut | entity (e : Nat) | firstPerson | role (r : Role) | members | other
deriving Repr

inductive Proj | toPerson (e : Nat) | firstPerson (e : Nat) | uniqueRole (e : Nat) (r : Role)
deriving Repr

/-- `projectors.get_projector_from_shortcut`: the projector(s) the attribute resolves to and the
level of the reference entity (`None` ⇒ `AttributeError`).  `find_role(..., total=1)` only finds
roles with `max == 1`.  The key of an entity listed in `containing_entities` resolves to
`first_person.<that entity>`: two projectors. -/
def resolve (w : World) : Level → Shortcut → Option (List Proj × Level)
  | .person, .entity e => if e < w.pops.length then some ([.toPerson e], .group e) else none
  | .group e, .firstPerson => some ([.firstPerson e], .person)
  | .group e, .role r => if r.max = some 1 then some ([.uniqueRole e r], .person) else none
  | .group e, .entity e' =>
    if (w.containing e).contains e' && decide (e' < w.pops.length) then
      some ([.firstPerson e, .toPerson e'], .group e')
    else none
  | _, _ => none

/-- attribute chain `population.s1.s2…` continued from the projectors `acc` (outermost first):
projectors and the level on which the final method is called.  `members` on a group population
(or on a projector whose reference entity is one: `Projector.__getattr__` finds no projector
and hands the attribute of the reference entity back as it is, since a population has no
`projectable` mark) is the persons population itself: the projectors met so far are dropped.
On the persons population `members` is no attribute. -/
def resolveAcc (w : World) : List Proj → Level → List Shortcut → Except String (List Proj × Level)
  | acc, lvl, [] => .ok (acc, lvl)
  | acc, lvl, s :: ss =>
    match s, lvl with
    | .members, .group _ => resolveAcc w [] .person ss
    | .members, .person => .error "AttributeError"
    | .entity _, _ | .firstPerson, _ | .role _, _ | .other, _ =>
      match resolve w lvl s with
      | none => .error "AttributeError"
      | some (prs, lvl') => resolveAcc w (acc ++ prs) lvl' ss

/-- attribute chain `population.s1.s2…`: projectors, outermost first, and the level on which the
final method is called -/
def resolveChain (w : World) (lvl : Level) (ss : List Shortcut) : Except String (List Proj × Level) :=
  resolveAcc w [] lvl ss

/-- `Projector.transform` -/
def transform {α} (w : World) (zero : α) : Proj → List α → Except String (List α)
  | .toPerson e, x => project (w.pop e) x zero none
  | .firstPerson e, x => valueFromFirst (w.pop e) x zero
  | .uniqueRole e r, x => valueFromPerson (w.pop e) x r zero

/-- `Projector.transform_and_bubble_up`: the list is the projector followed by its parents -/
def bubbleUp {α} (w : World) (zero : α) : List Proj → List α → Except String (List α)
  | [], x => .ok x
  | pr :: parents, x =>
    match transform w zero pr x with
    | .error e => .error e
    | .ok y => bubbleUp w zero parents y

/-- `population.s1.….sk.method(args)`: resolve the chain, call the method on the innermost
reference entity and, when the method is `projectable`, transform the result through the
projectors from the innermost to the outermost (`Projector.__getattr__` returns the attributes
that are not projectable — `project`, `count`, … — as they are). -/
def chainCall {α} (w : World) (zero : α) (start : Level) (ss : List Shortcut) (projectable : Bool)
    (method : Level → Except String (List α)) : Except String (List α) :=
  match resolveChain w start ss with
  | .error e => .error e
  | .ok (ps, lvl) =>
    match method lvl with
    | .error e => .error e
    | .ok r => if projectable then bubbleUp w zero ps.reverse r else .ok r

/-! ## Specification vocabulary (what "the members of group g" means) -/

/-- does a member pass the optional role filter -/
def roleOk (role : Option Role) (m : Member) : Bool :=
  match role with
  | none => true
  | some r => r.holds m

/-- the values of `a` carried by exactly the members of group `g` (holding `role`, if given), in
storage order: a filter on the membership list -/
def valuesOf {α} (p : Pop) (role : Option Role) (g : Nat) (a : List α) : List α :=
  ((p.ms.zip a).filter (fun ma => ma.1.group == g && roleOk role ma.1)).map (·.2)

/-- the persons of group `g`, by index, in storage order -/
def membersOf (p : Pop) (g : Nat) : List Nat :=
  (List.range p.ms.length).filter fun i => (p.ms.getD i default).group == g

/-- assigned `members_position`: one position per person, and within every group the positions
are `0 .. size-1` in some order -/
def ValidPositions (p : Pop) (pos : List Nat) : Prop :=
  pos.length = p.ms.length ∧
  ∀ g, ((membersOf p g).map fun i => pos.getD i 0).Perm (List.range (membersOf p g).length)

/-- the persons of group `g` that satisfy the condition, by index, in storage order -/
def rankedIn (p : Pop) (cond : List Bool) (g : Nat) : List Nat :=
  (List.range p.ms.length).filter fun i => (p.ms.getD i default).group == g && cond.getD i false

/-- `mp` is a permutation of the person indices that sorts them by group: what
`numpy.argsort(members_entity_id)` returns, whatever the order among the members of one group -/
def SortsByGroup (ids mp : List Nat) : Prop :=
  mp.Perm (List.range ids.length) ∧ mp.Pairwise (fun i j => ids.getD i 0 ≤ ids.getD j 0)

/-- `s` is a permutation of the column indices that sorts the row (any order among equal values) -/
def SortsRow (row : List EInt) (s : List Nat) : Prop :=
  s.Perm (List.range row.length) ∧
  s.Pairwise (fun i j => (row.getD i .posInf).le (row.getD j .posInf) = true)

end OFCore.Grp
