import OFCore.Period
/-!
# Specification vocabulary for periods (import-free)

The *denotation* of a dated period is the closed interval of proleptic ordinals
`[p.lo, p.hi]` (`Period.lo`, `Period.hi` in `Period.lean`): the days from its start through
`size` units later minus one day.
-/
deriving instance DecidableEq for Except

namespace OFCore

/-- a dated period of the claim domain: real unit, valid start date, positive size -/
def Period.WF (p : Period) : Prop := p.unit ≠ .eternity ∧ p.start.Valid ∧ 1 ≤ p.size

instance (p : Period) : Decidable p.WF := by unfold Period.WF; infer_instance

/-- `qs` are consecutive, non-overlapping, non-empty intervals whose union is exactly `[lo, hi]` -/
def Tiles : List Period → Int → Int → Prop
  | [], lo, hi => lo = hi + 1
  | q :: qs, lo, hi => q.lo = lo ∧ q.lo ≤ q.hi ∧ Tiles qs (q.hi + 1) hi

/-- calendar family: day ⊂ month ⊂ year, weekday ⊂ week -/
def DUnit.family : DUnit → Nat
  | .day => 0 | .month => 0 | .year => 0 | .weekday => 1 | .week => 1 | .eternity => 2

/-- rank inside the family -/
def DUnit.rank : DUnit → Nat
  | .day => 0 | .month => 1 | .year => 2 | .weekday => 0 | .week => 1 | .eternity => 3

/-- start aligned to unit `u`: first of month (month), 1 January (year), Monday (week) -/
def AlignedTo (c : Date) : DUnit → Prop
  | .year => c.m = 1 ∧ c.d = 1
  | .month => c.d = 1
  | .week => weekday0 (ord c) = 0
  | _ => True

/-- `c` moved by `k` units (pendulum's rule) -/
def shiftDate (c : Date) (k : Int) : DUnit → Date
  | .year => addMonths c (12 * k)
  | .month => addMonths c k
  | .week => addDays c (7 * k)
  | .day => addDays c k
  | .weekday => addDays c k
  | .eternity => addDays c k

/-- `dss` lists, piece by piece, something related by `R` to each element of `qs` (same length) -/
def Piecewise (R : Period → List Period → Prop) : List Period → List (List Period) → Prop
  | [], [] => True
  | [], _ :: _ => False
  | _ :: _, [] => False
  | q :: qs, ds :: dss => R q ds ∧ Piecewise R qs dss

end OFCore
