/-!
# Calendar model (import-free)

Proleptic Gregorian calendar and ISO-week calendar, written like CPython's
`datetime._ymd2ord` / `_ord2ymd`, plus pendulum's `add(years/months/weeks/days)` rule
(month arithmetic, clip the day to the month's length, then add days).

Python counterparts (modelled, tied by the correspondence check `cal`/`per` lines):
`datetime.date.toordinal/fromordinal/isocalendar/weekday`, `pendulum.Date.add`,
`pendulum.Date.start_of("week")`, `end_of("month")`, `end_of("week")`.
-/
namespace OFCore

def isLeap (y : Int) : Bool := (y % 4 == 0 && y % 100 != 0) || y % 400 == 0

/-- days in month `m` of year `y` -/
def dim (y m : Int) : Int :=
  if m = 2 then (if isLeap y then 29 else 28)
  else if m = 4 ∨ m = 6 ∨ m = 9 ∨ m = 11 then 30 else 31

/-- days before month `m` (1-based) in a year -/
def dbm (leap : Bool) (m : Int) : Int :=
  let base :=
    if m ≤ 1 then 0 else if m = 2 then 31 else if m = 3 then 59 else if m = 4 then 90
    else if m = 5 then 120 else if m = 6 then 151 else if m = 7 then 181 else if m = 8 then 212
    else if m = 9 then 243 else if m = 10 then 273 else if m = 11 then 304 else 334
  if leap && m > 2 then base + 1 else base

/-- days before 1 January of year `y` -/
def dby (y : Int) : Int := 365*(y-1) + (y-1)/4 - (y-1)/100 + (y-1)/400

structure Date where
  y : Int
  m : Int
  d : Int
deriving DecidableEq, Repr, Inhabited

def Date.Valid (c : Date) : Prop := 1 ≤ c.y ∧ 1 ≤ c.m ∧ c.m ≤ 12 ∧ 1 ≤ c.d ∧ c.d ≤ dim c.y c.m

instance (c : Date) : Decidable c.Valid := by unfold Date.Valid; infer_instance

/-- proleptic Gregorian ordinal, `datetime.date.toordinal` -/
def ord (c : Date) : Int := dby c.y + dbm (isLeap c.y) c.m + c.d

/-- month and day from the 0-based day-of-year index -/
def monthDay (leap : Bool) (n : Int) : Int × Int :=
  let f := if leap then 1 else 0
  if n < 31 then (1, n + 1)
  else if n < 59 + f then (2, n - 31 + 1)
  else if n < 90 + f then (3, n - (59 + f) + 1)
  else if n < 120 + f then (4, n - (90 + f) + 1)
  else if n < 151 + f then (5, n - (120 + f) + 1)
  else if n < 181 + f then (6, n - (151 + f) + 1)
  else if n < 212 + f then (7, n - (181 + f) + 1)
  else if n < 243 + f then (8, n - (212 + f) + 1)
  else if n < 273 + f then (9, n - (243 + f) + 1)
  else if n < 304 + f then (10, n - (273 + f) + 1)
  else if n < 334 + f then (11, n - (304 + f) + 1)
  else (12, n - (334 + f) + 1)

/-- `datetime.date.fromordinal` -/
def ofOrd (o : Int) : Date :=
  let n := o - 1
  let n400 := n / 146097; let r1 := n % 146097
  let n100 := r1 / 36524; let r2 := r1 % 36524
  let n4 := r2 / 1461; let r3 := r2 % 1461
  let n1 := r3 / 365; let r4 := r3 % 365
  let y := 400*n400 + 100*n100 + 4*n4 + n1 + 1
  if n1 = 4 ∨ n100 = 4 then ⟨y - 1, 12, 31⟩
  else
    let md := monthDay (isLeap y) r4
    ⟨y, md.1, md.2⟩

/-- lexicographic order on dates (the tuple order of `Instant`) -/
def Date.lt (a b : Date) : Prop :=
  a.y < b.y ∨ (a.y = b.y ∧ (a.m < b.m ∨ (a.m = b.m ∧ a.d < b.d)))
def Date.le (a b : Date) : Prop := a = b ∨ a.lt b
instance (a b : Date) : Decidable (a.lt b) := by unfold Date.lt; infer_instance
instance (a b : Date) : Decidable (a.le b) := by unfold Date.le; infer_instance

/-- Monday = 0 (`datetime.date.weekday`) -/
def weekday0 (o : Int) : Int := (o + 6) % 7

def addDays (c : Date) (n : Int) : Date := ofOrd (ord c + n)

/-- pendulum `add(months=n)`: month arithmetic, day clipped to the month's length -/
def addMonths (c : Date) (n : Int) : Date :=
  let t := c.y * 12 + (c.m - 1) + n
  let y := t / 12
  let m := t % 12 + 1
  ⟨y, m, min c.d (dim y m)⟩

def startOfWeek (c : Date) : Date := ofOrd (ord c - weekday0 (ord c))
def endOfWeek (c : Date) : Date := ofOrd (ord c - weekday0 (ord c) + 6)
def endOfMonth (c : Date) : Date := ⟨c.y, c.m, dim c.y c.m⟩

/-- ordinal of the Monday of ISO week 1 of ISO year `y` -/
def isoWeek1 (y : Int) : Int :=
  let jan4 := ord ⟨y, 1, 4⟩
  jan4 - weekday0 jan4

def isoWeeksIn (y : Int) : Int := (isoWeek1 (y + 1) - isoWeek1 y) / 7

/-- `datetime.date.isocalendar()` : (ISO year, week 1..53, weekday 1..7) -/
def toIso (c : Date) : Int × Int × Int :=
  let o := ord c
  let y := if o < isoWeek1 c.y then c.y - 1 else if isoWeek1 (c.y + 1) ≤ o then c.y + 1 else c.y
  (y, (o - isoWeek1 y) / 7 + 1, weekday0 o + 1)

/-- date of ISO (year, week, weekday) -/
def ofIso (y w d : Int) : Date := ofOrd (isoWeek1 y + (w - 1) * 7 + (d - 1))

end OFCore
