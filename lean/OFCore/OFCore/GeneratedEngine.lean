-- REGENERATED from the tree under test by harness/ofverif/translate.py on every run. Do not edit.
import OFCore.Basic
namespace OFCore.Generated.Engine
open OFCore

/-- `Simulation._check_for_cycle` (openfisca_core/simulations/simulation.py): which exception class is raised (1 = CycleError, 2 = SpiralError, 0 = none); `below` = `self.tracer.stack[:-1]` -/
def checkForCycle {P : Type} [DecidableEq P] (below : List (Nat × P)) (v : Nat) (p : P) (msl : Nat) : Nat :=
  if ((((below.filter (fun k => k.1 == v)).map (fun k => k.2)).contains p)) then 1 else
  if ((decide ((((below.filter (fun k => k.1 == v)).map (fun k => k.2)).length) ≥ msl))) then 2 else
  0

/-- `Variable.get_formula` (openfisca_core/variables/variable.py): the `return None` guards on `self.formulas` / `self.end`, then the first-match scan of the SortedDict's keys; `l` = its items in ascending key order, `o` = the instant, `en` = the `end` attribute -/
def variable_get_formula {F : Type} (l : List (Int × F)) (en : Option Int) (o : Int) : Option F :=
  if l.isEmpty then none else
  if (match en with | some e => decide (o > e) | none => false) then none else
  match l.reverse.find? (fun f => decide (f.1 ≤ o)) with
  | some f => some f.2
  | none => none

/-- `Holder.get_array` (openfisca_core/holders/holder.py): the lookup through the two stores, statement by statement; `m` / `dk` = what the memory / disk store holds for the period, `hasDisk` = truthiness of `_disk_storage` -/
def holder_get_array {V : Type} (m dk : Option V) (hasDisk : Bool) : Option V :=
  if m.isSome then m else
  if hasDisk then dk else
  none

/-- the tail of `Holder._set` (openfisca_core/holders/holder.py): `should_store_on_disk` and the branch that writes; `true` = the value goes to the disk store; `pressure` = `psutil…percent >= max_memory_occupation_pc` -/
def holder_set_to_disk {V : Type} (storable : Bool) (m : Option V) (pressure : Bool) : Bool :=
  (storable && m.isNone && pressure)

/-- `Simulation.purge_cache_of_invalid_values` (openfisca_core/simulations/simulation.py): nothing while the stack is not empty; else every marked (variable, period) is deleted through its holder (`deleteOne`), then the marks are reset (`reset`) -/
def purge_cache_of_invalid_values {S N I : Type} (stack : List N) (inval : List I) (deleteOne : S → I → S) (reset : S → S) (s : S) : S :=
  if (!stack.isEmpty) then s else
  reset (inval.foldl deleteOne s)

/-- `InMemoryStorage.get` (openfisca_core/data_storage/in_memory_storage.py): the key under which the dictionary is touched — the re-bindings of `period` in order; `norm` = `periods.period`, `eternity` = the ETERNITY period, `eternal` = `self.is_eternal` -/
def memory_storage_key_get {K : Type} (norm : K → K) (eternity : K) (eternal : Bool) (p : K) : K :=
  (norm (if eternal then (norm eternity) else p))

/-- `InMemoryStorage.put` (openfisca_core/data_storage/in_memory_storage.py): the key under which the dictionary is touched — the re-bindings of `period` in order; `norm` = `periods.period`, `eternity` = the ETERNITY period, `eternal` = `self.is_eternal` -/
def memory_storage_key_put {K : Type} (norm : K → K) (eternity : K) (eternal : Bool) (p : K) : K :=
  (norm (if eternal then (norm eternity) else p))

/-- `InMemoryStorage.delete` (openfisca_core/data_storage/in_memory_storage.py): the key under which the dictionary is touched — the re-bindings of `period` in order; `norm` = `periods.period`, `eternity` = the ETERNITY period, `eternal` = `self.is_eternal` -/
def memory_storage_key_delete {K : Type} (norm : K → K) (eternity : K) (eternal : Bool) (p : K) : K :=
  (norm (if eternal then (norm eternity) else p))

def translated : List (String × Bool) := [("checkForCycle", true), ("variable_get_formula", true), ("holder_get_array", true), ("holder_set_to_disk", true), ("purge_cache_of_invalid_values", true), ("memory_storage_key_get", true), ("memory_storage_key_put", true), ("memory_storage_key_delete", true)]
end OFCore.Generated.Engine
