-- REGENERATED from the tree under test by harness/ofverif/translate.py on every run. Do not edit.
import OFCore.Basic
namespace OFCore.Generated.Engine
open OFCore

/-- `Simulation._check_for_cycle` (openfisca_core/simulations/simulation.py): which exception class is raised (1 = CycleError, 2 = SpiralError, 0 = none); `below` = `self.tracer.stack[:-1]` -/
def checkForCycle {P : Type} [DecidableEq P] (below : List (Nat × P)) (v : Nat) (p : P) (msl : Nat) : Nat :=
  if ((((below.filter (fun k => k.1 == v)).map (fun k => k.2)).contains p)) then 1 else
  if ((decide ((((below.filter (fun k => k.1 == v)).map (fun k => k.2)).length) ≥ msl))) then 2 else
  0

def translated : List (String × Bool) := [("checkForCycle", true)]
end OFCore.Generated.Engine
