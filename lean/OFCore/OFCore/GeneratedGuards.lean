-- REGENERATED from the tree under test by harness/ofverif/translate.py on every run. Do not edit.
import OFCore.TieBase
namespace OFCore.Generated.Guards
open OFCore

/-- 7 guards of `Simulation._check_period_consistency` (openfisca_core/simulations/simulation.py), first match decides; `true` = raises -/
def checkPeriodConsistency_raises (du pu : DUnit) (sz : Int) : Bool :=
  if ((du == DUnit.eternity)) then false else
  if (((du == DUnit.year)) && ((pu != DUnit.year))) then true else
  if (((du == DUnit.month)) && ((pu != DUnit.month))) then true else
  if (((du == DUnit.week)) && ((pu != DUnit.week))) then true else
  if (((du == DUnit.day)) && ((pu != DUnit.day))) then true else
  if (((du == DUnit.weekday)) && ((pu != DUnit.weekday))) then true else
  if ((sz != (1 : Int))) then true else
  false

/-- 3 guards of `Simulation.calculate_add` (openfisca_core/simulations/simulation.py), first match decides; `true` = raises -/
def calculateAdd_raises (du pu : DUnit) (sz : Int) : Bool :=
  if ((decide ((unitWeight du) > (unitWeight pu)))) then true else
  if ((!((OFCore.Generated.isoformatUnits ++ OFCore.Generated.isocalendarUnits).contains (du).name))) then true else
  if ((!((OFCore.Generated.isoformatUnits ++ OFCore.Generated.isocalendarUnits).contains (pu).name))) then true else
  false

/-- 3 guards of `Simulation.calculate_divide` (openfisca_core/simulations/simulation.py), first match decides; `true` = raises -/
def calculateDivide_raises (du pu : DUnit) (sz : Int) : Bool :=
  if (((decide ((unitWeight du) < (unitWeight pu)))) || ((decide (sz > (1 : Int))))) then true else
  if ((!((OFCore.Generated.isoformatUnits ++ OFCore.Generated.isocalendarUnits).contains (du).name))) then true else
  if (((!((OFCore.Generated.isoformatUnits ++ OFCore.Generated.isocalendarUnits).contains (pu).name))) || ((sz != (1 : Int)))) then true else
  false

/-- the attribute `Simulation.calculate_divide` assigns to `calculation_period` (openfisca_core/simulations/simulation.py) -/
def calculateDivide_period (du : DUnit) : String :=
  if ((du == DUnit.year)) then "this_year" else
  if ((du == DUnit.month)) then "first_month" else
  if ((du == DUnit.day)) then "first_day" else
  if ((du == DUnit.week)) then "first_week" else
  "first_weekday"

/-- the attribute `Simulation.calculate_divide` assigns to `denominator` (openfisca_core/simulations/simulation.py) -/
def calculateDivide_denominator (pu : DUnit) : String :=
  if ((pu == DUnit.year)) then "size_in_years" else
  if ((pu == DUnit.month)) then "size_in_months" else
  if ((pu == DUnit.day)) then "size_in_days" else
  if ((pu == DUnit.week)) then "size_in_weeks" else
  "size_in_weekdays"

/-- 2 guards of `Holder._set` (openfisca_core/holders/holder.py), first match decides; `true` = raises -/
def holderSet_raises (du pu : DUnit) (sz : Int) : Bool :=
  if (!(du == DUnit.eternity)) && (((some pu).isNone)) then true else
  if (!(du == DUnit.eternity)) && (((du != pu)) || ((decide (sz > (1 : Int))))) then true else
  false

/-- 2 guards of `Holder.set_input` (openfisca_core/holders/holder.py), first match decides; `true` = raises -/
def holderSetInput_refuses (du pu : DUnit) (neutralized : Bool) : Bool :=
  if (((pu == DUnit.eternity)) && (!(du == DUnit.eternity))) then true else
  if neutralized then false else
  false

def translated : List (String × Bool) := [("checkPeriodConsistency_raises", true), ("calculateAdd_raises", true), ("calculateDivide_raises", true), ("calculateDivide_period", true), ("calculateDivide_denominator", true), ("holderSet_raises", true), ("holderSetInput_refuses", true)]
end OFCore.Generated.Guards
