-- REGENERATED from the tree under test by harness/ofverif/translate.py on every run. Do not edit.
import OFCore.TieBase
namespace OFCore.Generated.Guards
open OFCore

/-- 7 guards of `Simulation._check_period_consistency` (openfisca_core/simulations/simulation.py), first match decides; `true` = raises -/
def checkPeriodConsistency_raises (du pu : DUnit) (sz : Int) : Bool :=
  if ((du == DUnit.eternity)) then false else
  if (((du == DUnit.year)) && ((pu != DUnit.year))) then true else
  if (((du == DUnit.month)) && ((pu != DUnit.month))) then true else
  if (((du == DUnit.week)) && ((pu != DUnit.week))) then true else
  if (((du == DUnit.day)) && ((pu != DUnit.day))) then true else
  if (((du == DUnit.weekday)) && ((pu != DUnit.weekday))) then true else
  if ((sz != (1 : Int))) then true else
  false

/-- 3 guards of `Simulation.calculate_add` (openfisca_core/simulations/simulation.py), first match decides; `true` = raises -/
def calculateAdd_raises (du pu : DUnit) (sz : Int) : Bool :=
  if ((decide ((unitWeight du) > (unitWeight pu)))) then true else
  if ((!((OFCore.Generated.isoformatUnits ++ OFCore.Generated.isocalendarUnits).contains (du).name))) then true else
  if ((!((OFCore.Generated.isoformatUnits ++ OFCore.Generated.isocalendarUnits).contains (pu).name))) then true else
  false

/-- 3 guards of `Simulation.calculate_divide` (openfisca_core/simulations/simulation.py), first match decides; `true` = raises -/
def calculateDivide_raises (du pu : DUnit) (sz : Int) : Bool :=
  if (((decide ((unitWeight du) < (unitWeight pu)))) || ((decide (sz > (1 : Int))))) then true else
  if ((!((OFCore.Generated.isoformatUnits ++ OFCore.Generated.isocalendarUnits).contains (du).name))) then true else
  if (((!((OFCore.Generated.isoformatUnits ++ OFCore.Generated.isocalendarUnits).contains (pu).name))) || ((sz != (1 : Int)))) then true else
  false

/-- the attribute `Simulation.calculate_divide` assigns to `calculation_period` (openfisca_core/simulations/simulation.py) -/
def calculateDivide_period (du : DUnit) : String :=
  if ((du == DUnit.year)) then "this_year" else
  if ((du == DUnit.month)) then "first_month" else
  if ((du == DUnit.day)) then "first_day" else
  if ((du == DUnit.week)) then "first_week" else
  "first_weekday"

/-- the attribute `Simulation.calculate_divide` assigns to `denominator` (openfisca_core/simulations/simulation.py) -/
def calculateDivide_denominator (pu : DUnit) : String :=
  if ((pu == DUnit.year)) then "size_in_years" else
  if ((pu == DUnit.month)) then "size_in_months" else
  if ((pu == DUnit.day)) then "size_in_days" else
  if ((pu == DUnit.week)) then "size_in_weeks" else
  "size_in_weekdays"

/-- `Period.size_in_years` (openfisca_core/periods/period_.py): 2 branches, first match decides, leaves translated idiom by idiom -/
def period_size_in_years (p : Period) : Except String Int :=
  if ((p.unit == DUnit.year)) then (Except.ok p.size) else
  (Except.error "value")

/-- `Period.size_in_months` (openfisca_core/periods/period_.py): 3 branches, first match decides, leaves translated idiom by idiom -/
def period_size_in_months (p : Period) : Except String Int :=
  if ((p.unit == DUnit.year)) then (do let a ← (Except.ok p.size); let b ← (Except.ok (12 : Int)); Except.ok (a * b)) else
  if ((p.unit == DUnit.month)) then (Except.ok p.size) else
  (Except.error "value")

/-- `Period.size_in_days` (openfisca_core/periods/period_.py): 4 branches, first match decides, leaves translated idiom by idiom -/
def period_size_in_days (p : Period) : Except String Int :=
  if (([DUnit.year, DUnit.month].contains p.unit)) then p.spanDays else
  if ((p.unit == DUnit.week)) then (do let a ← (Except.ok p.size); let b ← (Except.ok (7 : Int)); Except.ok (a * b)) else
  if (([DUnit.day, DUnit.weekday].contains p.unit)) then (Except.ok p.size) else
  (Except.error "value")

/-- `Period.size_in_weeks` (openfisca_core/periods/period_.py): 4 branches, first match decides, leaves translated idiom by idiom -/
def period_size_in_weeks (p : Period) : Except String Int :=
  if ((p.unit == DUnit.year)) then (Tie.weeksAfterYears p) else
  if ((p.unit == DUnit.month)) then (Tie.weeksAfterMonths p) else
  if ((p.unit == DUnit.week)) then (Except.ok p.size) else
  (Except.error "value")

/-- `Period.size_in_weekdays` (openfisca_core/periods/period_.py): 5 branches, first match decides, leaves translated idiom by idiom -/
def period_size_in_weekdays (p : Period) : Except String Int :=
  if ((p.unit == DUnit.year)) then (do let a ← p.sizeInWeeks; let b ← (Except.ok (7 : Int)); Except.ok (a * b)) else
  if ((OFCore.Tie.nameInfix DUnit.month p.unit)) then p.spanDays else
  if ((p.unit == DUnit.week)) then (do let a ← (Except.ok p.size); let b ← (Except.ok (7 : Int)); Except.ok (a * b)) else
  if (([DUnit.day, DUnit.weekday].contains p.unit)) then (Except.ok p.size) else
  (Except.error "value")

/-- `Period.get_subperiods` (openfisca_core/periods/period_.py): 7 branches, first match decides, leaves translated idiom by idiom -/
def period_get_subperiods (p : Period) (u : DUnit) : Except String (List Period) :=
  if ((decide ((unitWeight p.unit) < (unitWeight u)))) then (Except.error "value") else
  if ((u == DUnit.year)) then (do let b ← p.thisYear; let n ← (Except.ok p.size); offsetsFrom b DUnit.year n) else
  if ((u == DUnit.month)) then (do let b ← p.firstMonth; let n ← p.sizeInMonths; offsetsFrom b DUnit.month n) else
  if ((u == DUnit.day)) then (do let b ← (Except.ok p.firstDay); let n ← p.sizeInDays; offsetsFrom b DUnit.day n) else
  if ((u == DUnit.week)) then (do let b ← p.firstWeek; let n ← p.sizeInWeeks; offsetsFrom b DUnit.week n) else
  if ((u == DUnit.weekday)) then (do let b ← (Except.ok p.firstWeekday); let n ← p.sizeInWeekdays; offsetsFrom b DUnit.weekday n) else
  (Except.error "value")

/-- the test of the `if … raise` of `period` (openfisca_core/periods/helpers.py) that mentions `unit_weight(period.unit)` -/
def period_text_finer_refused (u base : DUnit) : Bool :=
  (((decide ((unitWeight base) > (unitWeight u)))) || (((u == DUnit.week)) && ((base == DUnit.month))))

/-- 2 guards of `Holder._set` (openfisca_core/holders/holder.py), first match decides; `true` = raises -/
def holderSet_raises (du pu : DUnit) (sz : Int) : Bool :=
  if (!(du == DUnit.eternity)) && (((some pu).isNone)) then true else
  if (!(du == DUnit.eternity)) && (((du != pu)) || ((decide (sz > (1 : Int))))) then true else
  false

/-- 2 guards of `Holder.set_input` (openfisca_core/holders/holder.py), first match decides; `true` = raises -/
def holderSetInput_refuses (du pu : DUnit) (neutralized : Bool) : Bool :=
  if (((pu == DUnit.eternity)) && (!(du == DUnit.eternity))) then true else
  if neutralized then false else
  false

def translated : List (String × Bool) := [("checkPeriodConsistency_raises", true), ("calculateAdd_raises", true), ("calculateDivide_raises", true), ("calculateDivide_period", true), ("calculateDivide_denominator", true), ("period_size_in_years", true), ("period_size_in_months", true), ("period_size_in_days", true), ("period_size_in_weeks", true), ("period_size_in_weekdays", true), ("period_get_subperiods", true), ("period_text_finer_refused", true), ("holderSet_raises", true), ("holderSetInput_refuses", true)]
end OFCore.Generated.Guards
