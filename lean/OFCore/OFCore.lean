-- Root of the library. The property modules are built as explicit targets (`lake build
-- OFCore.Props.Cxx …`, see MANIFEST.json setup_cmd): several of them define their own
-- namespaces' vocabulary independently and are not meant to be imported together.
import OFCore.Calendar
import OFCore.Period
import OFCore.PeriodText
