import OFCore.Calendar
import OFCore.Generated
import OFCore.Period
import OFCore.PeriodText
