import OFCore.Drv.Main
import OFCore.Drv.Heap
open OFCore.Drv
def main : IO Unit := runLoop fun
  | "heap" :: args => handleHeap args
  | _ => "BAD"
