import OFCore.Drv.Main
import OFCore.Drv.Sim
open OFCore.Drv
def main : IO Unit := runLoop fun
  | "sim" :: args => handleSim args
  | _ => "BAD"
