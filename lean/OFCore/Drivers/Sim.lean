import OFCore.Drv.Main
import OFCore.Drv.Sim
import OFCore.Drv.Hst
open OFCore.Drv
def main : IO Unit := runLoop fun
  | "sim" :: args => handleSim args
  | "hst" :: args => handleHst args
  | _ => "BAD"
