import OFCore.Drv.Main
import OFCore.Drv.Grp
open OFCore.Drv
def main : IO Unit := runLoop fun
  | "grp" :: args => handleGrp args
  | _ => "BAD"
