import OFCore.Drv.Main
import OFCore.Drv.Sin
open OFCore.Drv
def main : IO Unit := runLoop fun
  | "sin" :: args => handleSin args
  | _ => "BAD"
