import OFCore.Drv.Main
import OFCore.Drv.Doc
open OFCore.Drv
def main : IO Unit := runLoop fun
  | "doc" :: args => handleDoc args
  | _ => "BAD"
