import OFCore.Drv.Main
import OFCore.Drv.Api
open OFCore.Drv
def main : IO Unit := runLoop fun
  | "api" :: args => handleApi args
  | _ => "BAD"
