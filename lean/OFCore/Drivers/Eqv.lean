import OFCore.Drv.Main
import OFCore.Drv.Eqv
open OFCore.Drv
def main : IO Unit := runLoop fun
  | "eqv" :: args => handleEqv args
  | _ => "BAD"
