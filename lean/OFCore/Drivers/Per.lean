import OFCore.Drv.Main
import OFCore.Drv.Per
open OFCore.Drv
def main : IO Unit := runLoop fun
  | "cal" :: args => handleCal args
  | "per" :: args => handlePer args
  | "txt" :: args => handleTxt args
  | _ => "BAD"
