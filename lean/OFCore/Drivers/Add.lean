import OFCore.Drv.Main
import OFCore.Drv.Add
open OFCore.Drv
def main : IO Unit := runLoop fun
  | "add" :: args => handleAdd args
  | _ => "BAD"
