import OFCore.Drv.Main
import OFCore.Drv.Enm
open OFCore.Drv
def main : IO Unit := runLoop fun
  | "enm" :: args => handleEnm args
  | _ => "BAD"
