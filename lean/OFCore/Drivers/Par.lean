import OFCore.Drv.Main
import OFCore.Drv.Par
open OFCore.Drv
def main : IO Unit := runLoop fun
  | "par" :: args => handlePar args
  | _ => "BAD"
