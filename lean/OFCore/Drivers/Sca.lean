import OFCore.Drv.Main
import OFCore.Drv.Sca
open OFCore.Drv
def main : IO Unit := runLoop fun
  | "sca" :: args => handleSca args
  | _ => "BAD"
