import OFCore.Drv.Main
import OFCore.Drv.PView
open OFCore.Drv
def main : IO Unit := runLoop fun
  | "pview" :: args => handlePView args
  | _ => "BAD"
