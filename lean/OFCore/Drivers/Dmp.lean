import OFCore.Drv.Main
import OFCore.Drv.Dmp
open OFCore.Drv
def main : IO Unit := runLoop fun
  | "dmp" :: args => handleDmp args
  | _ => "BAD"
