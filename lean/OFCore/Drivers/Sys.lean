import OFCore.Drv.Main
import OFCore.Drv.Sys
open OFCore.Drv
def main : IO Unit := runLoop fun
  | "sys" :: args => handleSys args
  | _ => "BAD"
